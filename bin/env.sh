# Sourced by every /verif script. Locates the Go toolchain that matches /repo/go.mod and the
# stub libflux, and exports an offline build environment. No network is ever used.
VERIF_ROOT=${VERIF_ROOT:-$(cd "$(dirname "${BASH_SOURCE[0]}")/.." && pwd)}
VERIF_REPO=${VERIF_REPO:-/repo}
export VERIF_ROOT VERIF_REPO

GOMODCACHE_DIR=${GOMODCACHE:-/root/go/pkg/mod}
want=$(awk '$1=="go"{print $2; exit}' "$VERIF_REPO/go.mod" 2>/dev/null)
GO_BIN=""
for cand in "$GOMODCACHE_DIR/golang.org/toolchain@v0.0.1-go${want}.linux-amd64/bin/go" \
            "$GOMODCACHE_DIR/golang.org/toolchain@v0.0.1-go1.25.7.linux-amd64/bin/go" \
            "/opt/veriftools/go1.26.8/bin/go" "$(command -v go1.26.8 2>/dev/null)" "$(command -v go 2>/dev/null)"; do
  if [ -n "$cand" ] && [ -x "$cand" ]; then GO_BIN=$cand; break; fi
done
if [ -z "$GO_BIN" ]; then echo "verif: no Go toolchain found" >&2; exit 2; fi
export GO_BIN
export GOTOOLCHAIN=local GOFLAGS=-mod=mod GOPROXY=off GOSUMDB=off GONOSUMDB='*' GONOSUMCHECK=1 GOWORK=off
export GOMODCACHE=$GOMODCACHE_DIR
export CGO_ENABLED=1
export VERIF_BUILD=$VERIF_ROOT/.build
export PKG_CONFIG_PATH=$VERIF_BUILD/libflux${PKG_CONFIG_PATH:+:$PKG_CONFIG_PATH}
# the repo's own pkg-config wrapper must not shadow the system one
export PKG_CONFIG=$(command -v pkg-config)
# Go caches the pkg-config link flags inside the compiled cgo package; naming the stub's
# directory in CGO_LDFLAGS as well keeps a stale cache entry (other -L path) linkable and makes
# the path part of the cache key.
export CGO_LDFLAGS="-L$VERIF_BUILD/libflux ${CGO_LDFLAGS:-}"

#include <stddef.h>
#include <stdlib.h>
#include <string.h>
#include "influxdata/flux.h"
struct flux_error_t { const char *msg; };
static struct flux_error_t stub_err = { "libflux stub: flux is not available in this verification build" };
static char empty_fb[12] = {8,0,0,0, 4,0,4,0, 4,0,0,0};
void flux_semantic_packages(struct flux_buffer_t *b){ b->data=empty_fb; b->len=sizeof(empty_fb); }
void flux_free_error(struct flux_error_t *e){ (void)e; }
const char *flux_error_str(struct flux_error_t *e){ return e? e->msg : ""; }
void flux_error_print(struct flux_error_t *e){ (void)e; }
void flux_free_bytes(const char *p){ (void)p; }
struct flux_ast_pkg_t *flux_parse(const char *f, const char *s){ (void)f;(void)s; return NULL; }
struct flux_error_t *flux_ast_format(struct flux_ast_pkg_t *p, struct flux_buffer_t *b){ (void)p; b->data=NULL;b->len=0; return &stub_err; }
struct flux_error_t *flux_ast_get_error(struct flux_ast_pkg_t *p, const char* o){ (void)p;(void)o; return &stub_err; }
void flux_free_ast_pkg(struct flux_ast_pkg_t *p){ (void)p; }
struct flux_error_t *flux_merge_ast_pkgs(struct flux_ast_pkg_t *a, struct flux_ast_pkg_t *b){ (void)a;(void)b; return &stub_err; }
struct flux_error_t *flux_parse_json(const char *s, struct flux_ast_pkg_t **p){ (void)s; *p=NULL; return &stub_err; }
struct flux_error_t *flux_ast_marshal_json(struct flux_ast_pkg_t *p, struct flux_buffer_t *b){ (void)p; b->data=NULL;b->len=0; return &stub_err; }
void flux_get_env_stdlib(struct flux_buffer_t *b){ b->data=empty_fb; b->len=sizeof(empty_fb); }
struct flux_stateful_analyzer_t *flux_new_stateful_analyzer(const char * o){ (void)o; return NULL; }
void flux_free_stateful_analyzer(struct flux_stateful_analyzer_t *a){ (void)a; }
struct flux_error_t *flux_analyze_with(struct flux_stateful_analyzer_t *a, const char * src, struct flux_ast_pkg_t *p, struct flux_semantic_pkg_t **o){ (void)a;(void)src;(void)p; *o=NULL; return &stub_err; }
struct flux_error_t *flux_analyze(struct flux_ast_pkg_t *p, const char * o, struct flux_semantic_pkg_t **out){ (void)p;(void)o; *out=NULL; return &stub_err; }
struct flux_error_t *flux_find_var_type(struct flux_semantic_pkg_t *p, const char *v, struct flux_buffer_t *b){ (void)p;(void)v; b->data=NULL;b->len=0; return &stub_err; }
void flux_free_semantic_pkg(struct flux_semantic_pkg_t*p){ (void)p; }
struct flux_error_t *flux_semantic_marshal_fb(struct flux_semantic_pkg_t *p, struct flux_buffer_t *b){ (void)p; b->data=NULL;b->len=0; return &stub_err; }

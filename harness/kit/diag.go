// Package kit holds helpers shared by the property monitors: diagnostics, sinks/gates,
// task-master assembly.
package kit

import (
	"io"
	"sync"

	"github.com/influxdata/kapacitor/services/diagnostic"
)

var (
	diagOnce sync.Once
	diagSvc  *diagnostic.Service
)

// DiagService is the repo's own diagnostic service writing to io.Discard.
func DiagService() *diagnostic.Service {
	diagOnce.Do(func() {
		c := diagnostic.NewConfig()
		c.Level = "error"
		diagSvc = diagnostic.NewService(c, io.Discard, io.Discard)
		if err := diagSvc.Open(); err != nil {
			panic(err)
		}
	})
	return diagSvc
}

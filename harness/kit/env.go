package kit

import (
	"errors"
	"fmt"
	"os"
	"time"

	"github.com/influxdata/kapacitor"
	"github.com/influxdata/kapacitor/edge"
	"github.com/influxdata/kapacitor/models"
	alertservice "github.com/influxdata/kapacitor/services/alert"
	"github.com/influxdata/kapacitor/services/httpd"
	"github.com/influxdata/kapacitor/services/storage/storagetest"
	"github.com/influxdata/kapacitor/uuid"
)

type serverInfo struct{ c, s uuid.UUID }

func (i serverInfo) ClusterID() uuid.UUID    { return i.c }
func (i serverInfo) ServerID() uuid.UUID     { return i.s }
func (i serverInfo) Hostname() string        { return "localhost" }
func (i serverInfo) Version() string         { return "verif" }
func (i serverInfo) Product() string         { return "kapacitor" }
func (i serverInfo) Platform() string        { return "verif" }
func (i serverInfo) NumTasks() int64         { return 0 }
func (i serverInfo) NumEnabledTasks() int64  { return 0 }
func (i serverInfo) NumSubscriptions() int64 { return 0 }
func (i serverInfo) Uptime() time.Duration   { return 0 }

func ServerInfo() serverInfo { return serverInfo{uuid.New(), uuid.New()} }

type NopTaskStore struct{}

func (NopTaskStore) SaveSnapshot(string, *kapacitor.TaskSnapshot) error { return nil }
func (NopTaskStore) HasSnapshot(string) bool                            { return false }
func (NopTaskStore) LoadSnapshot(string) (*kapacitor.TaskSnapshot, error) {
	return nil, errors.New("not implemented")
}

type NopDeadman struct{}

// the product's default deadman configuration (services/deadman/config.go)
func (NopDeadman) Interval() time.Duration { return 10 * time.Second }
func (NopDeadman) Threshold() float64      { return 0 }
func (NopDeadman) Id() string              { return "{{ .Group }}:NODE_NAME for task '{{ .TaskName }}'" }
func (NopDeadman) Message() string {
	return "{{ .ID }} is {{ if eq .Level \"OK\" }}alive{{ else }}dead{{ end }}: {{ index .Fields \"emitted\" | printf \"%0.3f\" }} points/INTERVAL."
}
func (NopDeadman) Global() bool { return false }

// NopHTTPD satisfies the HTTPDService dependencies without opening a socket.
type NopHTTPD struct{}

func (NopHTTPD) AddRoutes([]httpd.Route) error { return nil }
func (NopHTTPD) DelRoutes([]httpd.Route)       {}
func (NopHTTPD) URL() string                   { return "http://localhost:0/kapacitor/v1" }

type tempDirer struct{ dir string }

func (t tempDirer) TempDir() string {
	d, err := os.MkdirTemp(t.dir, "store")
	if err != nil {
		panic(err)
	}
	return d
}

// Env is a TaskMaster with the real alert service and a recording diagnostic.
type Env struct {
	TM    *kapacitor.TaskMaster
	Rec   *Recorder
	Alert *alertservice.Service
	Store *storagetest.TestStore
}

type EnvOpts struct {
	Scratch       string
	PersistTopics bool
	// AlertStorage overrides the storage service of the alert service (C08).
	AlertStorage alertservice.StorageService
	NoAlert      bool
	// TopicBuffer is the per-handler event buffer of the alert service (0 = product default 5000).
	TopicBuffer int
}

func NewEnv(o EnvOpts) (*Env, error) {
	rec := NewRecorder()
	tm := kapacitor.NewTaskMaster("verif", ServerInfo(), rec.Diag())
	tm.HTTPDService = NopHTTPD{}
	tm.TaskStore = NopTaskStore{}
	tm.DeadmanService = NopDeadman{}
	e := &Env{TM: tm, Rec: rec}
	if !o.NoAlert {
		ds := DiagService()
		as := alertservice.NewService(ds.NewAlertServiceHandler(), nil, o.TopicBuffer)
		as.PersistTopics = o.PersistTopics
		if o.AlertStorage != nil {
			as.StorageService = o.AlertStorage
		} else {
			st := storagetest.New(tempDirer{o.Scratch}, ds.NewStorageHandler())
			e.Store = st
			as.StorageService = st
		}
		as.HTTPDService = NopHTTPD{}
		if err := as.Open(); err != nil {
			return nil, fmt.Errorf("alert service open: %v", err)
		}
		tm.AlertService = as
		e.Alert = as
	}
	if err := tm.Open(); err != nil {
		return nil, err
	}
	return e, nil
}

var DefaultDBRPs = []kapacitor.DBRP{{Database: "db", RetentionPolicy: "rp"}}

// StartStream defines and starts a stream task.
func (e *Env) StartStream(id, script string, dbrps []kapacitor.DBRP) (*kapacitor.ExecutingTask, error) {
	if dbrps == nil {
		dbrps = DefaultDBRPs
	}
	t, err := e.TM.NewTask(id, script, kapacitor.StreamTask, dbrps, 0, nil)
	if err != nil {
		return nil, err
	}
	return e.TM.StartTask(t)
}

// StartBatch defines and starts a batch task (queries are not run: no InfluxDB service is
// needed because batches are fed through BatchCollectors).
func (e *Env) StartBatch(id, script string, dbrps []kapacitor.DBRP) (*kapacitor.ExecutingTask, error) {
	if dbrps == nil {
		dbrps = DefaultDBRPs
	}
	t, err := e.TM.NewTask(id, script, kapacitor.BatchTask, dbrps, 0, nil)
	if err != nil {
		return nil, err
	}
	return e.TM.StartTask(t)
}

// Point builds a point message for db/rp.
func Point(name string, tags map[string]string, fields map[string]interface{}, t time.Time) edge.PointMessage {
	return edge.NewPointMessage(name, "db", "rp", models.Dimensions{}, models.Fields(fields), models.Tags(tags), t)
}

func (e *Env) Write(p edge.PointMessage) error { return e.TM.WriteKapacitorPoint(p) }

// DrainWait closes the write stream, waits for the tasks to finish and closes everything.
func (e *Env) DrainWait(ets ...*kapacitor.ExecutingTask) error {
	e.TM.Drain()
	var first error
	for _, et := range ets {
		if err := et.Wait(); err != nil && first == nil {
			first = err
		}
	}
	return first
}

func (e *Env) Close() {
	e.Rec.OpenAllGates()
	e.TM.Close()
	if e.Alert != nil {
		e.Alert.Close()
	}
	if e.Store != nil {
		e.Store.Close()
	}
}

package kit

import (
	"context"
	"errors"
	"sync"
	"time"

	"github.com/influxdata/flux"
	"github.com/influxdata/kapacitor/influxdb"
)

// FakeInflux is an influxdb.Client (and the TaskMaster's InfluxDBService) that records every
// query and write and can be gated.
type FakeInflux struct {
	mu       sync.Mutex
	cond     *sync.Cond
	Queries  []string
	QueryAt  []time.Time
	Writes   []influxdb.BatchPoints
	gateShut bool
	waiting  int
	// Respond, if set, produces the response of a query.
	Respond func(q string) (*influxdb.Response, error)
	// FailWrites makes Write return an error.
	FailWrites bool
}

func NewFakeInflux() *FakeInflux {
	f := &FakeInflux{}
	f.cond = sync.NewCond(&f.mu)
	return f
}

func (f *FakeInflux) NewNamedClient(name string) (influxdb.Client, error) { return f, nil }

func (f *FakeInflux) Ping(ctx context.Context) (time.Duration, string, error) { return 0, "fake", nil }

func (f *FakeInflux) CloseGate() { f.mu.Lock(); f.gateShut = true; f.mu.Unlock() }
func (f *FakeInflux) OpenGate() {
	f.mu.Lock()
	f.gateShut = false
	f.cond.Broadcast()
	f.mu.Unlock()
}

// Waiting reports how many Write calls are blocked at the gate.
func (f *FakeInflux) Waiting() int { f.mu.Lock(); defer f.mu.Unlock(); return f.waiting }

func (f *FakeInflux) Write(bp influxdb.BatchPoints) error {
	f.mu.Lock()
	f.waiting++
	for f.gateShut {
		f.cond.Wait()
	}
	f.waiting--
	defer f.mu.Unlock()
	if f.FailWrites {
		return errors.New("fake influxdb: write failed")
	}
	f.Writes = append(f.Writes, bp)
	return nil
}

func (f *FakeInflux) WriteV2(w influxdb.FluxWrite) error { return errors.New("not supported") }

func (f *FakeInflux) Query(q influxdb.Query) (*influxdb.Response, error) {
	f.mu.Lock()
	f.Queries = append(f.Queries, q.Command)
	f.QueryAt = append(f.QueryAt, time.Now())
	r := f.Respond
	f.mu.Unlock()
	if r != nil {
		return r(q.Command)
	}
	return &influxdb.Response{}, nil
}

func (f *FakeInflux) QueryFlux(q influxdb.FluxQuery) (flux.ResultIterator, error) {
	return nil, errors.New("not supported")
}
func (f *FakeInflux) QueryFluxResponse(q influxdb.FluxQuery) (*influxdb.Response, error) {
	return nil, errors.New("not supported")
}
func (f *FakeInflux) CreateBucketV2(bucket, org, orgID string) error { return nil }

// Snapshot returns copies of the recorded queries and written points.
func (f *FakeInflux) Snapshot() (queries []string, points []influxdb.Point) {
	f.mu.Lock()
	defer f.mu.Unlock()
	queries = append(queries, f.Queries...)
	for _, bp := range f.Writes {
		points = append(points, bp.Points()...)
	}
	return
}

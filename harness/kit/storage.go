package kit

import (
	"fmt"
	"path/filepath"
	"sync"
	"sync/atomic"
	"time"

	"github.com/influxdata/kapacitor/services/storage"
	bolt "go.etcd.io/bbolt"
)

// BoltStorage is a storage service on a real Bolt file owned by the harness. With a snapshot
// directory it takes a consistent copy of the file after every committed Update, together with
// the value of *Cur at that moment (the harness' notion of the operation in flight).

type SnapInfo struct {
	K     int
	Point int32
	Path  string
}

type BoltStorage struct {
	db       *bolt.DB
	path     string
	snapDir  string // "" = no snapshots
	Cur      *int32
	mu       sync.Mutex
	commits  int
	snaps    []SnapInfo
	versions storage.Versions
	reg      *storage.StoreActionerRegistrar
}

func OpenBoltStorage(path, snapDir string, cur *int32) (*BoltStorage, error) {
	db, err := bolt.Open(path, 0600, &bolt.Options{Timeout: 2 * time.Second, NoSync: true})
	if err != nil {
		return nil, err
	}
	if cur == nil {
		cur = new(int32)
	}
	s := &BoltStorage{db: db, path: path, snapDir: snapDir, Cur: cur, reg: storage.NewStorageRegistrar()}
	s.versions = storage.NewVersions(storage.NewBolt(db, []byte("versions")))
	return s, nil
}

func (s *BoltStorage) Store(ns string) storage.Interface {
	return &snapStore{inner: storage.NewBolt(s.db, []byte(ns)), s: s}
}
func (s *BoltStorage) Register(name string, store storage.StoreActioner) { s.reg.Register(name, store) }
func (s *BoltStorage) Versions() storage.Versions                        { return s.versions }
func (s *BoltStorage) Diagnostic() storage.Diagnostic                    { return DiagService().NewStorageHandler() }
func (s *BoltStorage) Path() string                                      { return s.path }
func (s *BoltStorage) CloseBolt() error                                  { return s.db.Close() }

// Commits returns the number of committed updates so far.
func (s *BoltStorage) Commits() int { s.mu.Lock(); defer s.mu.Unlock(); return s.commits }

// Snaps returns the snapshots taken so far.
func (s *BoltStorage) Snaps() []SnapInfo {
	s.mu.Lock()
	defer s.mu.Unlock()
	return append([]SnapInfo{}, s.snaps...)
}

func (s *BoltStorage) committed() {
	s.mu.Lock()
	defer s.mu.Unlock()
	s.commits++
	if s.snapDir == "" {
		return
	}
	p := filepath.Join(s.snapDir, fmt.Sprintf("snap-%d.db", s.commits))
	err := s.db.View(func(tx *bolt.Tx) error { return tx.CopyFile(p, 0600) })
	if err == nil {
		s.snaps = append(s.snaps, SnapInfo{K: s.commits, Point: atomic.LoadInt32(s.Cur), Path: p})
	}
}

type snapStore struct {
	inner *storage.Bolt
	s     *BoltStorage
}

func (st *snapStore) View(fn func(storage.ReadOnlyTx) error) error { return st.inner.View(fn) }
func (st *snapStore) Store(b ...[]byte) storage.Interface {
	return &snapStore{inner: st.inner.Store(b...).(*storage.Bolt), s: st.s}
}
func (st *snapStore) Update(fn func(storage.Tx) error) error {
	err := st.inner.Update(fn)
	if err == nil {
		st.s.committed()
	}
	return err
}

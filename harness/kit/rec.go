package kit

import (
	"fmt"
	"sort"
	"strings"
	"sync"
	"time"

	"github.com/influxdata/kapacitor"
	"github.com/influxdata/kapacitor/alert"
	"github.com/influxdata/kapacitor/edge"
	"github.com/influxdata/kapacitor/keyvalue"
	"github.com/influxdata/kapacitor/models"
)

// P is a plain copy of a point message taken at a sink.
type P struct {
	Name, DB, RP string
	Group        string
	Dims         []string
	ByName       bool
	Tags         map[string]string
	Fields       map[string]interface{}
	Time         time.Time
}

// BP is a plain copy of a batch point.
type BP struct {
	Tags   map[string]string
	Fields map[string]interface{}
	Time   time.Time
}

// B is a plain copy of a buffered batch taken at a sink.
type B struct {
	Name   string
	Group  string
	Dims   []string
	ByName bool
	Tags   map[string]string
	TMax   time.Time
	Points []BP
}

// Item is one message seen at a sink (exactly one of P / B is set).
type Item struct {
	P *P
	B *B
	// live message objects, kept only when the recorder's KeepLive flag is set (C10 aliasing oracle)
	liveP edge.PointMessage
	liveB edge.BufferedBatchMessage
}

// LiveDiff re-reads the message object the sink received and reports how it differs now from
// the plain copy taken at receipt ("" = unchanged, or not kept). A difference means somebody
// mutated a message (or a map it references) after it had been forwarded.
func (it Item) LiveDiff() string {
	switch {
	case it.liveP != nil:
		now := PlainPoint(it.liveP)
		if d := diffP(it.P, now); d != "" {
			return d
		}
	case it.liveB != nil:
		now := PlainBatch(it.liveB)
		if now.Name != it.B.Name || now.Group != it.B.Group || !now.TMax.Equal(it.B.TMax) || fmt.Sprint(now.Tags) != fmt.Sprint(it.B.Tags) || fmt.Sprint(now.Dims) != fmt.Sprint(it.B.Dims) {
			return fmt.Sprintf("batch header was %s/%s/%v/%v, is now %s/%s/%v/%v", it.B.Name, it.B.Group, it.B.Tags, it.B.TMax, now.Name, now.Group, now.Tags, now.TMax)
		}
		if len(now.Points) != len(it.B.Points) {
			return fmt.Sprintf("batch had %d points, now %d", len(it.B.Points), len(now.Points))
		}
		for i := range now.Points {
			a, b := it.B.Points[i], now.Points[i]
			if d := diffP(&P{Tags: a.Tags, Fields: a.Fields, Time: a.Time}, &P{Tags: b.Tags, Fields: b.Fields, Time: b.Time}); d != "" {
				return fmt.Sprintf("batch point %d: %s", i, d)
			}
		}
	}
	return ""
}

func diffP(was, now *P) string {
	if was.Name != now.Name || was.Group != now.Group || !was.Time.Equal(now.Time) || fmt.Sprint(was.Dims) != fmt.Sprint(now.Dims) {
		return fmt.Sprintf("was %s group=%q dims=%v t=%v, is now %s group=%q dims=%v t=%v", was.Name, was.Group, was.Dims, was.Time, now.Name, now.Group, now.Dims, now.Time)
	}
	if fmt.Sprint(was.Tags) != fmt.Sprint(now.Tags) {
		return fmt.Sprintf("tags were %v, are now %v", was.Tags, now.Tags)
	}
	if len(was.Fields) != len(now.Fields) {
		return fmt.Sprintf("fields were %v, are now %v", was.Fields, now.Fields)
	}
	for k, v := range was.Fields {
		w, ok := now.Fields[k]
		if !ok || fmt.Sprintf("%T:%v", v, v) != fmt.Sprintf("%T:%v", w, w) {
			return fmt.Sprintf("fields were %v, are now %v", was.Fields, now.Fields)
		}
	}
	return ""
}

func copyTags(t models.Tags) map[string]string {
	m := make(map[string]string, len(t))
	for k, v := range t {
		m[k] = v
	}
	return m
}
func copyFields(f models.Fields) map[string]interface{} {
	m := make(map[string]interface{}, len(f))
	for k, v := range f {
		m[k] = v
	}
	return m
}

func PlainPoint(p edge.PointMessage) *P {
	d := p.Dimensions()
	return &P{Name: p.Name(), DB: p.Database(), RP: p.RetentionPolicy(), Group: string(p.GroupID()),
		Dims: append([]string{}, d.TagNames...), ByName: d.ByName, Tags: copyTags(p.Tags()), Fields: copyFields(p.Fields()), Time: p.Time()}
}

func PlainBatch(b edge.BufferedBatchMessage) *B {
	bg := b.Begin()
	d := bg.Dimensions()
	out := &B{Name: bg.Name(), Group: string(bg.GroupID()), Dims: append([]string{}, d.TagNames...), ByName: d.ByName,
		Tags: copyTags(bg.Tags()), TMax: bg.Time()}
	for _, bp := range b.Points() {
		out.Points = append(out.Points, BP{Tags: copyTags(bp.Tags()), Fields: copyFields(bp.Fields()), Time: bp.Time()})
	}
	return out
}

// Sink records everything a `|log().prefix('<id>')` node sees and can stall that node.
type Sink struct {
	ID    string
	mu    sync.Mutex
	cond  *sync.Cond
	items []Item
	// gate: number of messages still allowed through; <0 = open
	allow   int
	waiting int
	OnItem  func(Item) // optional synchronous callback (called without the lock)
}

func (s *Sink) pass(it Item) {
	s.mu.Lock()
	s.waiting++
	s.cond.Broadcast()
	for s.allow == 0 {
		s.cond.Wait()
	}
	if s.allow > 0 {
		s.allow--
	}
	s.waiting--
	s.items = append(s.items, it)
	cb := s.OnItem
	s.cond.Broadcast()
	s.mu.Unlock()
	if cb != nil {
		cb(it)
	}
}

// Items returns a snapshot of what the sink has seen so far.
func (s *Sink) Items() []Item {
	s.mu.Lock()
	defer s.mu.Unlock()
	return append([]Item{}, s.items...)
}
func (s *Sink) Len() int {
	s.mu.Lock()
	defer s.mu.Unlock()
	return len(s.items)
}
func (s *Sink) Points() []*P {
	var out []*P
	for _, it := range s.Items() {
		if it.P != nil {
			out = append(out, it.P)
		}
	}
	return out
}
func (s *Sink) Batches() []*B {
	var out []*B
	for _, it := range s.Items() {
		if it.B != nil {
			out = append(out, it.B)
		}
	}
	return out
}

// CloseGate stalls the node at its next message.
func (s *Sink) CloseGate() { s.mu.Lock(); s.allow = 0; s.mu.Unlock() }

// OpenGate lets everything through.
func (s *Sink) OpenGate() { s.mu.Lock(); s.allow = -1; s.cond.Broadcast(); s.mu.Unlock() }

// Allow lets n more messages through a closed gate.
func (s *Sink) Allow(n int) {
	s.mu.Lock()
	if s.allow >= 0 {
		s.allow += n
	}
	s.cond.Broadcast()
	s.mu.Unlock()
}

// WaitLen blocks until the sink has seen n items or the timeout expires.
func (s *Sink) WaitLen(n int, timeout time.Duration) bool {
	deadline := time.Now().Add(timeout)
	for {
		if s.Len() >= n {
			return true
		}
		if time.Now().After(deadline) {
			return false
		}
		time.Sleep(200 * time.Microsecond)
	}
}

// WaitBlocked waits until a message is waiting at the closed gate.
func (s *Sink) WaitBlocked(timeout time.Duration) bool {
	deadline := time.Now().Add(timeout)
	for {
		s.mu.Lock()
		w := s.waiting
		s.mu.Unlock()
		if w > 0 {
			return true
		}
		if time.Now().After(deadline) {
			return false
		}
		time.Sleep(200 * time.Microsecond)
	}
}

// NodeError is one error a node reported through its diagnostic.
type NodeError struct {
	Task, Node, Msg, Err string
}

// Recorder implements kapacitor.Diagnostic (and the task / node / edge diagnostics).
type Recorder struct {
	mu       sync.Mutex
	sinks    map[string]*Sink
	errs     []NodeError
	stopped  map[string]string // task -> error text ("" = clean)
	Triggers int64
	// KeepLive makes sinks retain the message objects they received (set before the task starts).
	KeepLive bool
}

func NewRecorder() *Recorder {
	return &Recorder{sinks: map[string]*Sink{}, stopped: map[string]string{}}
}

// Sink returns (creating if needed) the sink with the given prefix id.
func (r *Recorder) Sink(id string) *Sink {
	r.mu.Lock()
	defer r.mu.Unlock()
	s := r.sinks[id]
	if s == nil {
		s = &Sink{ID: id, allow: -1}
		s.cond = sync.NewCond(&s.mu)
		r.sinks[id] = s
	}
	return s
}

func (r *Recorder) SinkIDs() []string {
	r.mu.Lock()
	defer r.mu.Unlock()
	var l []string
	for k := range r.sinks {
		l = append(l, k)
	}
	sort.Strings(l)
	return l
}

// OpenAllGates releases every gate (used on teardown paths).
func (r *Recorder) OpenAllGates() {
	r.mu.Lock()
	l := make([]*Sink, 0, len(r.sinks))
	for _, s := range r.sinks {
		l = append(l, s)
	}
	r.mu.Unlock()
	for _, s := range l {
		s.OpenGate()
	}
}

func (r *Recorder) Errors() []NodeError {
	r.mu.Lock()
	defer r.mu.Unlock()
	return append([]NodeError{}, r.errs...)
}
func (r *Recorder) ErrorCount() int {
	r.mu.Lock()
	defer r.mu.Unlock()
	return len(r.errs)
}
func (r *Recorder) StoppedWithError(task string) (string, bool) {
	r.mu.Lock()
	defer r.mu.Unlock()
	e, ok := r.stopped[task]
	return e, ok
}

func (r *Recorder) addErr(task, node, msg string, err error) {
	es := ""
	if err != nil {
		es = err.Error()
	}
	r.mu.Lock()
	if len(r.errs) < 100000 {
		r.errs = append(r.errs, NodeError{task, node, msg, es})
	}
	r.mu.Unlock()
}

// --- kapacitor.Diagnostic
type tmDiag struct {
	r  *Recorder
	tm string
}

func (r *Recorder) Diag() kapacitor.Diagnostic { return &tmDiag{r: r} }

func (d *tmDiag) WithTaskContext(task string) kapacitor.TaskDiagnostic {
	return &taskDiag{r: d.r, task: task}
}
func (d *tmDiag) WithTaskMasterContext(tm string) kapacitor.Diagnostic {
	return &tmDiag{r: d.r, tm: tm}
}
func (d *tmDiag) WithNodeContext(node string) kapacitor.NodeDiagnostic {
	return &nodeDiag{r: d.r, node: node}
}
func (d *tmDiag) WithEdgeContext(task, parent, child string) kapacitor.EdgeDiagnostic {
	return edgeDiag{}
}
func (d *tmDiag) TaskMasterOpened()      {}
func (d *tmDiag) TaskMasterClosed()      {}
func (d *tmDiag) StartingTask(id string) {}
func (d *tmDiag) StartedTask(id string)  {}
func (d *tmDiag) StoppedTask(id string)  { d.r.mu.Lock(); d.r.stopped[id] = ""; d.r.mu.Unlock() }
func (d *tmDiag) TaskMasterDot(s string) {}
func (d *tmDiag) StoppedTaskWithError(id string, err error) {
	d.r.mu.Lock()
	d.r.stopped[id] = fmt.Sprint(err)
	d.r.mu.Unlock()
}

type taskDiag struct {
	r    *Recorder
	task string
}

func (d *taskDiag) WithNodeContext(node string) kapacitor.NodeDiagnostic {
	return &nodeDiag{r: d.r, task: d.task, node: node}
}
func (d *taskDiag) Error(msg string, err error, ctx ...keyvalue.T) {
	d.r.addErr(d.task, "", msg, err)
}

type nodeDiag struct {
	r          *Recorder
	task, node string
}

func (d *nodeDiag) Error(msg string, err error, ctx ...keyvalue.T) {
	d.r.addErr(d.task, d.node, msg, err)
}
func (d *nodeDiag) AlertTriggered(level alert.Level, id string, message string, rows *models.Row) {}
func (d *nodeDiag) SettingReplicas(new int, old int, id string)                                   {}
func (d *nodeDiag) StartingBatchQuery(q string)                                                   {}
func (d *nodeDiag) UDFLog(s string)                                                               {}
func (d *nodeDiag) LogPointData(key, prefix string, data edge.PointMessage) {
	if strings.HasPrefix(prefix, "!") { // pass-through marker: ignore
		return
	}
	it := Item{P: PlainPoint(data)}
	if d.r.KeepLive {
		it.liveP = data
	}
	d.r.Sink(prefix).pass(it)
}
func (d *nodeDiag) LogBatchData(key, prefix string, data edge.BufferedBatchMessage) {
	if strings.HasPrefix(prefix, "!") {
		return
	}
	it := Item{B: PlainBatch(data)}
	if d.r.KeepLive {
		it.liveB = data
	}
	d.r.Sink(prefix).pass(it)
}

type edgeDiag struct{}

func (edgeDiag) ClosingEdge(collected, emitted int64) {}

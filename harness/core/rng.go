package core

import "math"

// Rng is splitmix64: tiny, deterministic, seedable from (seed, stream) pairs.
type Rng struct{ s uint64 }

func NewRng(seed uint64, stream ...uint64) *Rng {
	r := &Rng{s: seed*0x9E3779B97F4A7C15 + 0x1234567}
	for _, x := range stream {
		r.s ^= x + 0x9E3779B97F4A7C15 + (r.s << 6) + (r.s >> 2)
		r.Uint64()
	}
	return r
}

func (r *Rng) Uint64() uint64 {
	r.s += 0x9E3779B97F4A7C15
	z := r.s
	z = (z ^ (z >> 30)) * 0xBF58476D1CE4E5B9
	z = (z ^ (z >> 27)) * 0x94D049BB133111EB
	return z ^ (z >> 31)
}

// Intn returns a value in [0,n). n<=0 returns 0.
func (r *Rng) Intn(n int) int {
	if n <= 0 {
		return 0
	}
	return int(r.Uint64() % uint64(n))
}
func (r *Rng) Range(lo, hi int) int { return lo + r.Intn(hi-lo+1) } // inclusive
func (r *Rng) Bool() bool           { return r.Uint64()&1 == 1 }
func (r *Rng) Chance(p float64) bool {
	return float64(r.Uint64()>>11)/float64(1<<53) < p
}
func (r *Rng) Float() float64 { return float64(r.Uint64()>>11) / float64(1<<53) }
func (r *Rng) NormFloat() float64 {
	u1, u2 := r.Float(), r.Float()
	if u1 < 1e-300 {
		u1 = 1e-300
	}
	return math.Sqrt(-2*math.Log(u1)) * math.Cos(2*math.Pi*u2)
}
func (r *Rng) Pick(l []string) string { return l[r.Intn(len(l))] }
func (r *Rng) Perm(n int) []int {
	p := make([]int, n)
	for i := range p {
		p[i] = i
	}
	for i := n - 1; i > 0; i-- {
		j := r.Intn(i + 1)
		p[i], p[j] = p[j], p[i]
	}
	return p
}

// HashStr is FNV-1a 64.
func HashStr(s string) uint64 {
	h := uint64(14695981039346656037)
	for i := 0; i < len(s); i++ {
		h ^= uint64(s[i])
		h *= 1099511628211
	}
	return h
}

package core

import (
	"encoding/json"
	"fmt"
	"os"
	"runtime/debug"
	"time"
)

// Work is the worker entry point: vh worker <prop> <batch.json> <out.jsonl> <scratch>
func Work(id, batchFile, outFile, scratch string) int {
	p := Lookup(id)
	if p == nil {
		fmt.Fprintf(os.Stderr, "unknown property %q\n", id)
		return 2
	}
	b, err := os.ReadFile(batchFile)
	if err != nil {
		fmt.Fprintln(os.Stderr, err)
		return 2
	}
	var cases []Case
	if err := json.Unmarshal(b, &cases); err != nil {
		fmt.Fprintln(os.Stderr, err)
		return 2
	}
	out, err := os.OpenFile(outFile, os.O_CREATE|os.O_WRONLY|os.O_APPEND, 0o644)
	if err != nil {
		fmt.Fprintln(os.Stderr, err)
		return 2
	}
	defer out.Close()
	// a worker must not outlive its driver (an interrupted run would otherwise leave spinning orphans)
	ppid := os.Getppid()
	go func() {
		for {
			time.Sleep(2 * time.Second)
			if os.Getppid() != ppid {
				os.Exit(4)
			}
		}
	}()
	for _, c := range cases {
		fmt.Fprintf(out, "START %s\n", c.ID)
		x := NewCtx(c, out, scratch)
		runOne(p, x)
		r := x.Finish()
		rb, err := json.Marshal(r)
		if err != nil {
			// samples that do not marshal must not lose the verdict
			r.Samples = nil
			rb, _ = json.Marshal(r)
		}
		out.Write(append(append([]byte("RESULT "), rb...), '\n'))
	}
	return 0
}

// runOne executes a case. A panic that unwinds into the harness goroutine is a harness-side
// observation, not necessarily a property violation: properties that care (C05) recover
// around the call under test themselves. Here it is re-raised so the process dies with the
// stack in its log and the driver attributes the death to the announced sub-case.
func runOne(p Property, x *Ctx) {
	defer func() {
		if r := recover(); r != nil {
			fmt.Fprintf(os.Stderr, "panic: %v [in harness goroutine]\n\n%s\n", r, debug.Stack())
			os.Exit(3)
		}
	}()
	p.Run(x)
}

// Package core is the property-independent part of the monitoring harness: case lists,
// the worker journal, verdicts, evidence and known-finding bookkeeping.
package core

import (
	"encoding/json"
	"fmt"
	"hash/fnv"
	"os"
	"sort"
	"sync"
)

// Case is one unit of work handed to a worker process. Everything a worker does is a
// deterministic function of the case (plus the code under test), so a case file is a replay.
type Case struct {
	ID     string                 `json:"id"`
	Kind   string                 `json:"kind"`
	Seed   uint64                 `json:"seed"`
	N      int                    `json:"n,omitempty"`
	Params map[string]interface{} `json:"params,omitempty"`
	Race   bool                   `json:"race,omitempty"`
	// Skip lists sub-case names that killed an earlier worker on this case; they are not
	// executed again (the death itself has already been recorded as a violation).
	Skip []string `json:"skip,omitempty"`
}

func (c Case) PInt(k string, def int) int {
	if v, ok := c.Params[k]; ok {
		switch x := v.(type) {
		case float64:
			return int(x)
		case int:
			return x
		case int64:
			return int(x)
		}
	}
	return def
}
func (c Case) PStr(k, def string) string {
	if v, ok := c.Params[k]; ok {
		if s, ok := v.(string); ok {
			return s
		}
	}
	return def
}
func (c Case) PBool(k string) bool {
	if v, ok := c.Params[k]; ok {
		if b, ok := v.(bool); ok {
			return b
		}
	}
	return false
}

// Violation is one refutation of the property, found by an oracle.
type Violation struct {
	// Kind names the oracle / clause that was refuted, e.g. "window-content".
	Kind string `json:"kind"`
	// Key is a canonical one-line description used to match known findings (narrow by
	// construction) and to de-duplicate.
	Key string `json:"key"`
	// Detail is the human-readable diff.
	Detail string `json:"detail,omitempty"`
	// Sub names the sub-case (input) inside the case.
	Sub string `json:"sub,omitempty"`
}

// Result is what a worker reports for one case.
type Result struct {
	CaseID       string              `json:"case"`
	Inconclusive []string            `json:"inconclusive,omitempty"`
	Violations   []Violation         `json:"violations,omitempty"`
	Counts       map[string]int64    `json:"counts,omitempty"`
	Sets         map[string][]string `json:"sets,omitempty"`
	Nontrivial   []uint64            `json:"nontrivial,omitempty"`
	Samples      []interface{}       `json:"samples,omitempty"`
}

// Ctx is given to Property.Run; it collects observations for one case and journals
// sub-cases before they execute.
type Ctx struct {
	Case        Case
	mu          sync.Mutex
	res         Result
	sets        map[string]map[string]struct{}
	nt          map[uint64]struct{}
	journal     *os.File
	skip        map[string]bool
	perKind     map[string]int
	autoSampled bool
	Scratch     string // per-worker scratch directory (removed by the driver)
}

func NewCtx(c Case, journal *os.File, scratch string) *Ctx {
	x := &Ctx{Case: c, journal: journal, Scratch: scratch}
	x.res.CaseID = c.ID
	x.res.Counts = map[string]int64{}
	x.sets = map[string]map[string]struct{}{}
	x.nt = map[uint64]struct{}{}
	x.skip = map[string]bool{}
	for _, s := range c.Skip {
		x.skip[s] = true
	}
	return x
}

// Announce journals a sub-case before it is executed. It returns false if the sub-case is
// on the skip list (it killed an earlier worker).
func (x *Ctx) Announce(sub string) bool {
	if x.skip[sub] {
		return false
	}
	if x.journal != nil {
		b, _ := json.Marshal(sub)
		x.mu.Lock()
		x.journal.Write(append(append([]byte("SUB "), b...), '\n'))
		x.mu.Unlock()
	}
	return true
}

func (x *Ctx) Count(k string, n int64) {
	x.mu.Lock()
	x.res.Counts[k] += n
	x.mu.Unlock()
}

// MaxCount keeps the maximum under key k.
func (x *Ctx) MaxCount(k string, n int64) {
	x.mu.Lock()
	if n > x.res.Counts[k] {
		x.res.Counts[k] = n
	}
	x.mu.Unlock()
}

const setCap = 4000

func (x *Ctx) SetAdd(k, v string) {
	x.mu.Lock()
	m := x.sets[k]
	if m == nil {
		m = map[string]struct{}{}
		x.sets[k] = m
	}
	if len(m) < setCap {
		m[v] = struct{}{}
	}
	x.mu.Unlock()
}

// Nontrivial records one distinct non-trivial sub-case by canonical content.
func (x *Ctx) Nontrivial(canon string) {
	h := fnv.New64a()
	h.Write([]byte(canon))
	x.mu.Lock()
	x.nt[h.Sum64()] = struct{}{}
	// the first non-trivial evaluation of a case doubles as a sample of what was explored,
	// unless the property supplies richer samples itself
	if len(x.res.Samples) == 0 && !x.autoSampled {
		x.autoSampled = true
		c := canon
		if len(c) > 400 {
			c = c[:400] + "..."
		}
		x.res.Samples = append(x.res.Samples, map[string]interface{}{"case": x.Case.ID, "kind": x.Case.Kind, "nontrivial_evaluation": c})
	}
	x.mu.Unlock()
}

func (x *Ctx) Violate(kind, key, sub, detail string) {
	x.mu.Lock()
	defer x.mu.Unlock()
	if x.perKind == nil {
		x.perKind = map[string]int{}
	}
	x.perKind[kind]++
	if x.perKind[kind] > 60 || len(x.res.Violations) >= 600 {
		// the cap is per oracle kind so that a noisy (e.g. known) kind cannot hide another one
		x.res.Counts["violations_dropped_over_cap"]++
		return
	}
	if len(detail) > 4000 {
		detail = detail[:4000] + "…"
	}
	x.res.Violations = append(x.res.Violations, Violation{Kind: kind, Key: key, Sub: sub, Detail: detail})
}

func (x *Ctx) Violatef(kind, key, sub, format string, a ...interface{}) {
	x.Violate(kind, key, sub, fmt.Sprintf(format, a...))
}

func (x *Ctx) Inconclusive(why string) {
	x.mu.Lock()
	if len(x.res.Inconclusive) < 50 {
		x.res.Inconclusive = append(x.res.Inconclusive, why)
	}
	x.mu.Unlock()
}

func (x *Ctx) Sample(v interface{}) {
	x.mu.Lock()
	if x.autoSampled {
		x.res.Samples, x.autoSampled = nil, false
	}
	if len(x.res.Samples) < 2 {
		x.res.Samples = append(x.res.Samples, v)
	}
	x.mu.Unlock()
}

func (x *Ctx) NumViolations() int {
	x.mu.Lock()
	defer x.mu.Unlock()
	return len(x.res.Violations)
}

func (x *Ctx) Finish() Result {
	x.mu.Lock()
	defer x.mu.Unlock()
	x.res.Sets = map[string][]string{}
	for k, m := range x.sets {
		l := make([]string, 0, len(m))
		for v := range m {
			l = append(l, v)
		}
		sort.Strings(l)
		x.res.Sets[k] = l
	}
	x.res.Nontrivial = x.res.Nontrivial[:0]
	for h := range x.nt {
		x.res.Nontrivial = append(x.res.Nontrivial, h)
	}
	sort.Slice(x.res.Nontrivial, func(i, j int) bool { return x.res.Nontrivial[i] < x.res.Nontrivial[j] })
	return x.res
}

// Property is implemented once per property id.
type Property interface {
	ID() string
	// Level is the MANIFEST level category of the evidence.
	Level() string
	// Rule describes how cases are generated and what makes one non-trivial.
	Rule() string
	// Cases derives the case list from (tier, seed) only - fixed counts, never a time budget.
	Cases(tier string, seed uint64) []Case
	// Run executes one case against the real code and judges it.
	Run(x *Ctx)
}

// Optional interfaces.

// RaceAnchors: files whose appearance at the top of BOTH stacks of a race report attributes
// the report to this property.
type RaceAnchors interface{ RaceAnchorFiles() []string }

// Floors: minimum number of distinct non-trivial cases a run must observe, else it is broken.
type Floors interface{ MinNontrivial(tier string) int }

// Timeouts: per-case wall-clock watchdog in seconds (default 120).
type Timeouts interface{ CaseTimeoutSec(tier string) int }

// Parallelism: number of concurrent workers (default 16).
type Parallelism interface{ Workers(tier string) int }

// Assumptions listed in the evidence.
type Assumer interface{ Assumptions() []string }

// DeathClassifier lets a property decide how the death of a worker on a sub-case is
// keyed (default: violation kind "process-death").
type Exhaustive interface {
	ExhaustiveNote(tier string) (bool, string)
}

var registry = map[string]Property{}

func Register(p Property)       { registry[p.ID()] = p }
func Lookup(id string) Property { return registry[id] }
func IDs() []string {
	var l []string
	for k := range registry {
		l = append(l, k)
	}
	sort.Strings(l)
	return l
}

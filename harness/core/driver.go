package core

import (
	"bufio"
	"bytes"
	"context"
	"encoding/json"
	"fmt"
	"os"
	"os/exec"
	"path/filepath"
	"regexp"
	"sort"
	"strconv"
	"strings"
	"sync"
	"syscall"
	"time"
)

type batch struct {
	cases []Case
	race  bool
	n     int
}

type KnownFinding struct {
	Property string `json:"property"`
	ID       string `json:"id"`
	Status   string `json:"status"` // "known" | "fixed"
	Kind     string `json:"kind"`
	KeyRegex string `json:"key_regex"`
	What     string `json:"what"`
	Commit   string `json:"commit,omitempty"`
	re       *regexp.Regexp
}

func loadKnown(root, prop string) ([]*KnownFinding, error) {
	b, err := os.ReadFile(filepath.Join(root, "known_findings.json"))
	if err != nil {
		if os.IsNotExist(err) {
			return nil, nil
		}
		return nil, err
	}
	var all []*KnownFinding
	if err := json.Unmarshal(b, &all); err != nil {
		return nil, fmt.Errorf("known_findings.json: %v", err)
	}
	var out []*KnownFinding
	for _, k := range all {
		if k.Property != prop || k.Status != "known" {
			continue
		}
		re, err := regexp.Compile(k.KeyRegex)
		if err != nil {
			return nil, fmt.Errorf("known_findings.json %s: %v", k.ID, err)
		}
		k.re = re
		out = append(out, k)
	}
	return out, nil
}

type foundViolation struct {
	Violation
	Case Case
}

// Drive runs property id at the given tier and returns the process exit code.
func Drive(id, tier string, seed uint64, replayFile string) int {
	t0 := time.Now()
	p := Lookup(id)
	if p == nil {
		fmt.Fprintf(os.Stderr, "unknown property %q (have %v)\n", id, IDs())
		return 2
	}
	root := os.Getenv("VERIF_ROOT")
	if root == "" {
		root = "/verif"
	}
	bindir := os.Getenv("VERIF_BINDIR")
	if bindir == "" {
		exe, _ := os.Executable()
		bindir = filepath.Dir(exe)
	}
	known, err := loadKnown(root, id)
	if err != nil {
		fmt.Fprintln(os.Stderr, err)
		return 2
	}
	var cases []Case
	if replayFile != "" {
		b, err := os.ReadFile(replayFile)
		if err != nil {
			fmt.Fprintln(os.Stderr, err)
			return 2
		}
		var rp struct {
			Case Case `json:"case"`
		}
		if err := json.Unmarshal(b, &rp); err != nil {
			fmt.Fprintln(os.Stderr, err)
			return 2
		}
		rp.Case.Skip = nil
		cases = []Case{rp.Case}
	} else {
		cases = p.Cases(tier, seed)
	}
	if len(cases) == 0 {
		fmt.Fprintln(os.Stderr, "no cases generated")
		return 2
	}
	if replayFile == "" {
		// replays of an earlier run of this property are stale now
		rd := filepath.Join(root, "replays")
		if d := os.Getenv("VERIF_OUT_DIR"); d != "" {
			rd = filepath.Join(d, "replays")
		}
		old, _ := filepath.Glob(filepath.Join(rd, id+"-*.json"))
		for _, f := range old {
			os.Remove(f)
		}
	}
	workers := 16
	if w, ok := p.(Parallelism); ok {
		workers = w.Workers(tier)
	}
	if s := os.Getenv("VERIF_WORKERS"); s != "" {
		if n, err := strconv.Atoi(s); err == nil && n > 0 {
			workers = n
		}
	}
	caseTimeout := 120
	if t, ok := p.(Timeouts); ok {
		caseTimeout = t.CaseTimeoutSec(tier)
	}
	scratchRoot, err := os.MkdirTemp("", "verif."+id+".")
	if err != nil {
		fmt.Fprintln(os.Stderr, err)
		return 2
	}
	defer os.RemoveAll(scratchRoot)

	// batches
	var plain, race []Case
	for _, c := range cases {
		if c.Race {
			race = append(race, c)
		} else {
			plain = append(plain, c)
		}
	}
	var queue []*batch
	mk := func(l []Case, isRace bool) {
		if len(l) == 0 {
			return
		}
		bs := len(l) / (workers * 3)
		if bs < 1 {
			bs = 1
		}
		if bs > 50 {
			bs = 50
		}
		for i := 0; i < len(l); i += bs {
			j := i + bs
			if j > len(l) {
				j = len(l)
			}
			queue = append(queue, &batch{cases: l[i:j], race: isRace})
		}
	}
	mk(race, true) // race batches first: they are the slow ones
	mk(plain, false)

	var (
		mu           sync.Mutex
		results      []Result
		violations   []foundViolation
		inconclusive int
		deaths       int
		raceReports  []RaceReport
		batchNo      int
	)
	caseByID := map[string]Case{}
	for _, c := range cases {
		caseByID[c.ID] = c
	}
	sem := make(chan struct{}, workers)
	var wg sync.WaitGroup
	var run func(b *batch)
	run = func(b *batch) {
		defer wg.Done()
		sem <- struct{}{}
		mu.Lock()
		batchNo++
		b.n = batchNo
		mu.Unlock()
		dir := filepath.Join(scratchRoot, fmt.Sprintf("b%d", b.n))
		os.MkdirAll(dir, 0o755)
		bf := filepath.Join(dir, "batch.json")
		of := filepath.Join(dir, "out.jsonl")
		lf := filepath.Join(dir, "log.txt")
		bb, _ := json.Marshal(b.cases)
		os.WriteFile(bf, bb, 0o644)
		bin := filepath.Join(bindir, "vh")
		if b.race {
			bin = filepath.Join(bindir, "vh-race")
		}
		ctx, cancel := context.WithCancel(context.Background())
		cmd := exec.CommandContext(ctx, bin, "worker", id, bf, of, dir)
		logf, _ := os.Create(lf)
		cmd.Stdout = logf
		cmd.Stderr = logf
		cmd.Env = append(os.Environ(), "GOTRACEBACK=all", "VERIF_TIER="+tier)
		if b.race {
			cmd.Env = append(cmd.Env, "GORACE=halt_on_error=0 history_size=3 log_path="+filepath.Join(dir, "race"))
		}
		cmd.SysProcAttr = &syscall.SysProcAttr{Setpgid: true}
		var timedOutA atomicBool
		if err := cmd.Start(); err != nil {
			fmt.Fprintln(os.Stderr, "cannot start worker:", err)
			cancel()
			<-sem
			return
		}
		done := make(chan struct{})
		// watchdog: no journal progress (START/SUB/RESULT line) for caseTimeout seconds
		go func() {
			lastSize, lastChange := int64(-1), time.Now()
			tick := time.NewTicker(500 * time.Millisecond)
			defer tick.Stop()
			for {
				select {
				case <-done:
					return
				case <-tick.C:
				}
				var sz int64
				if st, err := os.Stat(of); err == nil {
					sz = st.Size()
				}
				if sz != lastSize {
					lastSize, lastChange = sz, time.Now()
					continue
				}
				if time.Since(lastChange) > time.Duration(caseTimeout)*time.Second {
					timedOutA.Set()
					cmd.Process.Signal(syscall.SIGQUIT) // goroutine dump into the log
					select {
					case <-done:
					case <-time.After(20 * time.Second):
						syscall.Kill(-cmd.Process.Pid, syscall.SIGKILL)
					}
					return
				}
			}
		}()
		werr := cmd.Wait()
		close(done)
		cancel()
		logf.Close()
		<-sem

		// collect
		timedOut := timedOutA.Get()
		started, finished, lastSub := parseOut(of)
		var rs []Result
		for _, r := range finished {
			rs = append(rs, r)
		}
		var requeue []Case
		var dead *foundViolation
		var deadInconclusive bool
		if werr != nil || len(finished) < len(b.cases) {
			// who was running?
			var dying string
			for _, s := range started {
				if _, ok := finished[s]; !ok {
					dying = s
				}
			}
			logTail := tailFile(lf, 400)
			if dying != "" {
				dc := caseOf(b.cases, dying)
				sub := lastSub[dying]
				if timedOut {
					var v *Violation
					if hc, ok := p.(HangClassifier); ok {
						v = hc.ClassifyHang(dc, sub, logTail)
					}
					if v != nil {
						dead = &foundViolation{Violation: *v, Case: dc}
					} else {
						deadInconclusive = true
					}
				} else {
					key, detail := deathKey(logTail)
					dead = &foundViolation{Violation: Violation{Kind: "process-death", Key: key, Sub: sub, Detail: detail}, Case: dc}
				}
				if sub != "" && len(dc.Skip) < 60 {
					dc.Skip = append(append([]string{}, dc.Skip...), sub)
					requeue = append(requeue, dc)
				}
			} else if werr != nil && len(started) == 0 {
				fmt.Fprintf(os.Stderr, "worker failed before any case: %v\n%s\n", werr, tailFile(lf, 40))
			}
			seen := map[string]bool{}
			for _, s := range started {
				seen[s] = true
			}
			for _, c := range b.cases {
				if !seen[c.ID] {
					requeue = append(requeue, c)
				}
			}
		}
		var rr []RaceReport
		if b.race {
			rr = parseRaceLogs(dir)
		}
		mu.Lock()
		results = append(results, rs...)
		if dead != nil {
			violations = append(violations, *dead)
			deaths++
		}
		if deadInconclusive {
			inconclusive++
		}
		raceReports = append(raceReports, rr...)
		mu.Unlock()
		if os.Getenv("VERIF_KEEP_LOGS") != "" {
			keep := filepath.Join(root, ".build", "logs", id)
			os.MkdirAll(keep, 0o755)
			copyFile(lf, filepath.Join(keep, fmt.Sprintf("b%d.log", b.n)))
		}
		os.RemoveAll(dir)
		if len(requeue) > 0 {
			wg.Add(1)
			go run(&batch{cases: requeue, race: b.race})
		}
	}
	for _, b := range queue {
		wg.Add(1)
		go run(b)
	}
	wg.Wait()

	// aggregate
	counts := map[string]int64{}
	maxKeys := map[string]bool{}
	sets := map[string]map[string]struct{}{}
	nt := map[uint64]struct{}{}
	var samples []interface{}
	conclusive := 0
	var inconclusiveWhy []string
	seenWhy := map[string]bool{}
	sort.Slice(results, func(i, j int) bool { return results[i].CaseID < results[j].CaseID })
	for _, r := range results {
		if len(r.Inconclusive) > 0 {
			inconclusive++
			for _, why := range r.Inconclusive {
				w := r.CaseID + ": " + why
				if len(inconclusiveWhy) < 12 && !seenWhy[w] {
					seenWhy[w] = true
					inconclusiveWhy = append(inconclusiveWhy, w)
				}
			}
		} else {
			conclusive++
		}
		for k, v := range r.Counts {
			if strings.HasPrefix(k, "max_") {
				maxKeys[k] = true
				if v > counts[k] {
					counts[k] = v
				}
			} else {
				counts[k] += v
			}
		}
		for k, l := range r.Sets {
			m := sets[k]
			if m == nil {
				m = map[string]struct{}{}
				sets[k] = m
			}
			for _, v := range l {
				m[v] = struct{}{}
			}
		}
		for _, h := range r.Nontrivial {
			nt[h] = struct{}{}
		}
		if len(samples) < 4 {
			for _, s := range r.Samples {
				if len(samples) < 4 {
					samples = append(samples, s)
				}
			}
		}
		for _, v := range r.Violations {
			violations = append(violations, foundViolation{Violation: v, Case: caseByID[r.CaseID]})
		}
	}
	// attributed race reports are violations
	var anchors []string
	if ra, ok := p.(RaceAnchors); ok {
		anchors = ra.RaceAnchorFiles()
	}
	attributed, unattributed := 0, 0
	seenRace := map[string]bool{}
	var unattribKeys []string
	var unattribSamples []string
	for _, r := range raceReports {
		if seenRace[r.Key] {
			continue
		}
		seenRace[r.Key] = true
		if r.attributedTo(anchors) {
			attributed++
			violations = append(violations, foundViolation{Violation: Violation{Kind: "data-race", Key: r.Key, Detail: r.Text}})
		} else {
			unattributed++
			if len(unattribKeys) < 20 {
				unattribKeys = append(unattribKeys, r.Key)
			}
			if len(unattribSamples) < 3 {
				t := r.Text
				if len(t) > 2500 {
					t = t[:2500]
				}
				unattribSamples = append(unattribSamples, t)
			}
		}
	}

	// known findings
	type vgroup struct {
		v     foundViolation
		count int
	}
	groups := map[string]*vgroup{}
	var order []string
	knownHit := map[string]int{}
	for _, v := range violations {
		matched := false
		for _, k := range known {
			if k.Kind == v.Kind && k.re.MatchString(v.Key) {
				knownHit[k.ID]++
				matched = true
				break
			}
		}
		if matched {
			continue
		}
		gk := v.Kind + "|" + v.Key
		if g, ok := groups[gk]; ok {
			g.count++
		} else {
			groups[gk] = &vgroup{v: v, count: 1}
			order = append(order, gk)
		}
	}
	for _, k := range known {
		if n := knownHit[k.ID]; n > 0 {
			fmt.Printf("KNOWN-FINDING: property=%s %s [%s, %d occurrence(s) this run]\n", id, k.What, k.ID, n)
		}
	}
	replayDir := filepath.Join(root, "replays")
	evidenceDir := filepath.Join(root, "evidence")
	if d := os.Getenv("VERIF_OUT_DIR"); d != "" {
		// runs against a scratch copy of the repository (mutants) must not overwrite the
		// evidence and replays of the real tree
		replayDir, evidenceDir = filepath.Join(d, "replays"), filepath.Join(d, "evidence")
	}
	os.MkdirAll(replayDir, 0o755)
	sort.Strings(order)
	{
		// interleave the kinds so that the (capped) list of replays shows every kind
		byKind := map[string][]string{}
		var kinds []string
		for _, gk := range order {
			k := groups[gk].v.Kind
			if _, ok := byKind[k]; !ok {
				kinds = append(kinds, k)
			}
			byKind[k] = append(byKind[k], gk)
		}
		var inter []string
		for i := 0; len(inter) < len(order); i++ {
			for _, k := range kinds {
				if i < len(byKind[k]) {
					inter = append(inter, byKind[k][i])
				}
			}
		}
		order = inter
	}
	nviol := 0
	for i, gk := range order {
		g := groups[gk]
		nviol++
		if i >= 40 {
			continue
		}
		rp := filepath.Join(replayDir, fmt.Sprintf("%s-%s-%d.json", id, sanitize(g.v.Case.ID), i))
		doc := map[string]interface{}{"property": id, "tier": tier, "seed": seed, "case": g.v.Case, "violation": g.v.Violation, "occurrences": g.count}
		b, _ := json.MarshalIndent(doc, "", " ")
		os.WriteFile(rp, b, 0o644)
		fmt.Printf("VIOLATION property=%s replay=%s\n", id, rp)
		fmt.Printf("  kind=%s key=%s sub=%s (x%d)\n", g.v.Kind, g.v.Key, g.v.Sub, g.count)
		if replayFile != "" || os.Getenv("VERIF_VERBOSE") != "" {
			fmt.Printf("  detail: %s\n", g.v.Detail)
		}
	}

	if nviol > 0 {
		byKind := map[string]int{}
		for _, gk := range order {
			byKind[groups[gk].v.Kind]++
		}
		var ks []string
		for k, n := range byKind {
			ks = append(ks, fmt.Sprintf("%s=%d", k, n))
		}
		sort.Strings(ks)
		fmt.Printf("violation groups by kind: %s\n", strings.Join(ks, " "))
	}
	// evidence
	cov := map[string]interface{}{}
	for k, v := range counts {
		cov[k] = v
	}
	for k, m := range sets {
		cov["distinct_"+k] = len(m)
		if len(m) <= 40 {
			l := make([]string, 0, len(m))
			for v := range m {
				l = append(l, v)
			}
			sort.Strings(l)
			cov["seen_"+k] = l
		}
	}
	cov["evaluations"] = len(results)
	if n, ok := counts["evaluations"]; ok && n > 0 {
		cov["evaluations"] = n
		cov["cases_run"] = len(results)
	}
	cov["distinct_nontrivial"] = len(nt)
	cov["rule"] = p.Rule()
	if samples == nil {
		samples = []interface{}{}
	}
	cov["samples"] = samples
	cov["cases_conclusive"] = conclusive
	cov["cases_inconclusive"] = inconclusive
	if len(inconclusiveWhy) > 0 {
		cov["inconclusive_reasons"] = inconclusiveWhy
		for _, w := range inconclusiveWhy {
			fmt.Printf("inconclusive: %s\n", w)
		}
	}
	cov["worker_deaths"] = deaths
	cov["known_findings_reproduced"] = knownHit
	if len(race) > 0 {
		cov["race_cases"] = len(race)
		cov["race_reports_attributed"] = attributed
		cov["race_reports_unattributed"] = unattributed
		cov["unattributed_race_reports"] = unattribKeys
		cov["unattributed_race_report_samples"] = unattribSamples
	}
	if e, ok := p.(Exhaustive); ok {
		ex, note := e.ExhaustiveNote(tier)
		cov["exhaustive"] = ex
		cov["exhaustive_note"] = note
	}
	ev := map[string]interface{}{
		"property_id": id, "tier": tier, "seed": seed, "level": p.Level(),
		"coverage": cov, "wall_s": time.Since(t0).Seconds(), "violations": nviol,
		"verdict": verdictWord(nviol, conclusive),
	}
	if a, ok := p.(Assumer); ok {
		ev["assumptions"] = a.Assumptions()
	}
	if replayFile == "" {
		os.MkdirAll(evidenceDir, 0o755)
		b, _ := json.MarshalIndent(ev, "", " ")
		os.WriteFile(filepath.Join(evidenceDir, id+".json"), append(b, '\n'), 0o644)
	}
	fmt.Printf("%s %s seed=%d: cases=%d conclusive=%d inconclusive=%d evaluations=%v distinct_nontrivial=%d violations=%d known=%d wall=%.1fs\n",
		id, tier, seed, len(cases), conclusive, inconclusive, cov["evaluations"], len(nt), nviol, len(knownHit), time.Since(t0).Seconds())
	if nviol > 0 {
		return 1
	}
	if conclusive == 0 {
		fmt.Println("BROKEN: no conclusive observation in this run")
		return 2
	}
	if replayFile == "" {
		if f, ok := p.(Floors); ok {
			if min := f.MinNontrivial(tier); len(nt) < min {
				fmt.Printf("BROKEN: only %d distinct non-trivial cases observed, floor is %d\n", len(nt), min)
				return 2
			}
		}
		if len(nt) < 2 {
			fmt.Println("BROKEN: fewer than 2 distinct non-trivial cases observed")
			return 2
		}
	}
	return 0
}

// HangClassifier may turn a watchdog expiry into a violation when the goroutine dump proves
// the liveness clause of the property; otherwise a hang is inconclusive.
type HangClassifier interface {
	ClassifyHang(c Case, sub string, dump string) *Violation
}

func verdictWord(nviol, conclusive int) string {
	if nviol > 0 {
		return "violated"
	}
	if conclusive == 0 {
		return "inconclusive"
	}
	return "held on what was observed"
}

func sanitize(s string) string {
	var b strings.Builder
	for _, r := range s {
		if r >= 'a' && r <= 'z' || r >= 'A' && r <= 'Z' || r >= '0' && r <= '9' || r == '-' || r == '_' {
			b.WriteRune(r)
		} else {
			b.WriteByte('_')
		}
	}
	if b.Len() > 60 {
		return b.String()[:60]
	}
	return b.String()
}

func caseOf(l []Case, id string) Case {
	for _, c := range l {
		if c.ID == id {
			return c
		}
	}
	return Case{ID: id}
}

func parseOut(path string) (started []string, finished map[string]Result, lastSub map[string]string) {
	finished = map[string]Result{}
	lastSub = map[string]string{}
	f, err := os.Open(path)
	if err != nil {
		return
	}
	defer f.Close()
	rd := bufio.NewReaderSize(f, 1<<20)
	cur := ""
	for {
		line, err := rd.ReadBytes('\n')
		if len(line) > 0 && line[len(line)-1] == '\n' {
			line = line[:len(line)-1]
			switch {
			case bytes.HasPrefix(line, []byte("START ")):
				cur = string(line[6:])
				started = append(started, cur)
			case bytes.HasPrefix(line, []byte("SUB ")):
				var s string
				if json.Unmarshal(line[4:], &s) == nil {
					lastSub[cur] = s
				}
			case bytes.HasPrefix(line, []byte("RESULT ")):
				var r Result
				if json.Unmarshal(line[7:], &r) == nil {
					finished[r.CaseID] = r
				}
			}
		}
		if err != nil {
			break
		}
	}
	return
}

func tailFile(path string, lines int) string {
	b, err := os.ReadFile(path)
	if err != nil {
		return ""
	}
	if len(b) > 1<<20 {
		// keep head (panic message is first) and tail
		b = append(append([]byte{}, b[:1<<19]...), b[len(b)-(1<<19):]...)
	}
	l := strings.Split(string(b), "\n")
	if len(l) > lines {
		l = l[:lines]
	}
	return strings.Join(l, "\n")
}

func copyFile(a, b string) {
	d, err := os.ReadFile(a)
	if err == nil {
		os.WriteFile(b, d, 0o644)
	}
}

var reFrame = regexp.MustCompile(`^(github\.com/influxdata/kapacitor[^\s(]*)\(`)

// deathKey extracts "<panic/fatal line> @ <first kapacitor frame>" from a crash log.
func deathKey(log string) (key, detail string) {
	lines := strings.Split(log, "\n")
	msg := ""
	start := -1
	for i, l := range lines {
		if strings.HasPrefix(l, "panic: ") || strings.HasPrefix(l, "fatal error: ") {
			msg = l
			start = i
			break
		}
	}
	if start < 0 {
		// exit without panic (os.Exit, signal)
		n := len(lines)
		if n > 15 {
			lines = lines[n-15:]
		}
		return "worker exited abnormally without a panic message", strings.Join(lines, "\n")
	}
	frame := ""
	for _, l := range lines[start:] {
		l = strings.TrimSpace(l)
		if m := reFrame.FindStringSubmatch(l); m != nil {
			frame = m[1]
			break
		}
	}
	// strip addresses from the message
	msg = regexp.MustCompile(`0x[0-9a-f]+`).ReplaceAllString(msg, "0x?")
	msg = regexp.MustCompile(`\[recovered\].*`).ReplaceAllString(msg, "")
	if len(msg) > 160 {
		msg = msg[:160]
	}
	end := start + 60
	if end > len(lines) {
		end = len(lines)
	}
	return strings.TrimSpace(msg) + " @ " + frame, strings.Join(lines[start:end], "\n")
}

// ---- race reports ---------------------------------------------------------------------------

type RaceReport struct {
	Key   string
	Files [2]string // top kapacitor file of each accessing stack (relative), "" if none
	Text  string
}

func (r RaceReport) attributedTo(anchors []string) bool {
	if len(anchors) == 0 {
		return false
	}
	in := func(f string) bool {
		for _, a := range anchors {
			if f == a {
				return true
			}
		}
		return false
	}
	return r.Files[0] != "" && r.Files[1] != "" && in(r.Files[0]) && in(r.Files[1])
}

func parseRaceLogs(dir string) []RaceReport {
	var out []RaceReport
	files, _ := filepath.Glob(filepath.Join(dir, "race.*"))
	repo := os.Getenv("VERIF_REPO")
	if repo == "" {
		repo = "/repo"
	}
	for _, f := range files {
		b, err := os.ReadFile(f)
		if err != nil {
			continue
		}
		for _, blk := range strings.Split(string(b), "==================") {
			if !strings.Contains(blk, "WARNING: DATA RACE") {
				continue
			}
			out = append(out, parseRaceBlock(blk, repo))
		}
	}
	return out
}

var reFileLine = regexp.MustCompile(`^\s+(\S+\.go):(\d+)`)

func parseRaceBlock(blk, repo string) RaceReport {
	lines := strings.Split(blk, "\n")
	var r RaceReport
	sec := -1
	var funcs [2]string
	lastFunc := ""
	for _, l := range lines {
		t := strings.TrimSpace(l)
		if strings.Contains(t, " by goroutine ") || strings.Contains(t, " by main goroutine") {
			if strings.HasPrefix(t, "Goroutine") {
				sec = 99
			} else {
				sec++
			}
			continue
		}
		if strings.HasPrefix(t, "Goroutine ") {
			sec = 99
			continue
		}
		if sec < 0 || sec > 1 {
			continue
		}
		if m := reFileLine.FindStringSubmatch(l); m != nil {
			if r.Files[sec] == "" && strings.HasPrefix(m[1], repo+"/") {
				r.Files[sec] = strings.TrimPrefix(m[1], repo+"/")
				funcs[sec] = lastFunc
			}
		} else if t != "" {
			lastFunc = t
			if i := strings.Index(lastFunc, "("); i > 0 {
				lastFunc = lastFunc[:i]
			}
		}
	}
	a, b := r.Files[0]+":"+funcs[0], r.Files[1]+":"+funcs[1]
	if a > b {
		a, b = b, a
	}
	r.Key = a + " <-> " + b
	if len(blk) > 6000 {
		blk = blk[:6000]
	}
	r.Text = blk
	return r
}

type atomicBool struct {
	mu sync.Mutex
	v  bool
}

func (a *atomicBool) Set()      { a.mu.Lock(); a.v = true; a.mu.Unlock() }
func (a *atomicBool) Get() bool { a.mu.Lock(); defer a.mu.Unlock(); return a.v }

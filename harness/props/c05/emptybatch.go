package c05

import (
	"fmt"
	"time"

	"github.com/influxdata/kapacitor/edge"
	"github.com/influxdata/kapacitor/models"

	"verifharness/core"
	"verifharness/kit"
)

// Sub-monitor "emptybatch": legal but unusual batches - a window whose points were all dropped
// by a where node (empty batch), directly after batches that put the node into a state (alert
// raised, reducer primed, previous point stored) and before batches that must still be
// processed. The task must not end with an error and must keep producing output.
var emptyBatchNodes = []string{
	"|alert().crit(lambda: \"v\" > 0).topic('t')",
	"|alert().crit(lambda: \"v\" > 0).stateChangesOnly().topic('t')",
	"|alert().crit(lambda: \"v\" > 0).all().topic('t')",
	"|alert().warn(lambda: \"v\" > 0).noRecoveries().topic('t')",
	"|alert().crit(lambda: \"v\" > 0).history(3).flapping(0.1, 0.9).topic('t')",
	"|alert().info(lambda: \"v\" > 0).levelField('l').durationField('d').idField('i').messageField('m').topic('t')",
	"|count('v')", "|mean('v')", "|median('v')", "|max('v')", "|last('v')", "|percentile('v', 90.0)", "|top(2, 'v')", "|distinct('v')",
	"|stddev('v')", "|elapsed('v', 1s)", "|difference('v')", "|movingAverage('v', 2)", "|cumulativeSum('v')",
	"|derivative('v')", "|eval(lambda: \"v\" * 2).as('w')", "|stateCount(lambda: \"v\" > 1)", "|stateDuration(lambda: \"v\" > 1)",
	"|flatten().on('k')", "|combine(lambda: TRUE, lambda: TRUE).as('a', 'b')", "|sample(2)", "|shift(1s)", "|default().field('z', 1)",
	"|delete().field('v')", "|changeDetect('v')", "|groupBy('k')", "|holtWinters('v', 2, 0, 1s)", "|log()",
}

func runEmptyBatch(x *core.Ctx) {
	node := emptyBatchNodes[x.Case.PInt("node", 0)]
	for _, order := range []string{"raised-empty-data", "empty-first", "only-empty-then-data"} {
		script := "stream|from().measurement('m').groupBy('g')|window().period(2s).every(2s).align()|where(lambda: \"v\" > 0)" + node + "|log().prefix('A')"
		sub := order + " :: " + script
		if !x.Announce(sub) {
			continue
		}
		x.Count("evaluations", 1)
		env, err := kit.NewEnv(kit.EnvOpts{Scratch: x.Scratch})
		if err != nil {
			x.Inconclusive(err.Error())
			return
		}
		et, err := env.StartStream("A", script, nil)
		if err != nil {
			env.Close()
			x.Count("scripts_rejected", 1)
			continue
		}
		// windows of 2 s, two points each; v > 0 survives the where node
		var plan []float64
		switch order {
		case "raised-empty-data":
			plan = []float64{3, 2, 0, 0, -1, 0, 4, 1, 0, 0, 2, 2}
		case "empty-first":
			plan = []float64{0, -1, 3, 3, 0, 0, 0, 0, 5, 1}
		default:
			plan = []float64{0, 0, 0, 0, 0, 0, 2, 3, 1, 1}
		}
		tm := t0
		for i, v := range plan {
			for _, g := range []string{"a", "b"} {
				env.TM.WriteKapacitorPoint(edge.NewPointMessage("m", "db", "rp", models.Dimensions{}, models.Fields{"v": v, "n": int64(i)}, models.Tags{"g": g, "k": fmt.Sprint(i % 2)}, tm))
			}
			tm = tm.Add(time.Second)
		}
		// close the last window
		for _, g := range []string{"a", "b"} {
			env.TM.WriteKapacitorPoint(edge.NewPointMessage("m", "db", "rp", models.Dimensions{}, models.Fields{"v": 1.0, "n": int64(99)}, models.Tags{"g": g, "k": "0"}, tm.Add(10*time.Second)))
		}
		env.TM.Drain()
		err = et.Wait()
		env.Close()
		if err != nil {
			x.Violatef("task-killed-by-point", "empty batch: "+node, sub, "the task ended with an error after a window emptied by where(): %v", clip(err.Error(), 1500))
			continue
		}
		x.Nontrivial("emptybatch|" + node + "|" + order)
	}
}

package c05

import (
	"bufio"
	"bytes"
	"encoding/binary"
	"fmt"
	"io"
	"runtime"
	"sync"
	"time"

	"github.com/influxdata/kapacitor/keyvalue"
	"github.com/influxdata/kapacitor/udf"
	"github.com/influxdata/kapacitor/udf/agent"
	"google.golang.org/protobuf/proto"

	"verifharness/core"
)

// Sub-monitor d: a hostile UDF peer. The server reads whatever bytes the peer sends; it must
// report an error / abort, never panic (a panic in the reader goroutine ends the process),
// never hang in Stop/Abort, never leak its goroutines.

type nopWC struct{}

func (nopWC) Write(p []byte) (int, error) { return len(p), nil }
func (nopWC) Close() error                { return nil }

type peerDiag struct {
	mu sync.Mutex
	n  int
}

func (d *peerDiag) Error(msg string, err error, ctx ...keyvalue.T) { d.mu.Lock(); d.n++; d.mu.Unlock() }
func (d *peerDiag) UDFLog(string)                                  {}

func frame(m proto.Message) []byte {
	var b bytes.Buffer
	agent.WriteMessage(m, &b)
	return b.Bytes()
}

func uvarint(n uint64) []byte {
	b := make([]byte, binary.MaxVarintLen64)
	return b[:binary.PutUvarint(b, n)]
}

func hostileStreams(r *core.Rng, n int) map[string][]byte {
	out := map[string][]byte{}
	alpha := []byte{0x00, 0x01, 0x08, 0x0a, 0x12, 0x7f, 0x80, 0xff}
	// all byte strings of length <= 3 over the alphabet
	var rec func(p []byte, d int)
	rec = func(p []byte, d int) {
		if d > 0 {
			out[fmt.Sprintf("bytes:%x", p)] = append([]byte{}, p...)
		}
		if d == 3 {
			return
		}
		for _, a := range alpha {
			rec(append(append([]byte{}, p...), a), d+1)
		}
	}
	rec(nil, 0)
	// lengths: truncated and over-long varints, huge sizes
	for _, sz := range []uint64{1 << 31, 1<<31 - 1, 1 << 32, 1 << 40, 1<<63 - 1, 1 << 63, 1<<64 - 1, 5, 1000} {
		out[fmt.Sprintf("size:%d+nobody", sz)] = uvarint(sz)
		out[fmt.Sprintf("size:%d+3bytes", sz)] = append(uvarint(sz), 1, 2, 3)
	}
	out["varint:11x80"] = bytes.Repeat([]byte{0x80}, 11)
	out["varint:10xff+01"] = append(bytes.Repeat([]byte{0xff}, 10), 0x01)
	// well framed, semantically hostile
	sem := map[string][]proto.Message{
		"end-without-begin":     {&agent.Response{Message: &agent.Response_End{End: &agent.EndBatch{Name: "m"}}}},
		"begin-negative-size":   {&agent.Response{Message: &agent.Response_Begin{Begin: &agent.BeginBatch{Name: "m", Size: -1}}}},
		"begin-minint-size":     {&agent.Response{Message: &agent.Response_Begin{Begin: &agent.BeginBatch{Name: "m", Size: -1 << 63}}}},
		"begin-huge-size":       {&agent.Response{Message: &agent.Response_Begin{Begin: &agent.BeginBatch{Name: "m", Size: 1 << 62}}}},
		"empty-response":        {&agent.Response{}},
		"point-nil":             {&agent.Response{Message: &agent.Response_Point{}}},
		"error-nil":             {&agent.Response{Message: &agent.Response_Error{}}},
		"begin-nil":             {&agent.Response{Message: &agent.Response_Begin{}}},
		"end-nil":               {&agent.Response{Message: &agent.Response_Begin{Begin: &agent.BeginBatch{Name: "m"}}}, &agent.Response{Message: &agent.Response_End{}}},
		"info-unsolicited-x3":   {&agent.Response{Message: &agent.Response_Info{Info: &agent.InfoResponse{}}}, &agent.Response{Message: &agent.Response_Info{Info: &agent.InfoResponse{}}}, &agent.Response{Message: &agent.Response_Info{}}},
		"init-before-request":   {&agent.Response{Message: &agent.Response_Init{Init: &agent.InitResponse{Success: true}}}, &agent.Response{Message: &agent.Response_Init{}}},
		"snapshot-unsolicited":  {&agent.Response{Message: &agent.Response_Snapshot{}}, &agent.Response{Message: &agent.Response_Restore{}}},
		"point-nil-maps":        {&agent.Response{Message: &agent.Response_Point{Point: &agent.Point{Name: "m"}}}},
		"point-in-batch-nil":    {&agent.Response{Message: &agent.Response_Begin{Begin: &agent.BeginBatch{Size: 1}}}, &agent.Response{Message: &agent.Response_Point{}}},
		"double-begin":          {&agent.Response{Message: &agent.Response_Begin{Begin: &agent.BeginBatch{Size: 1}}}, &agent.Response{Message: &agent.Response_Begin{Begin: &agent.BeginBatch{Size: 2}}}, &agent.Response{Message: &agent.Response_End{End: &agent.EndBatch{}}}, &agent.Response{Message: &agent.Response_End{End: &agent.EndBatch{}}}},
		"keepalive-nil":         {&agent.Response{Message: &agent.Response_Keepalive{}}},
		"error-message":         {&agent.Response{Message: &agent.Response_Error{Error: &agent.ErrorResponse{Error: "boom"}}}},
		"request-as-response":   {&agent.Request{Message: &agent.Request_Init{Init: &agent.InitRequest{}}}},
		"many-points-then-junk": {&agent.Response{Message: &agent.Response_Point{Point: &agent.Point{Name: "m", Time: -1 << 63}}}, &agent.Response{Message: &agent.Response_Point{Point: &agent.Point{Name: "m", Time: 1<<63 - 1}}}},
	}
	for name, msgs := range sem {
		var b []byte
		for _, m := range msgs {
			b = append(b, frame(m)...)
		}
		out["sem:"+name] = b
		// and truncated in the middle / followed by garbage
		if len(b) > 2 {
			out["sem:"+name+"+truncated"] = b[:len(b)-1]
		}
		out["sem:"+name+"+junk"] = append(append([]byte{}, b...), 0xff, 0xff, 0x01)
	}
	// seeded mutations of valid frames
	for i := 0; i < n; i++ {
		b := frame(&agent.Response{Message: &agent.Response_Point{Point: &agent.Point{Name: "m", Tags: map[string]string{"a": "b"}, FieldsDouble: map[string]float64{"f": 1}}}})
		for k := 0; k < r.Range(1, 3); k++ {
			b[r.Intn(len(b))] = byte(r.Intn(256))
		}
		out[fmt.Sprintf("mut:%x", b)] = b
	}
	return out
}

func runUDFPeer(x *core.Ctx) {
	r := core.NewRng(x.Case.Seed, 55)
	streams := hostileStreams(r, x.Case.N)
	names := make([]string, 0, len(streams))
	for k := range streams {
		names = append(names, k)
	}
	sortS(names)
	lo, hi := x.Case.PInt("lo", 0), x.Case.PInt("hi", len(names))
	if hi > len(names) {
		hi = len(names)
	}
	if lo > hi {
		lo = hi // the case list is cut in fixed chunks; the last ones may lie beyond the streams generated
	}
	before := settle()
	ran := 0
	for _, name := range names[lo:hi] {
		if !x.Announce("udf-peer " + name) {
			continue
		}
		x.Count("evaluations", 1)
		ran++
		data := streams[name]
		d := &peerDiag{}
		aborted := make(chan struct{}, 1)
		// the peer sends its bytes and then keeps the pipe open for a moment (a process that went quiet)
		pr, pw := io.Pipe()
		go func() {
			pw.Write(data)
			time.Sleep(3 * time.Millisecond)
			pw.Close()
		}()
		srv := udf.NewServer("task", "node", bufio.NewReader(pr), nopWC{}, d, 0, func() {
			select {
			case aborted <- struct{}{}:
			default:
			}
		}, func() {})
		if err := srv.Start(); err != nil {
			continue
		}
		// a request racing with the hostile bytes (Info), bounded
		infoDone := make(chan struct{})
		go func() {
			defer close(infoDone)
			defer func() {
				if rec := recover(); rec != nil {
					x.Violatef("udf-peer-panic", "panic in Server.Info: "+panicClass(fmt.Sprint(rec)), name, "stream %x: %v", clipBytes(data), rec)
				}
			}()
			srv.Info()
		}()
		stopDone := make(chan struct{})
		go func() {
			defer close(stopDone)
			defer func() {
				if rec := recover(); rec != nil {
					x.Violatef("udf-peer-panic", "panic in Server.Stop/Abort: "+panicClass(fmt.Sprint(rec)), name, "stream %x: %v", clipBytes(data), rec)
				}
			}()
			time.Sleep(8 * time.Millisecond)
			srv.Abort(fmt.Errorf("harness: giving up on hostile peer"))
		}()
		select {
		case <-stopDone:
		case <-time.After(20 * time.Second):
			x.Violatef("udf-peer-hang", "Server.Abort did not return within 20s after a hostile stream", name, "stream %x", clipBytes(data))
			return
		}
		select {
		case <-infoDone:
		case <-time.After(20 * time.Second):
			x.Violatef("udf-peer-hang", "Server.Info did not return within 20s after Abort", name, "stream %x", clipBytes(data))
			return
		}
		x.Nontrivial("udfpeer:" + name)
		x.SetAdd("udf_stream_classes", name[:4])
	}
	after := settle()
	x.Count("udf_streams_offered", int64(ran))
	if delta := after - before; ran > 50 && delta > ran/10 {
		x.Violatef("goroutine-leak", "goroutines grow with the number of hostile UDF sessions", "udf-peer", "%d goroutines before, %d after %d sessions\n%s", before, after, ran, goroutineSummary())
	}
	runtime.GC()
}

func clipBytes(b []byte) []byte {
	if len(b) > 64 {
		return b[:64]
	}
	return b
}

func sortS(l []string) {
	for i := 1; i < len(l); i++ {
		for j := i; j > 0 && l[j] < l[j-1]; j-- {
			l[j], l[j-1] = l[j-1], l[j]
		}
	}
}

// Package c05: no script, data point or peer message can crash the daemon or kill a task.
package c05

import (
	"encoding/json"
	"fmt"
	"math"
	"os"
	"path/filepath"
	"runtime"
	"sort"
	"strings"
	"time"

	"github.com/influxdata/kapacitor"
	"github.com/influxdata/kapacitor/edge"
	"github.com/influxdata/kapacitor/models"
	"github.com/influxdata/kapacitor/pipeline"
	"github.com/influxdata/kapacitor/tick"
	"github.com/influxdata/kapacitor/tick/ast"
	"github.com/influxdata/kapacitor/tick/stateful"

	"verifharness/core"
	"verifharness/kit"
)

type prop struct{}

func init() { core.Register(prop{}) }

func (prop) ID() string    { return "C05" }
func (prop) Level() string { return "exploration" }
func (prop) Rule() string {
	return "strings: ALL strings of length <=3 (thorough <=4) over a 22-symbol hostile alphabet (/ ' \" \\ | . @ ( ) [ ] , * = ~ ! - a 1 é U+2028 newline + the word 'lambda:'), each offered to ast.Parse, ast.ParseLambda, tick.Format, TaskMaster.NewTask (stream and batch) and NewTemplate; corpus: every prefix, every single-token deletion and seeded structural mutations of the repo's own example scripts; json: AST / pipeline JSON documents with typeOf and fields replaced by unknown/missing/mistyped values; leak: goroutine count before/after 300 rejected and 300 accepted definitions; data: for each expression-bearing or typed node a two-task process where task A receives good, BAD, good points and task B only good ones. " +
		"Every call runs in a child process under recover; a panic (recovered or fatal), a hang, a goroutine delta that scales with the number of inputs, a task that stops or an unaffected task that is disturbed is a violation. Non-trivial: distinct (entry point, outcome class, error message shape) for front-end inputs that were rejected with an error or accepted, and distinct (node, bad value) pairs whose post-bad output was observed"
}
func (prop) Assumptions() []string {
	return []string{
		"'all byte strings' is exhaustive only up to the stated length over the stated alphabet; longer inputs are reached by mutation of real scripts",
		"a watchdog expiry (no journal progress for 120 s) while a front-end call is running counts as a hang",
		"udf: all byte strings of length <=3 over {00,01,08,0a,12,7f,80,ff}, truncated/over-long varint sizes (2^31..2^64-1), well-framed but semantically hostile responses (End without Begin, negative sizes, nil oneof payloads, unsolicited responses) and seeded mutations of valid frames are fed to a real udf.Server",
		"lamdata: generated hostile-but-parsable lambdas (ill-typed operands, unary operators on anything incl. regex literals, references wrapped in unary operators or lambda vars) run inside where/eval/alert/stateCount nodes of real tasks that receive points whose field types drift and whose fields go missing",
		"the HTTP write route is exercised by C02 / C20",
	}
}
func (prop) MinNontrivial(tier string) int {
	if tier == "thorough" {
		return 1500
	}
	return 300
}
func (prop) CaseTimeoutSec(string) int { return 120 }
func (prop) ExhaustiveNote(tier string) (bool, string) {
	if tier == "thorough" {
		return true, "all strings of length <=4 over the 23-symbol alphabet were enumerated; everything else is sampled"
	}
	return true, "all strings of length <=3 over the 23-symbol alphabet were enumerated; everything else is sampled"
}

func (prop) ClassifyHang(c core.Case, sub string, dump string) *core.Violation {
	if c.Kind == "strings" || c.Kind == "corpus" || c.Kind == "json" {
		return &core.Violation{Kind: "frontend-hang", Key: "hang while defining: " + clip(sub, 80), Sub: sub, Detail: clip(dump, 3000)}
	}
	return nil
}

var alphabet = []string{"/", "'", "\"", "\\", "|", ".", "@", "(", ")", "[", "]", ",", "*", "=", "~", "!", "-", "a", "1", "é", " ", "\n", "lambda:"}

func (prop) Cases(tier string, seed uint64) []core.Case {
	var cs []core.Case
	maxLen := 3
	if tier == "thorough" {
		maxLen = 4
	}
	total := 0
	p := 1
	for l := 1; l <= maxLen; l++ {
		p *= len(alphabet)
		total += p
	}
	blocks := 32
	if tier == "thorough" {
		blocks = 256
	}
	per := (total + blocks - 1) / blocks
	for i := 0; i < blocks; i++ {
		lo, hi := i*per, (i+1)*per
		if hi > total {
			hi = total
		}
		if lo < hi {
			cs = append(cs, core.Case{ID: fmt.Sprintf("strings-%d", i), Kind: "strings", Seed: seed, Params: map[string]interface{}{"lo": lo, "hi": hi}})
		}
	}
	nc, nj, nd := 16, 6, 1
	if tier == "thorough" {
		nc, nj, nd = 160, 60, 8
	}
	for i := 0; i < nc; i++ {
		cs = append(cs, core.Case{ID: fmt.Sprintf("corpus-%d", i), Kind: "corpus", Seed: seed*131 + uint64(i), N: 250})
	}
	for i := 0; i < nj; i++ {
		cs = append(cs, core.Case{ID: fmt.Sprintf("json-%d", i), Kind: "json", Seed: seed*137 + uint64(i), N: 300})
	}
	cs = append(cs, core.Case{ID: "leak", Kind: "leak", Seed: seed})
	nl := 32
	if tier == "thorough" {
		nl = 400
	}
	for i := 0; i < nl; i++ {
		cs = append(cs, core.Case{ID: fmt.Sprintf("lamdata-%d", i), Kind: "lamdata", Seed: seed*149 + uint64(i), N: 120})
	}
	nu := 200
	if tier == "thorough" {
		nu = 8000
	}
	// ~700 fixed hostile streams + nu seeded mutations, split into blocks
	for lo := 0; lo < 700+nu; lo += 120 {
		cs = append(cs, core.Case{ID: fmt.Sprintf("udf-%d", lo), Kind: "udf", Seed: seed, N: nu, Params: map[string]interface{}{"lo": lo, "hi": lo + 120}})
	}
	for i := 0; i < nd; i++ {
		for n := range dataNodes {
			cs = append(cs, core.Case{ID: fmt.Sprintf("data-%d-%d", i, n), Kind: "data", Seed: seed*139 + uint64(i), Params: map[string]interface{}{"node": n}})
		}
	}
	for n := range emptyBatchNodes {
		cs = append(cs, core.Case{ID: fmt.Sprintf("emptybatch-%d", n), Kind: "emptybatch", Seed: seed, Params: map[string]interface{}{"node": n}})
	}
	return cs
}

func nthString(n int) string {
	// enumerate by length then lexicographically
	l := 1
	p := len(alphabet)
	for n >= p {
		n -= p
		p *= len(alphabet)
		l++
	}
	parts := make([]string, l)
	for i := l - 1; i >= 0; i-- {
		parts[i] = alphabet[n%len(alphabet)]
		n /= len(alphabet)
	}
	return strings.Join(parts, "")
}

func (prop) Run(x *core.Ctx) {
	switch x.Case.Kind {
	case "strings":
		fe := newFrontEnd(x)
		defer fe.close()
		for n := x.Case.PInt("lo", 0); n < x.Case.PInt("hi", 0); n++ {
			fe.offer(nthString(n))
		}
	case "corpus":
		runCorpus(x)
	case "json":
		runJSON(x)
	case "leak":
		runLeak(x)
	case "data":
		runData(x)
	case "emptybatch":
		runEmptyBatch(x)
	case "udf":
		runUDFPeer(x)
	case "lamdata":
		runLambdaData(x)
	}
}

// ---- front end ---------------------------------------------------------------------------------

type frontEnd struct {
	x  *core.Ctx
	tm *kapacitor.TaskMaster
}

func newFrontEnd(x *core.Ctx) *frontEnd {
	rec := kit.NewRecorder()
	tm := kapacitor.NewTaskMaster("fe", kit.ServerInfo(), rec.Diag())
	tm.DeadmanService = kit.NopDeadman{}
	tm.TaskStore = kit.NopTaskStore{}
	tm.HTTPDService = kit.NopHTTPD{}
	return &frontEnd{x: x, tm: tm}
}
func (f *frontEnd) close() {}

func errShape(err error) string {
	s := err.Error()
	// remove quoted payloads and numbers so the shape is about the parser path
	var sb strings.Builder
	inq := false
	for _, r := range s {
		switch {
		case r == '"' || r == '\'':
			inq = !inq
		case inq:
		case r >= '0' && r <= '9':
			sb.WriteByte('#')
		default:
			sb.WriteRune(r)
		}
	}
	out := sb.String()
	if len(out) > 70 {
		out = out[:70]
	}
	return out
}

func (f *frontEnd) call(name, input string, fn func() error) {
	x := f.x
	var err error
	var pan interface{}
	func() {
		defer func() {
			if r := recover(); r != nil {
				pan = r
			}
		}()
		err = fn()
	}()
	x.Count("frontend_calls", 1)
	switch {
	case pan != nil:
		x.Count("outcome_panic", 1)
		msg := fmt.Sprint(pan)
		x.Violatef("frontend-panic", name+": "+panicClass(msg), clip(input, 200), "%s(%q) panicked: %s", name, clip(input, 400), msg)
	case err != nil:
		x.Count("outcome_error", 1)
		x.Nontrivial(name + "|error|" + errShape(err))
		x.SetAdd("error_shapes", name+": "+errShape(err))
	default:
		x.Count("outcome_accepted", 1)
		x.Nontrivial(name + "|accepted|" + clip(input, 40))
	}
}

func panicClass(msg string) string {
	// strip addresses / indexes
	var sb strings.Builder
	for _, r := range msg {
		if r >= '0' && r <= '9' {
			sb.WriteByte('#')
		} else {
			sb.WriteRune(r)
		}
	}
	return clip(sb.String(), 100)
}

func clip(s string, n int) string {
	if len(s) > n {
		return s[:n] + "…"
	}
	return s
}

var dbrps = []kapacitor.DBRP{{Database: "db", RetentionPolicy: "rp"}}

func (f *frontEnd) offer(input string) {
	x := f.x
	if !x.Announce(input) {
		return
	}
	x.Count("evaluations", 1)
	f.call("ast.Parse", input, func() error { _, err := ast.Parse(input); return err })
	f.call("ast.ParseLambda", input, func() error { _, err := ast.ParseLambda(input); return err })
	f.call("tick.Format", input, func() error { _, err := tick.Format(input); return err })
	f.call("NewTask(stream)", input, func() error {
		_, err := f.tm.NewTask("t", input, kapacitor.StreamTask, dbrps, 0, nil)
		return err
	})
	f.call("NewTask(batch)", input, func() error {
		_, err := f.tm.NewTask("t", input, kapacitor.BatchTask, dbrps, 0, nil)
		return err
	})
	f.call("NewTemplate(stream)", input, func() error {
		_, err := f.tm.NewTemplate("t", input, kapacitor.StreamTask)
		return err
	})
}

// ---- corpus ------------------------------------------------------------------------------------

func loadCorpus() []string {
	repo := os.Getenv("VERIF_REPO")
	if repo == "" {
		repo = "/repo"
	}
	var out []string
	filepath.Walk(repo, func(p string, info os.FileInfo, err error) error {
		if err != nil {
			return nil
		}
		if info.IsDir() && (info.Name() == ".git" || info.Name() == "node_modules") {
			return filepath.SkipDir
		}
		if strings.HasSuffix(p, ".tick") {
			if b, err := os.ReadFile(p); err == nil && len(b) < 6000 {
				out = append(out, string(b))
			}
		}
		return nil
	})
	sort.Strings(out)
	out = append(out, builtinCorpus...)
	return out
}

var builtinCorpus = []string{
	"stream|from().measurement('cpu').groupBy('host')|window().period(10s).every(5s)|mean('usage').as('m')|alert().crit(lambda: \"m\" > 90.0).log('/tmp/x')",
	"var x = 5\nvar re = /a.*b/\nstream|from().where(lambda: \"host\" =~ re AND \"v\" > x)|eval(lambda: \"v\" * 2.0, lambda: strLength(\"s\")).as('d','l').keep()|httpOut('out')",
	"batch|query('SELECT mean(v) FROM \"db\".\"rp\".\"m\"').period(1m).every(30s).groupBy(time(10s), 'host').fill(0)|derivative('mean').unit(1s).nonNegative()|influxDBOut().database('o').measurement('d')",
	"var a = stream|from().measurement('a')\nvar b = stream|from().measurement('b')\na|join(b).as('a','b').tolerance(1s).fill('null')|union(a)|sample(3)|log()",
	"dbrp \"telegraf\".\"autogen\"\nvar period duration\nvar name = 'x'\nstream|from().measurement(name)|stateDuration(lambda: \"v\" > 1).unit(1m)|stateCount(lambda: TRUE)|shift(5m)|default().field('f', 1.0).tag('t','x')|delete().field('g')",
	"stream|from()|flatten().on('a','b').delimiter('.').tolerance(1s)|combine(lambda: \"t\" == 'x', lambda: \"t\" == 'y').as('x','y').max(10)|changeDetect('v')|barrier().idle(10s)|top(2, 'v', 'host')|bottom(1,'v')",
	"stream|from().groupBy(*).exclude('x')|percentile('v', 95.0)|elapsed('v', 1s)|difference('v')|movingAverage('v', 5)|cumulativeSum('v')|holtWinters('v', 1, 2, 1m)|kapacitorLoopback().database('d').retentionPolicy('r')",
}

func tokens(s string) []string {
	// crude tokenisation good enough for deletions: split on boundaries of |.(),' and whitespace
	var out []string
	cur := ""
	flush := func() {
		if cur != "" {
			out = append(out, cur)
			cur = ""
		}
	}
	for _, r := range s {
		switch r {
		case '|', '.', '(', ')', ',', '\'', '"', ' ', '\n', '\t', ':', '@', '[', ']', '/', '=', '<', '>', '!', '+', '-', '*':
			flush()
			out = append(out, string(r))
		default:
			cur += string(r)
		}
	}
	flush()
	return out
}

func runCorpus(x *core.Ctx) {
	r := core.NewRng(x.Case.Seed, 5)
	corpus := loadCorpus()
	x.Count("corpus_scripts", int64(len(corpus)))
	fe := newFrontEnd(x)
	for i := 0; i < x.Case.N; i++ {
		src := corpus[r.Intn(len(corpus))]
		tk := tokens(src)
		var in string
		switch r.Intn(9) {
		case 0: // prefix (byte level)
			in = src[:r.Intn(len(src)+1)]
		case 1: // single token deletion
			k := r.Intn(len(tk))
			in = strings.Join(append(append([]string{}, tk[:k]...), tk[k+1:]...), "")
		case 2: // token swap
			a, b := r.Intn(len(tk)), r.Intn(len(tk))
			t2 := append([]string{}, tk...)
			t2[a], t2[b] = t2[b], t2[a]
			in = strings.Join(t2, "")
		case 3: // token duplication
			k := r.Intn(len(tk))
			in = strings.Join(append(append(append([]string{}, tk[:k]...), tk[k]), tk[k:]...), "")
		case 4: // multi-byte rune after each '/'
			in = strings.Replace(src, "/", "/"+[]string{"é", " ", "\U0001F600"}[r.Intn(3)], r.Range(1, 3))
		case 5: // quote flips
			in = strings.Replace(src, "'", "\"", r.Range(1, 2))
			if r.Bool() {
				in = strings.Replace(src, "\"", "'", r.Range(1, 2))
			}
		case 6: // property written without parentheses / chain-property operators exchanged
			k := r.Intn(len(tk))
			t2 := append([]string{}, tk...)
			switch t2[k] {
			case "|":
				t2[k] = []string{".", "@"}[r.Intn(2)]
			case ".":
				t2[k] = []string{"|", "@"}[r.Intn(2)]
			case "(":
				t2[k] = ""
			case ")":
				t2[k] = ""
			default:
				t2[k] = alphabet[r.Intn(len(alphabet))]
			}
			in = strings.Join(t2, "")
		case 7: // hostile symbol insertion
			k := r.Intn(len(src) + 1)
			in = src[:k] + alphabet[r.Intn(len(alphabet))] + src[k:]
		default: // wrong arity / argument types: replace an argument token
			k := r.Intn(len(tk))
			t2 := append([]string{}, tk...)
			t2[k] = []string{"1", "1.5", "'s'", "lambda: 1", "5m", "/r/", "TRUE", "*", "[1,2]", "x", ""}[r.Intn(11)]
			in = strings.Join(t2, "")
		}
		fe.offer(in)
		if x.NumViolations() > 200 {
			return
		}
	}
	x.Sample(map[string]interface{}{"corpus_scripts": len(corpus), "mutations_tried": x.Case.N})
}

// ---- JSON ----------------------------------------------------------------------------------------

func runJSON(x *core.Ctx) {
	r := core.NewRng(x.Case.Seed, 6)
	// seed documents: real lambdas / programs / pipelines marshalled by the product itself
	var docs []string
	for _, l := range []string{"\"a\" > 1 AND strLength(\"s\") == 3", "if(\"b\", 1.0, float(\"i\")) / 2.0", "\"s\" =~ /ab+/ OR !(\"x\" < 5m)", "-\"x\" * (1 + 2)"} {
		if n, err := ast.ParseLambda(l); err == nil {
			if b, err := json.Marshal(n); err == nil {
				docs = append(docs, "L"+string(b))
			}
		}
	}
	for _, s := range builtinCorpus {
		if n, err := ast.Parse(s); err == nil {
			if b, err := json.Marshal(n); err == nil {
				docs = append(docs, "P"+string(b))
			}
		}
		fe := newFrontEnd(x)
		for _, tt := range []kapacitor.TaskType{kapacitor.StreamTask, kapacitor.BatchTask} {
			if t, err := fe.tm.NewTask("t", s, tt, dbrps, 0, nil); err == nil {
				if b, err := json.Marshal(t.Pipeline); err == nil {
					docs = append(docs, "Q"+string(b))
				}
			}
		}
	}
	if len(docs) == 0 {
		x.Inconclusive("no seed JSON documents")
		return
	}
	x.Count("json_seed_documents", int64(len(docs)))
	// systematic pass over the lambda documents: every key of every object set to null / removed /
	// replaced by a value of another JSON type, one at a time
	var systematic []string
	for _, d := range docs {
		if d[0] != 'L' {
			continue
		}
		for _, repl := range []interface{}{nil, "DELETE", 1.5, "str", true, []interface{}{}, map[string]interface{}{}} {
			for k := 0; ; k++ {
				var v interface{}
				if json.Unmarshal([]byte(d[1:]), &v) != nil {
					break
				}
				if !setNthKey(&v, k, repl) {
					break
				}
				b, _ := json.Marshal(v)
				systematic = append(systematic, "L"+string(b))
			}
		}
	}
	x.Count("json_systematic_lambda_documents", int64(len(systematic)))
	for i := 0; i < x.Case.N+len(systematic); i++ {
		var kind byte
		var in string
		if i >= x.Case.N {
			d := systematic[i-x.Case.N]
			kind, in = d[0], d[1:]
		} else {
			d := docs[r.Intn(len(docs))]
			var doc string
			kind, doc = d[0], d[1:]
			var v interface{}
			if json.Unmarshal([]byte(doc), &v) != nil {
				continue
			}
			mutateJSON(r, &v, r.Range(1, 3))
			b, _ := json.Marshal(v)
			in = string(b)
			if r.Chance(0.1) {
				in = in[:r.Intn(len(in)+1)] // truncated document
			}
		}
		if !x.Announce(string(kind) + in) {
			continue
		}
		x.Count("evaluations", 1)
		fe := &frontEnd{x: x}
		switch kind {
		case 'L':
			fe.call("json->LambdaNode", in, func() error {
				var n ast.LambdaNode
				if err := json.Unmarshal([]byte(in), &n); err != nil {
					return err
				}
				// an accepted document must also be usable: compile it and evaluate it on a few points
				// (errors are fine, a panic is what kills the node that holds the lambda)
				if n.Expression == nil {
					return nil
				}
				e, err := stateful.NewExpression(n.Expression)
				if err != nil {
					return err
				}
				for _, sc := range []map[string]interface{}{
					{"a": int64(2), "s": "abb", "b": true, "i": int64(3), "x": 1.5},
					{"a": 2.5, "s": "", "b": false, "i": int64(0), "x": time.Minute},
					{"s": "zzz"},
				} {
					scope := stateful.NewScope()
					for _, name := range ast.FindReferenceVariables(n.Expression) {
						if v, ok := sc[name]; ok {
							scope.Set(name, v)
						} else {
							scope.Set(name, ast.MissingValue)
						}
					}
					// nodes evaluate predicates with EvalBool (no recovery of its own); Eval turns a
					// runtime panic into an error text, which is just as much a crash of the evaluator
					if _, err := e.Eval(scope); err != nil && strings.HasPrefix(err.Error(), "runtime error:") {
						panic("Eval of an accepted lambda document: " + err.Error())
					}
					e.EvalBool(scope)
				}
				x.Count("json_lambdas_accepted_and_evaluated", 1)
				return nil
			})
		case 'P':
			fe.call("json->ProgramNode", in, func() error { var n ast.ProgramNode; return json.Unmarshal([]byte(in), &n) })
		case 'Q':
			fe.call("json->Pipeline", in, func() error { p := &pipeline.Pipeline{}; return p.Unmarshal([]byte(in)) })
		}
		if x.NumViolations() > 200 {
			return
		}
	}
}

// setNthKey replaces the value of the n-th object key (depth first, keys sorted) of the document;
// false if there are fewer keys.
func setNthKey(v *interface{}, n int, repl interface{}) bool {
	count := 0
	var walk func(p interface{}) bool
	walk = func(p interface{}) bool {
		switch t := p.(type) {
		case map[string]interface{}:
			keys := make([]string, 0, len(t))
			for k := range t {
				keys = append(keys, k)
			}
			sort.Strings(keys)
			for _, k := range keys {
				if count == n {
					if repl == "DELETE" {
						delete(t, k)
					} else {
						t[k] = repl
					}
					count++
					return true
				}
				count++
				if walk(t[k]) {
					return true
				}
			}
		case []interface{}:
			for _, e := range t {
				if walk(e) {
					return true
				}
			}
		}
		return false
	}
	return walk(*v)
}

// mutateJSON changes k random places of the document.
func mutateJSON(r *core.Rng, v *interface{}, k int) {
	var slots []func()
	var walk func(p *interface{})
	walk = func(p *interface{}) {
		switch t := (*p).(type) {
		case map[string]interface{}:
			for key := range t {
				key := key
				slots = append(slots, func() {
					switch r.Intn(5) {
					case 0:
						delete(t, key)
					case 1:
						t[key] = []interface{}{nil, "bogus", 1.5, true, map[string]interface{}{}, []interface{}{}, map[string]interface{}{"typeOf": "bogus"}, map[string]interface{}{"typeOf": "lambda"}, "", -1.0, 1e300}[r.Intn(11)]
					case 2:
						if key == "typeOf" {
							t[key] = []interface{}{"bogus", "lambda", "binary", "func", "reference", "number", nil, 3.0, "window", "stream", "program", "chain", "list", "regex", "duration", "unary", "declaration", "typeDeclaration", "dbrp", "identifier", "star", "string", "bool"}[r.Intn(23)]
						} else {
							t[key] = nil
						}
					case 3:
						t[key+"x"] = t[key]
						delete(t, key)
					default:
						t[key] = map[string]interface{}{"typeOf": []string{"bogus", "number", "func", "binary"}[r.Intn(4)]}
					}
				})
				val := t[key]
				walk(&val)
				t[key] = val
			}
		case []interface{}:
			for i := range t {
				i := i
				slots = append(slots, func() {
					t[i] = []interface{}{nil, "x", 1.0, map[string]interface{}{"typeOf": "bogus"}, []interface{}{}}[r.Intn(5)]
				})
				walk(&t[i])
			}
		}
	}
	walk(v)
	for i := 0; i < k && len(slots) > 0; i++ {
		slots[r.Intn(len(slots))]()
	}
}

// ---- goroutine accounting ---------------------------------------------------------------------

func settle() int {
	n := runtime.NumGoroutine()
	for i := 0; i < 200; i++ {
		time.Sleep(5 * time.Millisecond)
		runtime.Gosched()
		m := runtime.NumGoroutine()
		if m == n && i > 20 {
			break
		}
		n = m
	}
	return n
}

func runLeak(x *core.Ctx) {
	if !x.Announce("goroutine accounting") {
		return
	}
	x.Count("evaluations", 1)
	fe := newFrontEnd(x)
	rejected := []string{"stream|from(", "stream|from().measurement('x", "var x = ", "stream|bogus()", "stream|from().where(lambda: )", "batch|query('x').period(", "stream|from()|window().period(1s)|", "stream|from()@", "'", "stream|from().groupBy(", "1 +", "stream\n|from()\n.x(1 2)"}
	accepted := []string{builtinCorpus[0], builtinCorpus[1], builtinCorpus[4]}
	measure := func(name string, inputs []string, n int, stream bool) {
		before := settle()
		for i := 0; i < n; i++ {
			in := inputs[i%len(inputs)]
			func() {
				defer func() { recover() }()
				ast.Parse(in)
				ast.ParseLambda(in)
				tick.Format(in)
				fe.tm.NewTask("t", in, kapacitor.StreamTask, dbrps, 0, nil)
				fe.tm.NewTemplate("t", in, kapacitor.StreamTask)
			}()
		}
		after := settle()
		delta := after - before
		x.Count("goroutine_delta_"+name, int64(delta))
		x.Nontrivial(fmt.Sprintf("leak-%s-%d", name, n))
		// a delta that scales with the number of inputs is a leak; tolerate a small constant
		if delta > n/10 {
			x.Violatef("goroutine-leak", "goroutines grow with the number of "+name+" definitions", name, "%d goroutines before, %d after %d %s inputs (x5 entry points): delta %d\n%s", before, after, n, name, delta, goroutineSummary())
		}
	}
	// two faults in one text: first something the parser rejects at a token that lexes fine, later
	// something the lexer itself rejects (the lexer goroutine is still scanning when the parser gives up)
	var twoFaults []string
	for _, a := range []string{"var = 1\n", "stream|from().period(10s 5s)\n", "stream|from(|x\n", "var x = (1 + \n|", "stream\n|from()\n.x(1 2)\n", "lambda: (\"a\" > ) AND\n"} {
		for _, b := range []string{"var s = 'unterminated", "var r = \"unterminated", "var g = /unterminated", "#", "var n = 1.2.3", "stream|x('abc", "var d = 10q", "var q = \\"} {
			twoFaults = append(twoFaults, a+b, a+"stream|from()\n"+b)
		}
	}
	measure("two-fault", twoFaults, 2*len(twoFaults), true)
	measure("rejected", rejected, 300, true)
	measure("accepted", accepted, 300, true)
	x.Sample(map[string]interface{}{"rejected_inputs": rejected[:4], "n": 300})
}

func goroutineSummary() string {
	buf := make([]byte, 1<<20)
	n := runtime.Stack(buf, true)
	// count by first function line
	counts := map[string]int{}
	for _, g := range strings.Split(string(buf[:n]), "\n\n") {
		lines := strings.Split(g, "\n")
		if len(lines) >= 2 {
			fn := lines[1]
			if i := strings.Index(fn, "("); i > 0 {
				fn = fn[:i]
			}
			counts[fn]++
		}
	}
	var l []string
	for k, v := range counts {
		if v > 3 {
			l = append(l, fmt.Sprintf("%dx %s", v, k))
		}
	}
	sort.Strings(l)
	return strings.Join(l, "; ")
}

// ---- data plane ---------------------------------------------------------------------------------

type dataNode struct {
	Name   string
	Script string // appended after stream|from().measurement('m')
	Batch  bool   // outputs appear per window (more good points needed)
}

var dataNodes = []dataNode{
	{"from.where", ".where(lambda: 100 / \"v\" >= 0 OR \"f\" > 0.0)", false},
	{"where-intdiv", "|where(lambda: 100 / \"v\" >= 0 OR TRUE)", false},
	{"where-mod", "|where(lambda: 100 % \"v\" >= 0 OR TRUE)", false},
	{"where-float", "|where(lambda: \"f\" / \"f\" >= 0.0 OR TRUE)", false},
	{"where-str", "|where(lambda: strLength(strSubstring(\"s\", 0, \"v\")) >= 0)", false},
	{"eval-intdiv", "|eval(lambda: 100 / \"v\").as('r').keep()", false},
	{"eval-substr", "|eval(lambda: strSubstring(\"s\", 1, \"v\")).as('r').keep()", false},
	{"eval-dur", "|eval(lambda: 10s / \"v\").as('r').keep()", false},
	{"eval-tags", "|eval(lambda: string(\"v\")).as('r').tags('r').keep()", false},
	{"alert-crit", "|alert().crit(lambda: 100 / \"v\" > 10).warn(lambda: 100 % \"v\" >= 0).critReset(lambda: 1 / \"v\" > 0).topic('x')", false},
	{"stateCount", "|stateCount(lambda: 100 / \"v\" >= 0)", false},
	{"stateDuration", "|stateDuration(lambda: 100 / \"v\" >= 0).unit(1s)", false},
	{"derivative", "|derivative('v').unit(1s)", false},
	{"derivative-f", "|derivative('f').nonNegative()", false},
	{"changeDetect", "|changeDetect('v')", false},
	{"sample", "|sample(1)", false},
	{"default", "|default().field('v', 1).tag('t', 'x')", false},
	{"delete", "|delete().field('v').tag('t')", false},
	{"flatten", "|flatten().on('t').tolerance(1s)", false},
	{"combine", "|combine(lambda: \"t\" == 'a', lambda: \"t\" == 'b').as('x','y').tolerance(1s)", false},
	{"groupBy", "|groupBy('t')", false},
	{"window-mean", "|window().period(2s).every(2s)|mean('v')", true},
	{"window-sum-f", "|window().period(2s).every(2s)|sum('f')", true},
	{"window-percentile", "|window().period(2s).every(2s)|percentile('v', 50.0)", true},
	{"window-top", "|window().period(2s).every(2s)|top(1, 'v')", true},
	{"window-distinct", "|window().period(2s).every(2s)|distinct('v')", true},
	{"window-mode", "|window().period(2s).every(2s)|mode('v')", true},
	{"window-stddev", "|window().period(2s).every(2s)|stddev('f')", true},
	{"window-spread", "|window().period(2s).every(2s)|spread('v')", true},
	{"elapsed", "|elapsed('v', 1s)", false},
	{"difference", "|difference('v')", false},
	{"movingAverage", "|movingAverage('v', 2)", false},
	{"cumulativeSum", "|cumulativeSum('v')", false},
	{"httpOut", "|httpOut('x')", false},
	{"shift", "|shift(1s)", false},
	{"window-count", "|window().periodCount(2).everyCount(1)|count('v')", false},
	{"holtWinters", "|window().period(4s).every(4s)|holtWinters('f', 2, 0, 1s)", true},
}

type badValue struct {
	Name   string
	Fields func() models.Fields
	Tags   models.Tags
}

func good(i int) models.Fields {
	return models.Fields{"v": int64(3 + i%5), "f": 1.5 + float64(i), "s": "abcdefghijkl"}
}

var badValues = []badValue{
	{"zero-divisor", func() models.Fields { return models.Fields{"v": int64(0), "f": 0.0, "s": "abcdefghijkl"} }, models.Tags{"t": "a"}},
	{"minint", func() models.Fields {
		return models.Fields{"v": int64(math.MinInt64), "f": -math.MaxFloat64, "s": "abcdefghijkl"}
	}, models.Tags{"t": "a"}},
	{"nan-inf", func() models.Fields { return models.Fields{"v": int64(1), "f": math.NaN(), "s": "abcdefghijkl"} }, models.Tags{"t": "a"}},
	{"inf", func() models.Fields { return models.Fields{"v": int64(1), "f": math.Inf(-1), "s": "abcdefghijkl"} }, models.Tags{"t": "a"}},
	{"wrong-type-string", func() models.Fields { return models.Fields{"v": "zero", "f": "x", "s": int64(5)} }, models.Tags{"t": "a"}},
	{"wrong-type-bool", func() models.Fields { return models.Fields{"v": true, "f": false, "s": 1.5} }, models.Tags{"t": "a"}},
	{"int-becomes-float", func() models.Fields { return models.Fields{"v": 2.5, "f": int64(7), "s": "abcdefghijkl"} }, models.Tags{"t": "a"}},
	{"missing-fields", func() models.Fields { return models.Fields{"other": 1.0} }, models.Tags{"t": "a"}},
	{"nil-field", func() models.Fields { return models.Fields{"v": nil, "f": nil, "s": nil} }, models.Tags{"t": "a"}},
	{"duration-field", func() models.Fields {
		return models.Fields{"v": time.Second, "f": time.Duration(0), "s": "abcdefghijkl"}
	}, models.Tags{"t": "a"}},
	{"empty-tags", func() models.Fields { return good(1) }, models.Tags{}},
	{"nil-tags", func() models.Fields { return good(1) }, nil},
	{"huge-string", func() models.Fields {
		return models.Fields{"v": int64(100), "f": 1.0, "s": strings.Repeat("x", 1<<20)}
	}, models.Tags{"t": "a"}},
	{"substr-start-gt-stop", func() models.Fields { return models.Fields{"v": int64(4), "f": 1.0, "s": "abcdefghijkl"} }, models.Tags{"t": "a"}},
	{"negative-index", func() models.Fields { return models.Fields{"v": int64(-1), "f": -1.0, "s": ""} }, models.Tags{"t": "a"}},
	{"uint-field", func() models.Fields { return models.Fields{"v": uint64(7), "f": float32(1), "s": []byte("x")} }, models.Tags{"t": "a"}},
}

func runData(x *core.Ctx) {
	node := dataNodes[x.Case.PInt("node", 0)]
	for _, bad := range badValues {
		sub := node.Name + " <- " + bad.Name
		if !x.Announce(sub) {
			continue
		}
		x.Count("evaluations", 1)
		runDataOne(x, node, bad, sub)
	}
}

var t0 = time.Unix(1600000000, 0).UTC()

func runDataOne(x *core.Ctx, node dataNode, bad badValue, sub string) {
	env, err := kit.NewEnv(kit.EnvOpts{Scratch: x.Scratch})
	if err != nil {
		x.Inconclusive("env: " + err.Error())
		return
	}
	defer env.Close()
	mk := func(task, m string) string {
		s := "stream|from().measurement('" + m + "')"
		s += node.Script
		return s + "|log().prefix('" + task + "')"
	}
	etA, err := env.StartStream("A", mk("A", "ma"), nil)
	if err != nil {
		x.Inconclusive("start A: " + err.Error() + " :: " + mk("A", "ma"))
		return
	}
	etB, err := env.StartStream("B", mk("B", "mb"), nil)
	if err != nil {
		x.Inconclusive("start B: " + err.Error())
		return
	}
	write := func(m string, f models.Fields, tg models.Tags, t time.Time) {
		env.TM.WriteKapacitorPoint(edge.NewPointMessage(m, "db", "rp", models.Dimensions{}, f, tg, t))
	}
	tm := t0
	// phase 1: good points to both
	for i := 0; i < 8; i++ {
		write("ma", good(i), models.Tags{"t": "a"}, tm)
		write("mb", good(i), models.Tags{"t": "a"}, tm)
		if node.Name == "combine" {
			write("ma", good(i), models.Tags{"t": "b"}, tm)
			write("mb", good(i), models.Tags{"t": "b"}, tm)
		}
		tm = tm.Add(time.Second)
	}
	// the bad point (only A)
	write("ma", bad.Fields(), bad.Tags, tm)
	write("mb", good(8), models.Tags{"t": "a"}, tm)
	tm = tm.Add(time.Second)
	t2 := tm
	// phase 2: good points again
	for i := 0; i < 12; i++ {
		write("ma", good(i+9), models.Tags{"t": "a"}, tm)
		write("mb", good(i+9), models.Tags{"t": "a"}, tm)
		if node.Name == "combine" {
			write("ma", good(i+9), models.Tags{"t": "b"}, tm)
			write("mb", good(i+9), models.Tags{"t": "b"}, tm)
		}
		tm = tm.Add(time.Second)
	}
	env.TM.Drain()
	errA, errB := etA.Wait(), etB.Wait()
	key := node.Name + " <- " + bad.Name
	if errA != nil {
		x.Violatef("task-killed-by-point", key, sub, "task A (%s) stopped with error after the bad point %v: %v", mk("A", "ma"), bad.Fields(), errA)
		return
	}
	if errB != nil {
		x.Violatef("other-task-affected", key, sub, "task B stopped with error: %v", errB)
		return
	}
	after := func(id string) int {
		n := 0
		for _, it := range env.Rec.Sink(id).Items() {
			if it.P != nil && !it.P.Time.Before(t2) {
				n++
			}
			if it.B != nil && !it.B.TMax.Before(t2) {
				n++
			}
		}
		return n
	}
	a2, b2 := after("A"), after("B")
	if b2 == 0 {
		x.Inconclusive("control task B produced no output after the bad point for " + node.Name)
		return
	}
	if a2 == 0 {
		x.Violatef("task-stopped-processing", key, sub, "task A (%s) produced nothing from the 12 good points after the bad point %v, the control task produced %d messages", mk("A", "ma"), bad.Fields(), b2)
		return
	}
	nerrB := 0
	for _, e := range env.Rec.Errors() {
		if e.Task == "B" {
			nerrB++
		}
	}
	if nerrB > 0 {
		x.Violatef("other-task-affected", key, sub, "task B reported %d errors although it only received good points", nerrB)
		return
	}
	x.Count("node_errors_reported_for_bad_points", int64(env.Rec.ErrorCount()))
	x.Nontrivial("data:" + key)
	x.SetAdd("node_x_bad", key)
}

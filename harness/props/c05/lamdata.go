package c05

import (
	"fmt"
	"time"

	"github.com/influxdata/kapacitor/edge"
	"github.com/influxdata/kapacitor/models"

	"verifharness/core"
	"verifharness/kit"
	"verifharness/props/c04"
)

// Sub-monitor e: hostile lambdas on the data plane. Every generated lambda runs inside a node
// of a real task; the points' field types drift and fields go missing. A panic in the node
// (task ends with an error) or a process death (stack overflow cannot be recovered) is a
// violation; a per-point error is the allowed outcome.
func runLambdaData(x *core.Ctx) {
	r := core.NewRng(x.Case.Seed, 66)
	for i := 0; i < x.Case.N; i++ {
		var script string
		depth := r.Range(1, 3)
		switch r.Intn(6) {
		case 0, 1:
			script = "stream|from().measurement('m')|where(lambda: " + c04.GenLambdaWild(r, "bool", depth) + ")"
		case 2:
			script = "stream|from().measurement('m')|eval(lambda: " + c04.GenLambdaWild(r, "any", depth) + ").as('r').keep()"
		case 3:
			script = "var l = lambda: " + c04.GenLambdaWild(r, "any", depth) + "\nstream|from().measurement('m')|where(lambda: l == l OR " + c04.GenLambdaWild(r, "bool", 1) + ")"
		case 4:
			script = "stream|from().measurement('m')|alert().crit(lambda: " + c04.GenLambdaWild(r, "bool", depth) + ").critReset(lambda: " + c04.GenLambdaWild(r, "bool", 1) + ").topic('t')"
		default:
			script = "stream|from().measurement('m').where(lambda: " + c04.GenLambdaWild(r, "bool", depth) + ")|stateCount(lambda: " + c04.GenLambdaWild(r, "bool", 1) + ")"
		}
		script += "|log().prefix('A')"
		if !x.Announce(script) {
			continue
		}
		x.Count("evaluations", 1)
		env, err := kit.NewEnv(kit.EnvOpts{Scratch: x.Scratch})
		if err != nil {
			x.Inconclusive(err.Error())
			return
		}
		et, err := env.StartStream("A", script, nil)
		if err != nil {
			env.Close()
			x.Count("lambda_scripts_rejected", 1)
			continue
		}
		tm := time.Unix(1600000000, 0).UTC()
		for k := 0; k < 6; k++ {
			sc := c04.RandScope(r, []float64{0, 0.3, 0.6}[k%3])
			fields := models.Fields{}
			tags := models.Tags{}
			for name, v := range sc {
				switch vv := v.(type) {
				case int64, float64, bool:
					fields[name] = vv
				case string:
					if r.Bool() {
						tags[name] = vv
					} else {
						fields[name] = vv
					}
				}
				// durations / missing values: the field is absent
			}
			if k == 2 {
				fields = models.Fields{"other": 1.0} // everything the lambda references is missing
			}
			env.TM.WriteKapacitorPoint(edge.NewPointMessage("m", "db", "rp", models.Dimensions{}, fields, tags, tm))
			tm = tm.Add(time.Second)
		}
		env.TM.Drain()
		done := make(chan error, 1)
		go func() { done <- et.Wait() }()
		select {
		case err := <-done:
			if err != nil {
				x.Violatef("task-killed-by-point", "lambda on the data plane killed the task: "+panicClass(clip(err.Error(), 90)), script, "script: %s\nerror: %s", script, clip(err.Error(), 1500))
			} else {
				x.Nontrivial("lamdata:" + script)
			}
		case <-time.After(30 * time.Second):
			x.Violatef("task-hang", "task with a hostile lambda did not finish after its input was closed", script, "script: %s", script)
		}
		env.Close()
		if x.NumViolations() > 60 {
			return
		}
	}
	x.Sample(map[string]interface{}{"kind": "lamdata", "scripts": x.Case.N})
}

var _ = fmt.Sprint

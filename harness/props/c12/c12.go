// Package c12: join and union results do not depend on how parent streams interleave.
//
// Every parent is a from() followed by a gated sink; the gates decide how the parents' messages
// reach the join/union node. One input is run under several forced schedules; every run's output
// is compared with a reference pairing model computed from the per-parent sequences alone.
package c12

import (
	"fmt"
	"sort"
	"strings"
	"sync"
	"time"

	"verifharness/core"
	"verifharness/kit"
)

type prop struct{}

func init() { core.Register(prop{}) }

func (prop) ID() string    { return "C12" }
func (prop) Level() string { return "exploration" }
func (prop) Rule() string {
	return "inputs: 2-3 parents (from().measurement(m_i).groupBy('g') [|window(aligned) for the batch form]) each followed by a gated sink, then join(as, tolerance 0|1s|2s, fill none|null|number, streamName, on('g') with a more specific parent) or union([rename]); per-parent time-ordered sequences of 20-120 points over 1-3 groups on a common time grid with jitter below half the tolerance, duplicates at one timestamp, gaps, a lagging parent, a parent silent for a group or altogether; 6-9 forced schedules per input: lock-step, each parent first entirely (that parent's edge also closes first), lead by 1/10/1 200 (> edge buffer), seeded random bursts; part of the runs under the race detector. " +
		"Oracle: reference pairing model - per group and tolerance-rounded time the k-th occurrences of the parents form one set; inner join emits the complete sets, outer join every set with the fill for the absent parents; fields '<as>.<field>', group tags, stream name (streamName or the name of the first present parent), time = rounded time; batch: batches pair by rounded batch time, their points by rounded time and occurrence. Output compared as a MULTISET with the reference for every schedule (hence identical across schedules), per group in non-decreasing time; union: every parent message exactly once, per-parent order kept, non-decreasing time overall; everything buffered is flushed when the parents end. " +
		"Non-trivial: an (input, schedule) whose reference has >= 5 outputs and whose schedule let one parent lead by >= 10 messages"
}
func (prop) Assumptions() []string {
	return []string{
		"schedules are forced at the parents' gates; the hand-over from a parent edge to the join/union node is concurrent, so neighbouring releases of different parents may still swap (the oracle does not depend on the order actually taken)",
		"all parents carry the same field set, so that the field names used for fills are unambiguous (documented limitation of fill)",
		"an empty joined batch (inner join with an absent parent batch) is not an output of the join: batches are compared by their joined points",
	}
}
func (prop) RaceAnchorFiles() []string {
	return []string{"join.go", "union.go", "edge/consumer.go", "circularqueue.go"}
}
func (prop) MinNontrivial(tier string) int {
	if tier == "thorough" {
		return 2500
	}
	return 120
}
func (prop) CaseTimeoutSec(string) int { return 240 }

func (prop) Cases(tier string, seed uint64) []core.Case {
	n, nr, per := 24, 6, 4
	if tier == "thorough" {
		n, nr, per = 300, 80, 12
	}
	var cs []core.Case
	for i := 0; i < n; i++ {
		k := []string{"join", "join", "union", "joinbatch", "joinon", "unionbatch"}[i%6]
		cs = append(cs, core.Case{ID: fmt.Sprintf("%s-%d", k, i), Kind: k, Seed: seed*1201 + uint64(i), N: per})
	}
	for i := 0; i < nr; i++ {
		k := []string{"join", "union", "joinbatch"}[i%3]
		cs = append(cs, core.Case{ID: fmt.Sprintf("race-%s-%d", k, i), Kind: k, Seed: seed*1213 + uint64(i), N: 2, Race: true})
	}
	return cs
}

var t0 = time.Unix(1600000000, 0).UTC()

type pt struct {
	parent int
	g, h   string
	t      time.Time
	v      int64 // unique value
}

type config struct {
	kind      string
	parents   int
	tol       time.Duration
	fill      string // "", "null", "7"
	stream    string // streamName
	rename    string
	window    time.Duration
	on        bool
	script    string
	names     []string
	measNames []string
}

func (prop) Run(x *core.Ctx) {
	r := core.NewRng(x.Case.Seed, 12)
	for i := 0; i < x.Case.N; i++ {
		runInput(x, r, x.Case.Kind)
		if x.NumViolations() > 40 {
			return
		}
	}
}

func genConfig(r *core.Rng, kind string) config {
	c := config{kind: kind, parents: r.Range(2, 3)}
	batch := strings.HasSuffix(kind, "batch")
	if kind == "joinon" {
		c.parents = 2
		c.on = true
	}
	c.tol = []time.Duration{0, time.Second, 2 * time.Second}[r.Intn(3)]
	if batch {
		c.window = time.Duration(r.Range(4, 8)) * time.Second
		if c.tol > 0 && c.window%c.tol != 0 {
			c.tol = time.Second
		}
	}
	var sb strings.Builder
	var vars []string
	for i := 0; i < c.parents; i++ {
		m := fmt.Sprintf("m%d", i)
		c.measNames = append(c.measNames, m)
		c.names = append(c.names, fmt.Sprintf("x%d", i))
		gb := ".groupBy('g')"
		if c.on && i == 0 {
			gb = ".groupBy('g', 'h')"
		}
		fmt.Fprintf(&sb, "var p%d = stream|from().measurement('%s')%s", i, m, gb)
		if batch {
			fmt.Fprintf(&sb, "|window().period(%ds).every(%ds).align()", int(c.window/time.Second), int(c.window/time.Second))
		}
		fmt.Fprintf(&sb, "|log().prefix('g%d')\n", i)
		vars = append(vars, fmt.Sprintf("p%d", i))
	}
	if strings.HasPrefix(kind, "join") {
		fmt.Fprintf(&sb, "p0|join(%s).as(%s)", strings.Join(vars[1:], ", "), "'"+strings.Join(c.names, "', '")+"'")
		if c.tol > 0 {
			fmt.Fprintf(&sb, ".tolerance(%ds)", int(c.tol/time.Second))
		}
		switch r.Intn(3) {
		case 1:
			c.fill = "null"
			sb.WriteString(".fill('null')")
		case 2:
			c.fill = "7"
			sb.WriteString(".fill(7)")
		}
		if r.Chance(0.4) {
			c.stream = "joined"
			sb.WriteString(".streamName('joined')")
		}
		if c.on {
			sb.WriteString(".on('g')")
		}
	} else {
		fmt.Fprintf(&sb, "p0|union(%s)", strings.Join(vars[1:], ", "))
		if r.Chance(0.4) {
			c.rename = "u"
			sb.WriteString(".rename('u')")
		}
	}
	sb.WriteString("|log().prefix('out')\n")
	c.script = sb.String()
	return c
}

func genInput(r *core.Rng, c config) [][]pt {
	ngroups := r.Range(1, 3)
	if c.kind == "unionbatch" {
		// window batches of different groups leave a parent out of time order; union requires
		// every parent to be time-ordered
		ngroups = 1
	}
	groups := []string{"a", "b", "c"}[:ngroups]
	steps := r.Range(20, 60)
	step := time.Second
	if c.tol > step {
		step = c.tol
	}
	var seqs [][]pt
	uniq := int64(0)
	silentParent := -1
	if r.Chance(0.1) {
		silentParent = r.Intn(c.parents)
	}
	for p := 0; p < c.parents; p++ {
		var s []pt
		silentGroup := ""
		if r.Chance(0.25) {
			silentGroup = groups[r.Intn(ngroups)]
		}
		gapFrom, gapTo := -1, -1
		if r.Chance(0.4) {
			gapFrom = r.Intn(steps)
			gapTo = gapFrom + r.Range(1, 10)
		}
		for k := 0; k < steps; k++ {
			if p == silentParent || (k >= gapFrom && k < gapTo) {
				continue
			}
			for _, g := range groups {
				if g == silentGroup || r.Chance(0.1) {
					continue
				}
				base := t0.Add(time.Duration(k) * step)
				n := 1
				if r.Chance(0.15) && !(c.on && p == 1) {
					// duplicates at one timestamp (join.on documents a SINGLE less specific point
					// joining several specific ones: no duplicates on that side)
					n = r.Range(2, 3)
				}
				for d := 0; d < n; d++ {
					t := base
					if c.tol > 0 {
						// jitter strictly inside the rounding interval, non-decreasing within the group
						t = base.Add(time.Duration(d) * c.tol / 10).Add(time.Duration(r.Intn(int(c.tol/5))) - c.tol/10)
						if t.Before(base.Add(-c.tol/2 + 1)) {
							t = base
						}
					}
					uniq++
					q := pt{parent: p, g: g, t: t, v: uniq}
					if c.on && p == 0 {
						q.h = r.Pick([]string{"h1", "h2"})
					}
					s = append(s, q)
				}
			}
		}
		// time order per parent (stable: keeps the generation order for equal times)
		sort.SliceStable(s, func(i, j int) bool { return s[i].t.Before(s[j].t) })
		seqs = append(seqs, s)
	}
	return seqs
}

type schedule struct {
	name string
	// plan: list of (parent, count) releases; after the plan everything is opened
	plan  [][2]int
	first int // parent whose edge closes first (-1: none forced)
}

func schedules(r *core.Rng, c config, lens []int) []schedule {
	var out []schedule
	out = append(out, schedule{name: "free", first: -1})
	// lock-step
	var ls [][2]int
	mx := 0
	for _, l := range lens {
		if l > mx {
			mx = l
		}
	}
	for i := 0; i < mx; i++ {
		for p := range lens {
			ls = append(ls, [2]int{p, 1})
		}
	}
	out = append(out, schedule{name: "lock-step", plan: ls, first: -1})
	for p := range lens {
		out = append(out, schedule{name: fmt.Sprintf("parent-%d-first-entirely", p), plan: [][2]int{{p, 1 << 30}}, first: p})
	}
	for _, k := range []int{1, 10, 1200} {
		p := r.Intn(len(lens))
		var pl [][2]int
		pl = append(pl, [2]int{p, k})
		for i := 0; i < mx; i++ {
			for q := range lens {
				pl = append(pl, [2]int{q, 1})
			}
		}
		out = append(out, schedule{name: fmt.Sprintf("parent-%d-leads-by-%d", p, k), plan: pl, first: -1})
	}
	for s := 0; s < 2; s++ {
		var pl [][2]int
		for i := 0; i < 3*mx; i++ {
			pl = append(pl, [2]int{r.Intn(len(lens)), r.Range(1, 15)})
		}
		out = append(out, schedule{name: fmt.Sprintf("random-bursts-%d", s), plan: pl, first: -1})
	}
	return out
}

func runInput(x *core.Ctx, r *core.Rng, kind string) {
	c := genConfig(r, kind)
	seqs := genInput(r, c)
	batch := c.window > 0
	scheds := schedules(r, c, lensOf(seqs))
	var baseline []string
	baselineName := ""
	for _, sc := range scheds {
		sub := fmt.Sprintf("%s schedule=%s\n%s", kind, sc.name, c.script)
		if !x.Announce(sub) {
			continue
		}
		x.Count("evaluations", 1)
		x.SetAdd("schedules", strings.Split(sc.name, "-by-")[0])
		got, parents, gates, lead, ok := runSchedule(x, c, seqs, sc)
		if !ok {
			return
		}
		exp := reference(c, parents)
		fail := func(kind, key, format string, a ...interface{}) {
			x.Violatef(kind, key, sub, "%s\nschedule %s; per-parent messages at the gates %v; largest lead observed %d\n%s", fmt.Sprintf(format, a...), sc.name, gates, lead, c.script)
		}
		x.MaxCount("lead_messages", int64(lead))
		gotKeys := canonOut(c, got, batch)
		x.Count("outputs_compared", int64(len(gotKeys)))
		if d := multisetDiff(exp.keys, gotKeys); d != "" {
			fail("join-union-output", fmt.Sprintf("%s: output multiset differs from the pairing model (%s)", kindLabel(c), diffClass(d)), "%s\nexpected %d outputs, observed %d", d, len(exp.keys), len(gotKeys))
			continue
		}
		// the same input under another schedule must give the same multiset
		if baseline == nil {
			baseline, baselineName = gotKeys, sc.name
		} else if d := multisetDiff(baseline, gotKeys); d != "" {
			fail("join-union-schedule-dependent", fmt.Sprintf("%s: output depends on the schedule (%s)", kindLabel(c), diffClass(d)), "compared with schedule %s: %s", baselineName, d)
			continue
		}
		if d := orderCheck(c, got, batch, seqs); d != "" {
			fail("join-union-order", kindLabel(c)+": "+diffClass(d), "%s", d)
			continue
		}
		if len(exp.keys) >= 5 && lead >= 10 {
			x.Nontrivial(fmt.Sprintf("%s|%s|tol=%v|fill=%s|%d", kindLabel(c), strings.Split(sc.name, "-by-")[0], c.tol, c.fill, len(exp.keys)/20))
		}
	}
}

func kindLabel(c config) string {
	l := c.kind
	if strings.HasPrefix(c.kind, "join") {
		if c.fill == "" {
			l += "/inner"
		} else {
			l += "/outer"
		}
	}
	return fmt.Sprintf("%s/%dparents", l, c.parents)
}

func lensOf(seqs [][]pt) []int {
	var o []int
	for _, s := range seqs {
		o = append(o, len(s))
	}
	return o
}

// runSchedule runs the task once, releasing the parents' messages according to the plan.
func runSchedule(x *core.Ctx, c config, seqs [][]pt, sc schedule) (out []kit.Item, parents [][]kit.Item, gateCounts []int, maxLead int, ok bool) {
	env, err := kit.NewEnv(kit.EnvOpts{Scratch: x.Scratch, NoAlert: true})
	if err != nil {
		x.Inconclusive(err.Error())
		return nil, nil, nil, 0, false
	}
	defer env.Close()
	gates := make([]*kit.Sink, c.parents)
	for p := range gates {
		gates[p] = env.Rec.Sink(fmt.Sprintf("g%d", p))
		if sc.name != "free" {
			gates[p].CloseGate()
		}
	}
	et, err := env.StartStream("T", c.script, nil)
	if err != nil {
		x.Violatef("valid-task-rejected", "valid task rejected: "+firstWords(err.Error(), 6), c.script, "%v\n%s", err, c.script)
		return nil, nil, nil, 0, false
	}
	// merge the parents' sequences by time for writing (the ingest order does not matter: every
	// parent has its own gate)
	var all []pt
	for _, s := range seqs {
		all = append(all, s...)
	}
	sort.SliceStable(all, func(i, j int) bool { return all[i].t.Before(all[j].t) })
	wdone := make(chan struct{})
	go func() {
		defer close(wdone)
		for _, p := range all {
			tags := map[string]string{"g": p.g}
			if p.h != "" {
				tags["h"] = p.h
			}
			env.Write(kit.Point(fmt.Sprintf("m%d", p.parent), tags, map[string]interface{}{"v": p.v, "w": float64(p.parent)}, p.t))
		}
		// the batch form needs one more point per parent and group to close the last window
		if c.window > 0 && len(all) > 0 {
			last := all[len(all)-1].t.Add(3 * c.window)
			for p := 0; p < c.parents; p++ {
				for _, g := range sentinelGroups(c) {
					tags := map[string]string{"g": g}
					if c.on && p == 0 {
						for _, h := range []string{"h1", "h2"} {
							env.Write(kit.Point(fmt.Sprintf("m%d", p), map[string]string{"g": g, "h": h}, map[string]interface{}{"v": int64(-1), "w": 0.0}, last))
						}
						continue
					}
					env.Write(kit.Point(fmt.Sprintf("m%d", p), tags, map[string]interface{}{"v": int64(-1), "w": 0.0}, last))
				}
			}
		}
	}()
	drained := make(chan struct{})
	go func() {
		<-wdone
		env.TM.Drain()
		close(drained)
	}()
	// follow the plan
	var leadMu sync.Mutex
	passed := func(p int) int { return gates[p].Len() }
	updateLead := func() {
		leadMu.Lock()
		mn, mx := 1<<30, 0
		for p := range gates {
			n := passed(p)
			if n < mn {
				mn = n
			}
			if n > mx {
				mx = n
			}
		}
		if mx-mn > maxLead {
			maxLead = mx - mn
		}
		leadMu.Unlock()
	}
	if sc.name != "free" {
		for _, st := range sc.plan {
			p, n := st[0], st[1]
			before := passed(p)
			if n >= 1<<30 {
				// this parent entirely: open its gate and wait until it stops growing after the writes ended
				gates[p].OpenGate()
				<-wdone
				waitStable(gates[p])
				updateLead()
				if sc.first == p {
					// let its edge close before the others move: Drain runs in the background
					time.Sleep(2 * time.Millisecond)
				}
				continue
			}
			gates[p].Allow(n)
			// wait (bounded) until they passed or nothing more is coming
			deadline := time.Now().Add(20 * time.Millisecond)
			for passed(p) < before+n && time.Now().Before(deadline) {
				select {
				case <-wdone:
					if !gates[p].WaitBlocked(200 * time.Microsecond) {
						deadline = time.Now()
					}
				default:
				}
				time.Sleep(20 * time.Microsecond)
			}
			updateLead()
		}
	}
	for _, g := range gates {
		g.OpenGate()
	}
	select {
	case <-drained:
	case <-time.After(60 * time.Second):
		x.Inconclusive("drain did not finish within 60 s")
		return nil, nil, nil, 0, false
	}
	werr := make(chan error, 1)
	go func() { werr <- et.Wait() }()
	select {
	case err := <-werr:
		if err != nil {
			x.Violatef("task-died", "join/union task ended with an error: "+firstWords(err.Error(), 8), c.script, "%v\n%s", err, c.script)
			return nil, nil, nil, 0, false
		}
	case <-time.After(60 * time.Second):
		x.Violatef("task-hangs", kindLabel(c)+": the task does not finish after all parents ended", c.script, "schedule %s\n%s", sc.name, c.script)
		return nil, nil, nil, 0, false
	}
	for p := range gates {
		gateCounts = append(gateCounts, gates[p].Len())
		parents = append(parents, gates[p].Items())
	}
	if sc.name == "free" {
		maxLead = 0
	}
	return env.Rec.Sink("out").Items(), parents, gateCounts, maxLead, true
}

func sentinelGroups(c config) []string {
	if c.kind == "unionbatch" {
		return []string{"a"}
	}
	return []string{"a", "b", "c"}
}

func waitStable(s *kit.Sink) {
	last, lastT := -1, time.Now()
	for time.Since(lastT) < 3*time.Millisecond {
		if l := s.Len(); l != last {
			last, lastT = l, time.Now()
		}
		time.Sleep(100 * time.Microsecond)
	}
}

// ---- reference ------------------------------------------------------------------------------

type expectation struct{ keys []string }

func round(t time.Time, tol time.Duration) time.Time { return t.Round(tol) }

func fieldsKey(f map[string]interface{}) string {
	ks := make([]string, 0, len(f))
	for k := range f {
		ks = append(ks, k)
	}
	sort.Strings(ks)
	var o []string
	for _, k := range ks {
		o = append(o, fmt.Sprintf("%s=%T:%v", k, f[k], f[k]))
	}
	return strings.Join(o, " ")
}

func tagsKey(t map[string]string) string {
	ks := make([]string, 0, len(t))
	for k := range t {
		ks = append(ks, k)
	}
	sort.Strings(ks)
	var o []string
	for _, k := range ks {
		o = append(o, k+"="+t[k])
	}
	return strings.Join(o, ",")
}

func tfmt(t time.Time) string { return t.UTC().Format("15:04:05.000000") }

// groupTags: the tags of a message restricted to its dimensions (what a joined message carries).
func groupTags(tags map[string]string, dims []string) map[string]string {
	o := map[string]string{}
	for _, d := range dims {
		o[d] = tags[d]
	}
	return o
}

func prefixed(c config, p int, f map[string]interface{}) map[string]interface{} {
	o := map[string]interface{}{}
	for k, v := range f {
		o[c.names[p]+"."+k] = v
	}
	return o
}

func fillFor(c config, p int, names []string, into map[string]interface{}) {
	for _, k := range names {
		switch c.fill {
		case "null":
			into[c.names[p]+"."+k] = nil
		case "7":
			into[c.names[p]+"."+k] = int64(7)
		}
	}
}

func fieldNames(f map[string]interface{}) []string {
	var o []string
	for k := range f {
		o = append(o, k)
	}
	return o
}

// reference computes the expected multiset of output keys from what the parents delivered.
func reference(c config, parents [][]kit.Item) expectation {
	var e expectation
	if strings.HasPrefix(c.kind, "union") {
		for _, items := range parents {
			for _, it := range items {
				if it.P != nil {
					name := it.P.Name
					if c.rename != "" {
						name = c.rename
					}
					e.keys = append(e.keys, fmt.Sprintf("%s|%s|%s|%s", name, tagsKey(it.P.Tags), tfmt(it.P.Time), fieldsKey(it.P.Fields)))
					continue
				}
				name := it.B.Name
				if c.rename != "" {
					name = c.rename
				}
				if len(it.B.Points) == 0 {
					e.keys = append(e.keys, fmt.Sprintf("%s|%s|tmax=%s|<empty>", name, tagsKey(it.B.Tags), tfmt(it.B.TMax)))
				}
				for _, q := range it.B.Points {
					e.keys = append(e.keys, fmt.Sprintf("%s|%s|tmax=%s|%s|%s", name, tagsKey(it.B.Tags), tfmt(it.B.TMax), tfmt(q.Time), fieldsKey(q.Fields)))
				}
			}
		}
		return e
	}
	type setKey struct {
		group string
		t     time.Time
	}
	type member struct {
		p    *kit.P
		b    *kit.B
		tags map[string]string // tags the joined message carries if this member is the first
	}
	occ := map[setKey][][]member{}
	var order []setKey
	add := func(k setKey, p int, m member) {
		if _, ok := occ[k]; !ok {
			occ[k] = make([][]member, c.parents)
			order = append(order, k)
		}
		occ[k][p] = append(occ[k][p], m)
	}
	if !c.on {
		for p, items := range parents {
			for _, it := range items {
				if it.P != nil {
					add(setKey{it.P.Group, round(it.P.Time, c.tol)}, p, member{p: it.P, tags: groupTags(it.P.Tags, it.P.Dims)})
				} else {
					add(setKey{it.B.Group, round(it.B.TMax, c.tol)}, p, member{b: it.B, tags: it.B.Tags})
				}
			}
		}
	} else {
		// parent 0 is grouped more specifically (g,h) than the join dimension g, parent 1 by g:
		// every specific point takes a copy of the parent-1 point(s) of its g and rounded time
		// along into its own group; a specific point without a match goes alone.
		type gk struct {
			g string
			t time.Time
		}
		less := map[gk][]*kit.P{}
		for _, it := range parents[1] {
			if it.P != nil {
				k := gk{it.P.Tags["g"], round(it.P.Time, c.tol)}
				less[k] = append(less[k], it.P)
			}
		}
		for _, it := range parents[0] {
			if it.P == nil {
				continue
			}
			sk := setKey{it.P.Group, round(it.P.Time, c.tol)}
			tg := groupTags(it.P.Tags, it.P.Dims)
			add(sk, 0, member{p: it.P, tags: tg})
			for _, m := range less[gk{it.P.Tags["g"], sk.t}] {
				add(sk, 1, member{p: m, tags: tg})
			}
		}
	}
	for _, k := range order {
		lists := occ[k]
		mx := 0
		for _, l := range lists {
			if len(l) > mx {
				mx = len(l)
			}
		}
		for i := 0; i < mx; i++ {
			first := -1
			for p := 0; p < c.parents; p++ {
				if i < len(lists[p]) {
					first = p
					break
				}
			}
			fm := lists[first][i]
			name := c.stream
			if fm.p != nil {
				if name == "" {
					name = fm.p.Name
				}
				f := map[string]interface{}{}
				complete := true
				for p := 0; p < c.parents; p++ {
					if i < len(lists[p]) {
						for kk, v := range prefixed(c, p, lists[p][i].p.Fields) {
							f[kk] = v
						}
					} else {
						complete = false
						fillFor(c, p, fieldNames(fm.p.Fields), f)
					}
				}
				if !complete && c.fill == "" {
					continue
				}
				e.keys = append(e.keys, fmt.Sprintf("%s|%s|%s|%s", name, tagsKey(fm.tags), tfmt(k.t), fieldsKey(f)))
				continue
			}
			// batches: pair the points by rounded time and occurrence
			if name == "" {
				name = fm.b.Name
			}
			pocc := map[time.Time][][]kit.BP{}
			var times []time.Time
			var names []string
			for p := 0; p < c.parents; p++ {
				if i >= len(lists[p]) {
					continue
				}
				for _, q := range lists[p][i].b.Points {
					rt := round(q.Time, c.tol)
					if pocc[rt] == nil {
						pocc[rt] = make([][]kit.BP, c.parents)
						times = append(times, rt)
					}
					pocc[rt][p] = append(pocc[rt][p], q)
					if names == nil {
						names = fieldNames(q.Fields)
					}
				}
			}
			for _, rt := range times {
				pl := pocc[rt]
				m2 := 0
				for _, l := range pl {
					if len(l) > m2 {
						m2 = len(l)
					}
				}
				for j := 0; j < m2; j++ {
					f := map[string]interface{}{}
					complete := true
					for p := 0; p < c.parents; p++ {
						if j < len(pl[p]) {
							for kk, v := range prefixed(c, p, pl[p][j].Fields) {
								f[kk] = v
							}
						} else {
							complete = false
							fillFor(c, p, names, f)
						}
					}
					if !complete && c.fill == "" {
						continue
					}
					e.keys = append(e.keys, fmt.Sprintf("%s|%s|tmax=%s|%s|%s", name, tagsKey(fm.tags), tfmt(k.t), tfmt(rt), fieldsKey(f)))
				}
			}
		}
	}
	return e
}

// canonOut renders the observed outputs in the key format of the reference.
func canonOut(c config, items []kit.Item, batch bool) []string {
	var o []string
	union := strings.HasPrefix(c.kind, "union")
	for _, it := range items {
		if it.P != nil {
			p := it.P
			o = append(o, fmt.Sprintf("%s|%s|%s|%s", p.Name, tagsKey(p.Tags), tfmt(p.Time), fieldsKey(p.Fields)))
			continue
		}
		b := it.B
		if union && len(b.Points) == 0 {
			o = append(o, fmt.Sprintf("%s|%s|tmax=%s|<empty>", b.Name, tagsKey(b.Tags), tfmt(b.TMax)))
		}
		for _, q := range b.Points {
			o = append(o, fmt.Sprintf("%s|%s|tmax=%s|%s|%s", b.Name, tagsKey(b.Tags), tfmt(b.TMax), tfmt(q.Time), fieldsKey(q.Fields)))
		}
	}
	return o
}

func multisetDiff(exp, got []string) string {
	cnt := map[string]int{}
	for _, k := range exp {
		cnt[k]++
	}
	for _, k := range got {
		cnt[k]--
	}
	var missing, extra []string
	for k, n := range cnt {
		for ; n > 0; n-- {
			missing = append(missing, k)
		}
		for ; n < 0; n++ {
			extra = append(extra, k)
		}
	}
	if len(missing) == 0 && len(extra) == 0 {
		return ""
	}
	sort.Strings(missing)
	sort.Strings(extra)
	d := fmt.Sprintf("%d expected outputs missing, %d unexpected outputs", len(missing), len(extra))
	if len(missing) > 0 {
		d += "\n  first missing:    " + missing[0]
	}
	if len(extra) > 0 {
		d += "\n  first unexpected: " + extra[0]
	}
	return d
}

func diffClass(d string) string {
	if i := strings.Index(d, "\n"); i > 0 {
		d = d[:i]
	}
	var b strings.Builder
	for _, ch := range d {
		if ch >= '0' && ch <= '9' {
			b.WriteByte('#')
		} else {
			b.WriteRune(ch)
		}
	}
	s := b.String()
	for strings.Contains(s, "##") {
		s = strings.ReplaceAll(s, "##", "#")
	}
	// keep whether something is missing / extra
	s = strings.ReplaceAll(s, "# expected outputs missing", "N missing")
	s = strings.ReplaceAll(s, "# unexpected outputs", "M unexpected")
	return s
}

// orderCheck: per group non-decreasing time; union: per-parent order kept and non-decreasing time overall.
func orderCheck(c config, items []kit.Item, batch bool, seqs [][]pt) string {
	last := map[string]time.Time{}
	var lastAll time.Time
	lastV := map[string]int64{}
	for i, it := range items {
		var g string
		var t time.Time
		if it.P != nil {
			g, t = it.P.Group, it.P.Time
		} else {
			g, t = it.B.Group, it.B.TMax
		}
		if l, ok := last[g]; ok && t.Before(l) {
			return fmt.Sprintf("output %d of group %q goes back in time (%s after %s)", i, g, tfmt(t), tfmt(l))
		}
		last[g] = t
		if strings.HasPrefix(c.kind, "union") {
			if t.Before(lastAll) {
				return fmt.Sprintf("union output %d goes back in time overall (%s after %s)", i, tfmt(t), tfmt(lastAll))
			}
			lastAll = t
			if it.P != nil {
				// per parent and group order: unique values grow with the generation order within a parent
				w := fmt.Sprintf("%v/%s", it.P.Fields["w"], it.P.Tags["g"])
				v, _ := it.P.Fields["v"].(int64)
				if v >= 0 {
					if lv, ok := lastV[w]; ok && sameTimeOrLater(seqs, lv, v) == false {
						return fmt.Sprintf("union output %d: parent order not kept (value %d after %d)", i, v, lv)
					}
					lastV[w] = v
				}
			}
		}
	}
	return ""
}

// sameTimeOrLater: value b does not precede value a in its parent's sequence.
func sameTimeOrLater(seqs [][]pt, a, b int64) bool {
	for _, s := range seqs {
		ia, ib := -1, -1
		for i, q := range s {
			if q.v == a {
				ia = i
			}
			if q.v == b {
				ib = i
			}
		}
		if ia >= 0 && ib >= 0 {
			return ib > ia
		}
	}
	return true
}

func firstWords(s string, n int) string {
	w := strings.Fields(s)
	if len(w) > n {
		w = w[:n]
	}
	return strings.Join(w, " ")
}

// Package c13: formatting and re-serialising a TICKscript never changes the task it defines.
package c13

import (
	"bytes"
	"encoding/json"
	"fmt"
	"strings"

	"github.com/influxdata/kapacitor"
	"github.com/influxdata/kapacitor/pipeline"
	ptick "github.com/influxdata/kapacitor/pipeline/tick"
	"github.com/influxdata/kapacitor/tick"
	"github.com/influxdata/kapacitor/tick/ast"
	"github.com/influxdata/kapacitor/tick/stateful"

	"verifharness/core"
	"verifharness/kit"
	"verifharness/props/c04"
)

type prop struct{}

func init() { core.Register(prop{}) }

func (prop) ID() string    { return "C13" }
func (prop) Level() string { return "exploration" }
func (prop) Rule() string {
	return "program: grammar-based generator over a catalogue of the real node API (~45 node kinds with their property methods and typed arguments), 1-8 statements, var declarations of every literal kind (incl. lambda and list vars), dbrp statements, comments in the positions the grammar allows, single/triple quoted strings with quotes/backslashes/newlines, every duration unit, ints with leading zeros, floats, regex with escaped '/', nested lambdas with redundant parentheses and unary chains; scripts the real CreatePipeline rejects are counted and skipped. " +
		"Oracles: P=pipeline(src), F=Format(src): F defines a pipeline with identical JSON and DOT and an Equal AST; Format is stable after at most one further pass; pipeline -> TICKscript (pipeline/tick) -> pipeline has identical JSON/DOT; pipeline JSON -> Unmarshal -> JSON identical; AST JSON round trip Equal and formats identically. lambda: Format/Parse and JSON round trips are Equal AND evaluate identically on 12 random scopes. " +
		"Non-trivial (distinct source text hash): accepted by CreatePipeline with >=3 nodes / a lambda with >=1 operator that evaluated to a value on some scope"
}
func (prop) Assumptions() []string {
	return []string{
		"scripts are judged only when the real front end accepts them (the generator's catalogue may offer arguments the node API rejects)",
		"pipeline -> TICKscript is judged for the node kinds pipeline/tick supports; an explicit conversion error is counted, not judged",
		"UDF nodes, Flux queries and autoscale nodes are not generated",
	}
}
func (prop) MinNontrivial(tier string) int {
	if tier == "thorough" {
		return 60000
	}
	return 3000
}

func (prop) Cases(tier string, seed uint64) []core.Case {
	var cs []core.Case
	np, nl, per := 32, 16, 150
	if tier == "thorough" {
		np, nl, per = 480, 240, 400
	}
	for i := 0; i < np; i++ {
		cs = append(cs, core.Case{ID: fmt.Sprintf("prog-%d", i), Kind: "prog", Seed: seed*601 + uint64(i), N: per, Params: map[string]interface{}{"emptyargs": i%8 == 7}})
	}
	for i := 0; i < nl; i++ {
		cs = append(cs, core.Case{ID: fmt.Sprintf("lambda-%d", i), Kind: "lambda", Seed: seed*607 + uint64(i), N: per * 4})
	}
	return cs
}

// ---- catalogue ----------------------------------------------------------------------------------

type ak int

const (
	aS     ak = iota // string
	aD               // duration
	aI               // int
	aF               // float
	aL               // lambda
	aSL              // 1-3 strings
	aN               // number
	aLit             // any literal
	aStar            // *
	aOptD            // optional duration
	aLL              // 2 lambdas
	aS2              // exactly 2 strings
	aQ               // influxql query string
	aTimeD           // time(duration) function for groupBy
)

type pspec struct {
	name string
	args []ak
}
type nspec struct {
	name  string
	args  []ak
	props []pspec
	in    string // "S", "B", "*"
	out   string // "S", "B", "="
}

func p(name string, args ...ak) pspec { return pspec{name, args} }

var aggProps = []pspec{p("as", aS), p("usePointTimes")}

var chainNodes = []nspec{
	{"window", nil, []pspec{p("period", aD), p("every", aD), p("align"), p("fillPeriod")}, "S", "B"},
	{"window", nil, []pspec{p("periodCount", aI), p("everyCount", aI), p("fillPeriod")}, "S", "B"},
	{"where", []ak{aL}, nil, "*", "="},
	{"eval", []ak{aL}, []pspec{p("as", aS), p("keep"), p("quiet"), p("tags", aS)}, "*", "="},
	{"eval", []ak{aLL}, []pspec{p("as", aS2), p("keep", aSL), p("quiet")}, "*", "="},
	{"default", nil, []pspec{p("field", aS, aLit), p("tag", aS, aS)}, "*", "="},
	{"delete", nil, []pspec{p("field", aS), p("tag", aS)}, "*", "="},
	{"shift", []ak{aD}, nil, "*", "="},
	{"sample", []ak{aI}, nil, "*", "="},
	{"sample", []ak{aD}, nil, "*", "="},
	{"derivative", []ak{aS}, []pspec{p("unit", aD), p("nonNegative"), p("as", aS)}, "*", "="},
	{"changeDetect", []ak{aSL}, nil, "*", "="},
	{"stateCount", []ak{aL}, []pspec{p("as", aS)}, "*", "="},
	{"stateDuration", []ak{aL}, []pspec{p("unit", aD), p("as", aS)}, "*", "="},
	{"flatten", nil, []pspec{p("on", aSL), p("delimiter", aS), p("tolerance", aD), p("dropOriginalFieldName")}, "*", "="},
	{"combine", []ak{aLL}, []pspec{p("as", aS2), p("delimiter", aS), p("tolerance", aD), p("max", aI)}, "*", "S"}, // combine always provides a stream
	{"groupBy", []ak{aSL}, []pspec{p("exclude", aSL), p("byMeasurement")}, "*", "="},
	{"groupBy", []ak{aStar}, []pspec{p("exclude", aSL)}, "*", "="},
	{"mean", []ak{aS}, aggProps, "*", "S"},
	{"count", []ak{aS}, aggProps, "*", "S"},
	{"sum", []ak{aS}, aggProps, "*", "S"},
	{"median", []ak{aS}, aggProps, "*", "S"},
	{"mode", []ak{aS}, aggProps, "*", "S"},
	{"min", []ak{aS}, aggProps, "*", "S"},
	{"max", []ak{aS}, aggProps, "*", "S"},
	{"first", []ak{aS}, aggProps, "*", "S"},
	{"last", []ak{aS}, aggProps, "*", "S"},
	{"spread", []ak{aS}, aggProps, "*", "S"},
	{"stddev", []ak{aS}, aggProps, "*", "S"},
	{"distinct", []ak{aS}, aggProps, "*", "B"},
	{"percentile", []ak{aS, aF}, aggProps, "*", "S"},
	{"top", []ak{aI, aS, aSL}, aggProps, "*", "B"},
	{"bottom", []ak{aI, aS}, aggProps, "*", "B"},
	{"elapsed", []ak{aS, aD}, aggProps, "*", "="},
	{"difference", []ak{aS}, aggProps, "*", "="},
	{"movingAverage", []ak{aS, aI}, aggProps, "*", "="},
	{"cumulativeSum", []ak{aS}, aggProps, "*", "="},
	{"holtWinters", []ak{aS, aI, aI, aD}, aggProps, "*", "B"},
	{"alert", nil, []pspec{p("id", aS), p("message", aS), p("details", aS), p("info", aL), p("warn", aL), p("crit", aL), p("infoReset", aL), p("warnReset", aL), p("critReset", aL),
		p("stateChangesOnly", aOptD), p("noRecoveries"), p("all"), p("history", aI), p("flapping", aF, aF), p("topic", aS), p("levelTag", aS), p("levelField", aS), p("idTag", aS), p("idField", aS),
		p("durationField", aS), p("messageField", aS), p("log", aS), p("tcp", aS), p("email", aSL), p("exec", aSL), p("category", aS), p("inhibit", aS, aSL), p("post", aS)}, "*", "="},
	{"log", nil, []pspec{p("level", aS), p("prefix", aS)}, "*", "="},
	{"httpOut", []ak{aS}, nil, "*", "="},
	{"httpPost", []ak{aS}, []pspec{p("header", aS, aS), p("codeField", aS), p("captureResponse"), p("timeout", aD)}, "*", "="},
	{"influxDBOut", nil, []pspec{p("database", aS), p("retentionPolicy", aS), p("measurement", aS), p("precision", aS), p("buffer", aI), p("flushInterval", aD), p("tag", aS, aS), p("create"), p("cluster", aS), p("writeConsistency", aS)}, "*", "-"},
	{"kapacitorLoopback", nil, []pspec{p("database", aS), p("retentionPolicy", aS), p("measurement", aS), p("tag", aS, aS)}, "*", "-"},
	{"barrier", nil, []pspec{p("idle", aD), p("delete", aLit)}, "*", "="},
	{"barrier", nil, []pspec{p("period", aD)}, "*", "="},
	{"stats", []ak{aD}, []pspec{p("align")}, "*", "S"},
	{"deadman", []ak{aF, aD}, nil, "*", "S"}, // (stats|derivative|alert: a stream edge whatever the input)
	{"sideload", nil, []pspec{p("source", aS), p("order", aSL), p("field", aS, aLit), p("tag", aS, aS)}, "*", "="},
	{"trickle", nil, nil, "B", "S"},
}

var fromProps = []pspec{p("measurement", aS), p("database", aS), p("retentionPolicy", aS), p("where", aL), p("groupBy", aSL), p("groupBy", aStar), p("groupByMeasurement"), p("round", aD), p("truncate", aD)}
var queryProps = []pspec{p("period", aD), p("every", aD), p("align"), p("cron", aS), p("offset", aD), p("groupBy", aTimeD, aSL), p("groupBy", aSL), p("fill", aLit), p("cluster", aS), p("alignGroup")}

// ---- text generation ----------------------------------------------------------------------------

type pg struct {
	emptyArgs bool // profile: zero-valued arguments ('', 0, 0s) allowed (known renderer limitation)
	r         *core.Rng
	vars      map[ak][]string // declared variable names by kind
	decl      []string
	nv        int
	reVars    []string // declared regex variables (referenced by name inside lambdas)
}

var strPool = []string{"'cpu'", "'usage_idle'", "'host'", "'a b'", "'it\\'s'", "'back\\\\slash'", "'q\"q'", "'''triple 'quoted' text'''", "'''multi\nline'''", "'é✓'", "'{{ .ID }} is {{ .Level }}'", "'x,y=z'", "'/tmp/a.log'", "'%'", "'a\\b'", "'tab\there'"}
var durPool = []string{"10s", "5m", "1h", "100ms", "15u", "20µs", "2d", "1w", "90m", "1500ms", "3ns"}
var intPool = []string{"1", "2", "5", "10", "100", "007", "21", "3"}
var floatPool = []string{"1.0", "0.5", "95.0", "0.25", "10.75", "100.0", "3.14159"}
var rePool = []string{"/abc/", "/^a.*z$/", "/a\\/b/", "/[0-9]+/", "/\\./", "/^\\/var\\/log\\//", "/\\/$/"}

func (g *pg) lit(k ak) string {
	r := g.r
	// sometimes use a declared variable of that kind
	if vs := g.vars[k]; len(vs) > 0 && r.Chance(0.25) {
		return vs[r.Intn(len(vs))]
	}
	switch k {
	case aS:
		if g.emptyArgs && r.Chance(0.3) {
			return "''"
		}
		return strPool[r.Intn(len(strPool))]
	case aD:
		if g.emptyArgs && r.Chance(0.2) {
			return "0s"
		}
		return durPool[r.Intn(len(durPool))]
	case aI:
		if g.emptyArgs && r.Chance(0.2) {
			return "0"
		}
		if r.Chance(0.1) {
			return "-" + intPool[r.Intn(4)]
		}
		return intPool[r.Intn(len(intPool))]
	case aF:
		return floatPool[r.Intn(len(floatPool))]
	case aN:
		if r.Bool() {
			return g.lit(aI)
		}
		return g.lit(aF)
	case aL:
		return "lambda: " + g.lambda()
	case aLit:
		return g.lit([]ak{aS, aD, aI, aF, aS}[r.Intn(5)])
	case aStar:
		return "*"
	}
	return "1"
}

func (g *pg) lambda() string {
	r := g.r
	kind := "bool"
	if r.Chance(0.3) {
		kind = []string{"int", "float", "string", "any"}[r.Intn(4)]
	}
	s := c04.GenLambda(r, kind, r.Range(1, 3), r.Chance(0.2))
	// the c04 generator uses "f1".. names as field references, fine for a pipeline too
	if r.Chance(0.15) {
		s = "(" + s + ")"
	}
	if r.Chance(0.1) && len(g.vars[aF]) > 0 {
		s = s + " AND \"f1\" > " + g.vars[aF][0]
	}
	if kind == "bool" && len(g.reVars) > 0 && r.Chance(0.5) {
		// a regex declared as a variable and referenced by name
		s = "(" + s + ") " + r.Pick([]string{"AND", "OR"}) + " \"s1\" " + r.Pick([]string{"=~", "!~"}) + " " + g.reVars[r.Intn(len(g.reVars))]
	}
	return s
}

func (g *pg) args(kinds []ak) string {
	var parts []string
	for _, k := range kinds {
		switch k {
		case aSL:
			n := g.r.Range(1, 3)
			for i := 0; i < n; i++ {
				parts = append(parts, g.lit(aS))
			}
		case aS2:
			parts = append(parts, g.lit(aS), g.lit(aS))
		case aLL:
			parts = append(parts, g.lit(aL), g.lit(aL))
		case aOptD:
			if g.r.Bool() {
				parts = append(parts, g.lit(aD))
			}
		case aTimeD:
			parts = append(parts, "time("+g.lit(aD)+")")
		case aQ:
			parts = append(parts, g.query())
		default:
			parts = append(parts, g.lit(k))
		}
	}
	sep := ", "
	if g.r.Chance(0.2) {
		sep = ","
	}
	return strings.Join(parts, sep)
}

func (g *pg) query() string {
	qs := []string{
		"'SELECT mean(\"v\") FROM \"db\".\"rp\".\"m\"'",
		"'''SELECT \"v\" FROM \"db\".\"rp\".\"m\" WHERE \"host\" = 'a' '''",
		"'SELECT count(v), max(v) FROM \"db\".\"rp\".cpu WHERE x > 1'",
		"'select * from \"db\".\"rp\".\"m\"'",
	}
	return qs[g.r.Intn(len(qs))]
}

func (g *pg) comment(indent string) string {
	if !g.r.Chance(0.12) {
		return ""
	}
	c := []string{"// a comment", "// another: with 'quotes' and \"refs\"", "//", "// TODO |from() .x(1)", "// é"}[g.r.Intn(5)]
	if g.r.Chance(0.3) {
		c += "\n" + indent + "// second line"
	}
	return c + "\n" + indent
}

func (g *pg) props(specs []pspec, max int) string {
	var sb strings.Builder
	n := g.r.Intn(max + 1)
	used := map[string]bool{}
	for i := 0; i < n && len(specs) > 0; i++ {
		ps := specs[g.r.Intn(len(specs))]
		if used[ps.name] && g.r.Chance(0.8) {
			continue
		}
		used[ps.name] = true
		switch g.r.Intn(4) {
		case 0:
			sb.WriteString("." + ps.name + "(" + g.args(ps.args) + ")")
		default:
			sb.WriteString("\n        " + g.comment("        ") + "." + ps.name + "(" + g.args(ps.args) + ")")
		}
	}
	return sb.String()
}

func (g *pg) chain(edge string, depth int) (string, string) {
	var sb strings.Builder
	for i := 0; i < depth; i++ {
		var cands []nspec
		for _, n := range chainNodes {
			if n.in == "*" || n.in == edge {
				cands = append(cands, n)
			}
		}
		n := cands[g.r.Intn(len(cands))]
		if g.r.Chance(0.7) {
			sb.WriteString("\n    " + g.comment("    "))
		}
		sb.WriteString("|" + n.name + "(" + g.args(n.args) + ")")
		sb.WriteString(g.props(n.props, 4))
		switch n.out {
		case "S", "B":
			edge = n.out
		case "-":
			return sb.String(), "-"
		}
	}
	return sb.String(), edge
}

func (g *pg) newVar() string {
	g.nv++
	return fmt.Sprintf("v%d", g.nv)
}

// program generates a whole script; batch selects the source.
func (g *pg) program(batch bool) string {
	r := g.r
	var sb strings.Builder
	if r.Chance(0.2) {
		sb.WriteString("dbrp \"db\".\"rp\"\n")
		if r.Chance(0.3) {
			sb.WriteString("dbrp \"other db\".\"auto gen\"\n\n")
		}
	}
	if r.Chance(0.2) {
		sb.WriteString("// header comment\n// second header line\n")
	}
	// literal var declarations
	nd := r.Intn(5)
	for i := 0; i < nd; i++ {
		k := []ak{aS, aD, aI, aF, aS, aD}[r.Intn(6)]
		name := g.newVar()
		sb.WriteString(g.comment("") + "var " + name + " = " + g.lit(k) + "\n")
		g.vars[k] = append(g.vars[k], name)
	}
	if r.Chance(0.15) {
		name := g.newVar()
		sb.WriteString("var " + name + " = [" + g.lit(aS) + ", " + g.lit(aS) + "]\n")
	}
	if r.Chance(0.25) {
		name := g.newVar()
		sb.WriteString("var " + name + " = " + rePool[r.Intn(len(rePool))] + "\n")
		g.reVars = append(g.reVars, name)
	}
	if r.Chance(0.2) {
		name := g.newVar()
		sb.WriteString("var " + name + " = lambda: " + g.lambda() + "\n")
		g.vars[aL] = append(g.vars[aL], name)
	}
	if r.Chance(0.15) {
		name := g.newVar()
		sb.WriteString("var " + name + " = " + intPool[r.Intn(len(intPool))] + " " + []string{"+", "*"}[r.Intn(2)] + " " + intPool[r.Intn(len(intPool))] + "\n")
		g.vars[aI] = append(g.vars[aI], name)
	}
	sb.WriteString("\n")
	src := func() (string, string) {
		if batch {
			return "batch\n    |query(" + g.query() + ")" + g.props(queryProps, 4), "B"
		}
		s := "stream\n    " + g.comment("    ") + "|from()" + g.props(fromProps, 4)
		return s, "S"
	}
	ns := r.Range(1, 3)
	var branchVars []string
	var branchEdges []string
	for i := 0; i < ns; i++ {
		s, e := src()
		c, e2 := g.chain(e, r.Range(0, 4))
		if r.Chance(0.5) || i < ns-1 {
			name := g.newVar()
			if e2 != "-" {
				branchVars = append(branchVars, name)
				branchEdges = append(branchEdges, e2)
			}
			sb.WriteString(g.comment("") + "var " + name + " = " + s + c + "\n\n")
		} else {
			sb.WriteString(g.comment("") + s + c + "\n\n")
		}
	}
	// joins / unions / further chains off the branch variables
	if len(branchVars) >= 2 && r.Chance(0.6) {
		a, b := branchVars[0], branchVars[1]
		if branchEdges[0] == branchEdges[1] {
			if r.Bool() {
				sb.WriteString(a + "\n    |join(" + b + ")\n        .as('a', 'b')" + g.props([]pspec{p("tolerance", aD), p("fill", aLit), p("on", aSL), p("streamName", aS), p("delimiter", aS)}, 3))
			} else {
				sb.WriteString(a + "\n    |union(" + b + ")" + g.props([]pspec{p("rename", aS)}, 1))
			}
			c, _ := g.chain(branchEdges[0], r.Range(0, 3))
			sb.WriteString(c + "\n")
		}
	}
	for i, v := range branchVars {
		if r.Chance(0.4) {
			c, _ := g.chain(branchEdges[i], r.Range(1, 3))
			sb.WriteString("\n" + v + c + "\n")
		}
	}
	return sb.String()
}

// ---- oracles ------------------------------------------------------------------------------------

var dbrps = []kapacitor.DBRP{{Database: "db", RetentionPolicy: "rp"}}

type defined struct {
	json string // canonical, id-free graph form (see canon)
	raw  string // the pipeline's own JSON
	dot  string
	n    int
	p    *pipeline.Pipeline
}

// canon renders the pipeline graph independent of node ids: every node becomes its own JSON
// without the id plus the canonical forms of its parents IN ORDER (parent order matters for
// join); the pipeline is the sorted list of these. Isomorphic pipelines with equal node
// properties give equal strings.
func canon(pl *pipeline.Pipeline) (string, error) {
	raw, err := json.Marshal(pl)
	if err != nil {
		return "", err
	}
	return canonJSON(raw)
}

// canonJSON works on the pipeline's own JSON document {nodes:[{typeOf,id,...}], edges:[{parent,child}]}.
func canonJSON(raw []byte) (string, error) {
	var doc struct {
		Nodes []map[string]interface{} `json:"nodes"`
		Edges []struct {
			Parent string `json:"parent"`
			Child  string `json:"child"`
		} `json:"edges"`
	}
	if err := json.Unmarshal(raw, &doc); err != nil {
		return "", err
	}
	byID := map[string]map[string]interface{}{}
	var ids []string
	for _, n := range doc.Nodes {
		id := fmt.Sprint(n["id"])
		byID[id] = n
		ids = append(ids, id)
	}
	parents := map[string][]string{}
	for _, e := range doc.Edges {
		parents[e.Child] = append(parents[e.Child], e.Parent)
	}
	memo := map[string]string{}
	var form func(id string, depth int) string
	form = func(id string, depth int) string {
		if f, ok := memo[id]; ok {
			return f
		}
		if depth > 200 {
			return "CYCLE"
		}
		n := byID[id]
		m := map[string]interface{}{}
		for k, v := range n {
			if k != "id" {
				m[k] = v
			}
		}
		cb, _ := json.Marshal(normalise(m)) // map keys are sorted by encoding/json
		var ps []string
		for _, par := range parents[id] {
			ps = append(ps, form(par, depth+1))
		}
		if m["typeOf"] == "union" {
			sortStrings(ps) // union does not distinguish its parents
		}
		f := string(cb) + "<-[" + strings.Join(ps, ",") + "]"
		memo[id] = f
		return f
	}
	var all []string
	for _, id := range ids {
		all = append(all, form(id, 0))
	}
	sortStrings(all)
	return strings.Join(all, "\n"), nil
}

// normalise removes representation differences that do not change what the pipeline denotes:
// an empty list and null are the same; chains of the associative, short-circuit AND / OR are
// flattened (a AND (b AND c) evaluates exactly like (a AND b) AND c).
func normalise(v interface{}) interface{} {
	switch t := v.(type) {
	case []interface{}:
		if len(t) == 0 {
			return nil
		}
		out := make([]interface{}, len(t))
		for i := range t {
			out[i] = normalise(t[i])
		}
		return out
	case map[string]interface{}:
		if t["typeOf"] == "binary" {
			if op, _ := t["operator"].(string); op == "AND" || op == "OR" {
				var flat []interface{}
				var collect func(n interface{})
				collect = func(n interface{}) {
					if m, ok := n.(map[string]interface{}); ok && m["typeOf"] == "binary" && m["operator"] == op {
						collect(m["left"])
						collect(m["right"])
						return
					}
					flat = append(flat, normalise(n))
				}
				collect(t)
				return map[string]interface{}{"typeOf": "nary", "operator": op, "operands": flat}
			}
		}
		out := map[string]interface{}{}
		for k, x := range t {
			out[k] = normalise(x)
		}
		return out
	}
	return v
}

func sortStrings(l []string) {
	for i := 1; i < len(l); i++ {
		for j := i; j > 0 && l[j] < l[j-1]; j-- {
			l[j], l[j-1] = l[j-1], l[j]
		}
	}
}

func define(tm *kapacitor.TaskMaster, src string, batch bool) (*defined, error) {
	tt := kapacitor.StreamTask
	if batch {
		tt = kapacitor.BatchTask
	}
	var t *kapacitor.Task
	var err error
	func() {
		defer func() {
			if r := recover(); r != nil {
				err = fmt.Errorf("PANIC: %v", r)
			}
		}()
		t, err = tm.NewTask("t", src, tt, dbrps, 0, nil)
	}()
	if err != nil {
		return nil, err
	}
	j, err := json.Marshal(t.Pipeline)
	if err != nil {
		return nil, fmt.Errorf("pipeline JSON: %v", err)
	}
	c, err := canon(t.Pipeline)
	if err != nil {
		return nil, fmt.Errorf("pipeline JSON: %v", err)
	}
	return &defined{json: c, raw: string(j), dot: string(t.Pipeline.Dot("t")), n: t.Pipeline.Len(), p: t.Pipeline}, nil
}

func firstDiff(a, b string) string {
	n := len(a)
	if len(b) < n {
		n = len(b)
	}
	i := 0
	for i < n && a[i] == b[i] {
		i++
	}
	lo := i - 60
	if lo < 0 {
		lo = 0
	}
	ha, hb := i+100, i+100
	if ha > len(a) {
		ha = len(a)
	}
	if hb > len(b) {
		hb = len(b)
	}
	return fmt.Sprintf("first difference at byte %d:\n  A: …%s\n  B: …%s", i, a[lo:ha], b[lo:hb])
}

func shapeOf(src string) string {
	// reduce a script to the node/property names at the point of difference for the key
	return ""
}

func (prop) Run(x *core.Ctx) {
	switch x.Case.Kind {
	case "prog":
		runProg(x)
	case "lambda":
		runLambda(x)
	}
}

func runProg(x *core.Ctx) {
	r := core.NewRng(x.Case.Seed, 13)
	rec := kit.NewRecorder()
	tm := kapacitor.NewTaskMaster("c13", kit.ServerInfo(), rec.Diag())
	tm.DeadmanService = kit.NopDeadman{}
	tm.TaskStore = kit.NopTaskStore{}
	tm.HTTPDService = kit.NopHTTPD{}
	for i := 0; i < x.Case.N; i++ {
		g := &pg{r: r, vars: map[ak][]string{}, emptyArgs: x.Case.PBool("emptyargs")}
		prof := ""
		if g.emptyArgs {
			prof = "[zero-or-empty-args] "
		}
		batch := r.Chance(0.3)
		src := g.program(batch)
		if !x.Announce(src) {
			continue
		}
		x.Count("evaluations", 1)
		P, err := define(tm, src, batch)
		if err != nil {
			if strings.HasPrefix(err.Error(), "PANIC") {
				x.Violatef("define-panic", "defining a generated script panicked: "+clip(err.Error(), 80), src, "%v\n%s", err, src)
			}
			x.Count("rejected_by_front_end", 1)
			x.SetAdd("rejection_shapes", clip(stripQuoted(err.Error()), 50))
			continue
		}
		x.Count("accepted", 1)
		fail := func(kind, key, format string, a ...interface{}) {
			x.Violatef(kind, key, src, "source:\n%s\n"+format, append([]interface{}{src}, a...)...)
		}
		// (1) formatted script
		F, err := tick.Format(src)
		if err != nil {
			fail("format-error", "Format failed on an accepted script: "+clip(stripQuoted(err.Error()), 60), "%v", err)
			continue
		}
		PF, err := define(tm, F, batch)
		if err != nil {
			fail("formatted-script-rejected", "formatted script is rejected: "+clip(stripQuoted(err.Error()), 70), "formatted:\n%s\nerror: %v", F, err)
			continue
		}
		if PF.json != P.json {
			fail("formatted-script-differs", "pipeline JSON of the formatted script differs", "formatted:\n%s\n%s", F, firstDiff(P.json, PF.json))
			continue
		}
		if PF.dot != P.dot {
			fail("formatted-script-differs", "pipeline DOT of the formatted script differs", "formatted:\n%s\n%s", F, firstDiff(P.dot, PF.dot))
			continue
		}
		a1, e1 := ast.Parse(src)
		a2, e2 := ast.Parse(F)
		if e1 == nil && e2 == nil && !a1.Equal(a2) {
			fail("formatted-ast-differs", "AST of the formatted script is not Equal", "formatted:\n%s", F)
			continue
		}
		// (2) stability
		F2, err := tick.Format(F)
		if err != nil {
			fail("format-error", "Format failed on its own output", "formatted:\n%s\nerror: %v", F, err)
			continue
		}
		if F2 != F {
			F3, _ := tick.Format(F2)
			if F3 != F2 {
				fail("format-unstable", "formatting is not stable after one further pass", "pass1:\n%s\npass2:\n%s\npass3:\n%s", F, F2, F3)
				continue
			}
			x.Count("format_needed_second_pass", 1)
		}
		// (4b) pipeline JSON -> Unmarshal -> JSON
		func() {
			defer func() {
				if r := recover(); r != nil {
					fail("pipeline-json-panic", prof+"Pipeline.Unmarshal panicked: "+clip(fmt.Sprint(r), 60), "%v", r)
				}
			}()
			p2 := &pipeline.Pipeline{}
			if err := p2.Unmarshal([]byte(P.raw)); err != nil {
				x.Count("pipeline_json_unmarshal_errors", 1)
				x.SetAdd("pipeline_json_unmarshal_error_shapes", clip(stripQuoted(err.Error()), 60))
				return
			}
			j2, err := canon(p2)
			if err != nil {
				fail("pipeline-json-error", prof+"re-marshal failed", "%v", err)
				return
			}
			if j2 != P.json {
				fail("pipeline-json-differs", prof+"pipeline changes through JSON Marshal/Unmarshal: "+jsonDiffKey(P.json, j2), "%s", firstDiff(P.json, j2))
			}
			x.Count("pipeline_json_roundtrips", 1)
		}()
		// (3) pipeline -> TICKscript -> pipeline
		func() {
			defer func() {
				if r := recover(); r != nil {
					fail("pipeline-tick-panic", prof+"pipeline/tick panicked: "+clip(fmt.Sprint(r), 60), "%v", r)
				}
			}()
			a := ptick.AST{}
			if err := a.Build(P.p); err != nil {
				x.Count("pipeline_tick_conversion_errors", 1)
				x.SetAdd("pipeline_tick_error_shapes", clip(stripQuoted(err.Error()), 60))
				return
			}
			var buf bytes.Buffer
			a.Program.Format(&buf, "", false)
			T := buf.String()
			PT, err := define(tm, T, batch)
			if err != nil {
				fail("rendered-script-rejected", prof+"TICKscript rendered from the pipeline is rejected: "+clip(stripQuoted(err.Error()), 70), "rendered:\n%s\nerror: %v", T, err)
				return
			}
			if PT.json != P.json {
				fail("rendered-script-differs", prof+"pipeline rendered to TICKscript defines a different pipeline: "+jsonDiffKey(P.json, PT.json), "rendered:\n%s\n%s", T, firstDiff(P.json, PT.json))
				return
			}
			x.Count("pipeline_tick_roundtrips", 1)
		}()
		if P.n >= 3 {
			x.Nontrivial(src)
		}
		if i == 0 {
			x.Sample(map[string]interface{}{"source": src, "formatted": F, "nodes": P.n})
		}
		if x.NumViolations() > 150 {
			return
		}
	}
}

// jsonDiffKey names the JSON key nearest before the first difference.
func jsonDiffKey(a, b string) string {
	n := len(a)
	if len(b) < n {
		n = len(b)
	}
	i := 0
	for i < n && a[i] == b[i] {
		i++
	}
	// walk back to the previous "key":
	j := strings.LastIndex(a[:i], "\":")
	if j < 0 {
		return "?"
	}
	k := strings.LastIndex(a[:j], "\"")
	typ := ""
	if t := strings.LastIndex(a[:i], "\"typeOf\":\""); t >= 0 {
		e := strings.Index(a[t+10:], "\"")
		if e > 0 {
			typ = a[t+10 : t+10+e]
		}
	}
	return "key " + a[k+1:j] + " (after node type " + typ + ")"
}

func stripQuoted(s string) string {
	var sb strings.Builder
	inq := false
	for _, r := range s {
		switch {
		case r == '"' || r == '\'':
			inq = !inq
		case inq:
		case r >= '0' && r <= '9':
			sb.WriteByte('#')
		default:
			sb.WriteRune(r)
		}
	}
	return sb.String()
}

func stripComments(s string) string {
	var out []string
	for _, l := range strings.Split(s, "\n") {
		if strings.HasPrefix(strings.TrimSpace(l), "//") {
			continue
		}
		out = append(out, l)
	}
	return strings.Join(out, "\n")
}

func clip(s string, n int) string {
	if len(s) > n {
		return s[:n] + "…"
	}
	return s
}

// ---- lambdas ------------------------------------------------------------------------------------

func runLambda(x *core.Ctx) {
	r := core.NewRng(x.Case.Seed, 14)
	for i := 0; i < x.Case.N; i++ {
		text := c04.GenLambda(r, "any", r.Range(1, 4), r.Chance(0.1))
		// decorate: redundant parentheses, unary chains, comments are not allowed inside lambdas
		if r.Chance(0.3) {
			text = "(" + text + ")"
		}
		if r.Chance(0.1) {
			text = "!(" + text + " == " + text + ")"
		}
		if !x.Announce(text) {
			continue
		}
		x.Count("evaluations", 1)
		n1, err := ast.ParseLambda(text)
		if err != nil {
			x.Count("rejected_by_front_end", 1)
			continue
		}
		var b1 bytes.Buffer
		n1.Format(&b1, "", false)
		f1 := strings.TrimPrefix(strings.TrimSpace(b1.String()), "lambda:")
		n2, err := ast.ParseLambda(f1)
		if err != nil {
			x.Violatef("formatted-lambda-rejected", "formatted lambda does not parse", text, "source: %s\nformatted: %s\nerror: %v", text, f1, err)
			continue
		}
		if !n1.Equal(n2) {
			x.Violatef("formatted-ast-differs", "AST of the formatted lambda is not Equal", text, "source: %s\nformatted: %s", text, f1)
			continue
		}
		var b2 bytes.Buffer
		n2.Format(&b2, "", false)
		if b2.String() != b1.String() {
			x.Violatef("format-unstable", "lambda formatting is not stable", text, "pass1: %s\npass2: %s", b1.String(), b2.String())
			continue
		}
		// JSON
		jb, err := json.Marshal(n1)
		var n3 ast.LambdaNode
		if err == nil {
			if err := json.Unmarshal(jb, &n3); err != nil {
				x.Violatef("ast-json-error", "lambda JSON does not unmarshal: "+clip(stripQuoted(err.Error()), 60), text, "source: %s\njson: %s\nerror: %v", text, jb, err)
				continue
			}
		}
		// composition: the lambda read back from JSON is what other tools format and show to the
		// user; its formatted text must still denote the same expression
		var n4 *ast.LambdaNode
		if n3.Expression != nil {
			var b3 bytes.Buffer
			(&n3).Format(&b3, "", false)
			f3 := strings.TrimPrefix(strings.TrimSpace(b3.String()), "lambda:")
			var err4 error
			n4, err4 = ast.ParseLambda(f3)
			if err4 != nil {
				x.Violatef("json-then-format-rejected", "lambda read back from JSON formats to text that does not parse", text, "source: %s\nformatted after JSON round trip: %s\nerror: %v", text, f3, err4)
				continue
			}
		}
		// semantic equivalence on random scopes
		e1, err1 := stateful.NewExpression(n1.Expression)
		e2, err2 := stateful.NewExpression(n2.Expression)
		var e3 stateful.Expression
		var err3 error
		if n3.Expression != nil {
			e3, err3 = stateful.NewExpression(n3.Expression)
		}
		if (err1 == nil) != (err2 == nil) || (n3.Expression != nil && (err1 == nil) != (err3 == nil)) {
			x.Violatef("roundtrip-changes-compilability", "round-tripped lambda compiles differently", text, "source: %s\nformatted: %s\nerrors: %v / %v / %v", text, f1, err1, err2, err3)
			continue
		}
		if err1 != nil {
			x.Count("not_compilable", 1)
			continue
		}
		valued := false
		bad := false
		for k := 0; k < 12 && !bad; k++ {
			sc := c04.RandScope(r, 0.1)
			// fresh expressions: stateful functions would otherwise advance differently
			f1e, _ := stateful.NewExpression(n1.Expression)
			f2e, _ := stateful.NewExpression(n2.Expression)
			o1, o2 := c04.EvalOutcome(f1e, sc), c04.EvalOutcome(f2e, sc)
			_ = e1
			_ = e2
			if o1 != "error" {
				valued = true
			}
			if o1 != o2 {
				x.Violatef("roundtrip-changes-meaning", "formatted lambda evaluates differently", text, "source: %s -> %s\nformatted: %s -> %s", text, o1, f1, o2)
				bad = true
			}
			if e3 != nil {
				f3e, _ := stateful.NewExpression(n3.Expression)
				if o3 := c04.EvalOutcome(f3e, sc); o3 != o1 {
					x.Violatef("roundtrip-changes-meaning", "lambda read back from JSON evaluates differently", text, "source: %s -> %s\njson: %s -> %s", text, o1, jb, o3)
					bad = true
				}
			}
			if n4 != nil {
				if f4e, err := stateful.NewExpression(n4.Expression); err == nil {
					if o4 := c04.EvalOutcome(f4e, sc); o4 != o1 {
						var b3 bytes.Buffer
						(&n3).Format(&b3, "", false)
						x.Violatef("json-then-format-changes-meaning", "lambda read back from JSON and formatted evaluates differently", text, "source: %s -> %s\nformatted after JSON round trip: %s -> %s", text, o1, b3.String(), o4)
						bad = true
					}
				} else if o1 != "error" {
					x.Violatef("json-then-format-changes-meaning", "lambda read back from JSON and formatted no longer compiles", text, "source: %s -> %s; error %v", text, o1, err)
					bad = true
				}
			}
			x.Count("scope_evaluations_compared", 1)
		}
		if valued && strings.ContainsAny(text, "+-*/%<>=!") {
			x.Nontrivial(text)
		}
		if i == 0 {
			x.Sample(map[string]interface{}{"lambda": text, "formatted": f1, "json": string(jb)})
		}
		if x.NumViolations() > 150 {
			return
		}
	}
}

// Package c03: a window holds exactly the points of its period, emitted on schedule.
package c03

import (
	"fmt"
	"sort"
	"strings"
	"time"

	"verifharness/core"
	"verifharness/kit"
)

type prop struct{}

func init() { core.Register(prop{}) }

func (prop) ID() string    { return "C03" }
func (prop) Level() string { return "exploration" }
func (prop) Rule() string {
	return "case = (window configuration, generated non-decreasing timestamp stream). Time windows with every>0 are run with the PREFIX-MULTIPLEX trick: group k of the same task run receives the first k+1 points, so the point that triggered each emission is observed from outside (first group whose output contains it); long multi-group streams, every=0 and count windows are run directly. " +
		"Oracle: window content = exactly the group's points received so far with time in [T-period,T) ((t-period,t] for every=0) in arrival order (by unique seq ids), batch name/tags/tmax; schedule clauses the statement fixes (T strictly increasing and >= every apart, T <= trigger time, emission due no later than the first point at/after previous trigger+every, first window rule with/without fillPeriod, T multiple of every under align, exactly one window per point for every=0, count windows after points first, first+everyCount, ... holding the last min(k,periodCount) points). " +
		"A case is non-trivial (counted by canonical config+stream hash) when at least 3 windows were compared and at least one window was non-empty"
}
func (prop) Assumptions() []string {
	return []string{
		"the exact recurrence of the next emission time (trigger time + every vs. previous edge + every) is not asserted: both satisfy the statement",
		"per-group timestamps are non-decreasing (the property's quantifier); groups are observed through groupBy('g')",
		"align with every=0 is not generated",
	}
}
func (prop) MinNontrivial(tier string) int {
	if tier == "thorough" {
		return 50000
	}
	return 800
}

var periods = []time.Duration{3 * time.Second, 5 * time.Second, 10 * time.Second}
var everys = []time.Duration{0, 1 * time.Second, 2 * time.Second, 5 * time.Second, 7 * time.Second, 10 * time.Second, 15 * time.Second}

func (prop) Cases(tier string, seed uint64) []core.Case {
	var cs []core.Case
	n := 0
	add := func(kind string, params map[string]interface{}, s uint64) {
		cs = append(cs, core.Case{ID: fmt.Sprintf("%s-%d", kind, n), Kind: kind, Seed: s, Params: params})
		n++
	}
	streams := 10
	if tier == "thorough" {
		streams = 1200
	}
	// full grid of time-window configurations
	for _, p := range periods {
		for _, e := range everys {
			for _, align := range []bool{false, true} {
				if align && e == 0 {
					continue
				}
				for _, fill := range []bool{false, true} {
					for s := 0; s < streams; s++ {
						mode := "prefix"
						if e == 0 || s%3 == 2 {
							mode = "direct"
						}
						add("time", map[string]interface{}{"period": int(p / time.Millisecond), "every": int(e / time.Millisecond), "align": align, "fill": fill, "mode": mode},
							seed*1000003+uint64(n))
					}
				}
			}
		}
	}
	cstreams := 4
	if tier == "thorough" {
		cstreams = 300
	}
	for pc := 1; pc <= 5; pc++ {
		for ec := 1; ec <= 5; ec++ {
			for _, fill := range []bool{false, true} {
				for s := 0; s < cstreams; s++ {
					add("count", map[string]interface{}{"pc": pc, "ec": ec, "fill": fill}, seed*1000003+uint64(n))
				}
			}
		}
	}
	return cs
}

type pt struct {
	seq int
	t   time.Time
}

var base = time.Unix(1600000000, 0).UTC()

// genTimes produces a non-decreasing timestamp sequence with bursts, sub-second phases and
// silences long enough to drain the window.
func genTimes(r *core.Rng, n int, period time.Duration) []time.Time {
	steps := []time.Duration{0, 1, 500 * time.Millisecond, time.Second, 2 * time.Second, time.Second, 250 * time.Millisecond}
	t := base.Add(time.Duration(r.Intn(8)) * 125 * time.Millisecond).Add(time.Duration(r.Intn(20)) * time.Second)
	out := make([]time.Time, 0, n)
	style := r.Intn(4)
	for i := 0; i < n; i++ {
		out = append(out, t)
		var d time.Duration
		switch {
		case r.Chance(0.06):
			d = period*time.Duration(r.Range(1, 4)) + time.Duration(r.Intn(3))*time.Second // silence
		case style == 0:
			d = time.Second
		case style == 1 && r.Chance(0.5):
			d = 0 // bursts
		default:
			d = steps[r.Intn(len(steps))]
		}
		t = t.Add(d)
	}
	return out
}

func durStr(d time.Duration) string { return fmt.Sprintf("%dms", int64(d/time.Millisecond)) }

func (prop) Run(x *core.Ctx) {
	switch x.Case.Kind {
	case "time":
		runTime(x)
	case "count":
		runCount(x)
	}
}

type emission struct {
	T    time.Time
	seqs []int
	name string
	tags map[string]string
}

func collect(items []*kit.B) map[string][]emission {
	out := map[string][]emission{}
	for _, b := range items {
		g := b.Tags["g"]
		em := emission{T: b.TMax, name: b.Name, tags: b.Tags}
		for _, p := range b.Points {
			s, _ := p.Fields["seq"].(int64)
			em.seqs = append(em.seqs, int(s))
			if p.Tags["g"] != g {
				em.seqs = append(em.seqs, -1) // foreign point marker
			}
		}
		out[g] = append(out[g], em)
	}
	return out
}

func seqsStr(l []int) string {
	var sb strings.Builder
	for i, v := range l {
		if i > 0 {
			sb.WriteByte(',')
		}
		fmt.Fprint(&sb, v)
	}
	return sb.String()
}

func eqInts(a, b []int) bool {
	if len(a) != len(b) {
		return false
	}
	for i := range a {
		if a[i] != b[i] {
			return false
		}
	}
	return true
}

func runTime(x *core.Ctx) {
	c := x.Case
	period := time.Duration(c.PInt("period", 0)) * time.Millisecond
	every := time.Duration(c.PInt("every", 0)) * time.Millisecond
	align, fill := c.PBool("align"), c.PBool("fill")
	mode := c.PStr("mode", "direct")
	r := core.NewRng(c.Seed, 3)
	cfg := fmt.Sprintf("period=%v every=%v align=%v fill=%v", period, every, align, fill)
	if !x.Announce(cfg + " " + mode) {
		return
	}

	script := fmt.Sprintf("stream|from().measurement('m').groupBy('g')|window().period(%s).every(%s)", durStr(period), durStr(every))
	if align {
		script += ".align()"
	}
	if fill {
		script += ".fillPeriod()"
	}
	script += "|log().prefix('out')"

	env, err := kit.NewEnv(kit.EnvOpts{Scratch: x.Scratch, NoAlert: true})
	if err != nil {
		x.Inconclusive("env: " + err.Error())
		return
	}
	defer env.Close()
	et, err := env.StartStream("w", script, nil)
	if err != nil {
		x.Inconclusive("start: " + err.Error() + " script=" + script)
		return
	}

	// logical streams: group name -> ordered points
	streams := map[string][]pt{}
	var order []struct {
		g string
		p pt
	}
	if mode == "prefix" {
		n := r.Range(20, 60)
		ts := genTimes(r, n, period)
		// group k gets points 0..k ; written point-major so that groups interleave
		for i := 0; i < n; i++ {
			for k := i; k < n; k++ {
				g := fmt.Sprintf("p%03d", k)
				p := pt{seq: i, t: ts[i]}
				streams[g] = append(streams[g], p)
				order = append(order, struct {
					g string
					p pt
				}{g, p})
			}
		}
	} else {
		ng := r.Range(1, 4)
		var gs []string
		idx := map[string]int{}
		tsOf := map[string][]time.Time{}
		for i := 0; i < ng; i++ {
			g := fmt.Sprintf("d%d", i)
			gs = append(gs, g)
			tsOf[g] = genTimes(r, r.Range(30, 400), period)
		}
		remaining := ng
		for remaining > 0 {
			g := gs[r.Intn(ng)]
			if idx[g] >= len(tsOf[g]) {
				continue
			}
			burst := 1
			if r.Chance(0.2) {
				burst = r.Range(2, 20)
			}
			for b := 0; b < burst && idx[g] < len(tsOf[g]); b++ {
				p := pt{seq: idx[g], t: tsOf[g][idx[g]]}
				idx[g]++
				streams[g] = append(streams[g], p)
				order = append(order, struct {
					g string
					p pt
				}{g, p})
			}
			if idx[g] >= len(tsOf[g]) {
				remaining--
			}
		}
	}
	for _, o := range order {
		if err := env.Write(kit.Point("m", map[string]string{"g": o.g, "other": "x"}, map[string]interface{}{"seq": int64(o.p.seq), "v": float64(o.p.seq) * 1.5}, o.p.t)); err != nil {
			x.Inconclusive("write: " + err.Error())
			return
		}
	}
	if err := env.DrainWait(et); err != nil {
		x.Violatef("task-error", "window task ended with error: "+err.Error(), cfg, "%v", err)
		return
	}
	got := collect(env.Rec.Sink("out").Batches())
	x.Count("points_written", int64(len(order)))

	windows, nonEmpty, emptyW := 0, 0, 0
	var maxOcc int
	viol := func(kind, g string, format string, a ...interface{}) {
		x.Violatef(kind, kind+" "+cfg, cfg+" group="+g, format, a...)
	}
	// ---- content + trigger-free schedule clauses, every group
	gnames := make([]string, 0, len(streams))
	for g := range streams {
		gnames = append(gnames, g)
	}
	sort.Strings(gnames)
	for g := range got {
		if _, ok := streams[g]; !ok {
			viol("window-unknown-group", g, "batch for a group that was never written: %q", g)
		}
	}
	for _, g := range gnames {
		pts := streams[g]
		ems := got[g]
		var prevT time.Time
		for i, em := range ems {
			windows++
			if em.name != "m" || em.tags["g"] != g || len(em.tags) != 1 {
				viol("window-meta", g, "emission %d: name=%q tags=%v, want name m tags {g:%s}", i, em.name, em.tags, g)
			}
			if i > 0 {
				if every == 0 && em.T.Before(prevT) || every > 0 && !em.T.After(prevT) {
					viol("window-T-not-increasing", g, "emission %d: T=%v after T=%v", i, em.T, prevT)
				}
				if every > 0 && em.T.Sub(prevT) < every {
					viol("window-T-closer-than-every", g, "emission %d: T=%v previous T=%v every=%v", i, em.T, prevT, every)
				}
			}
			prevT = em.T
			if align && !em.T.Truncate(every).Equal(em.T) {
				viol("window-not-aligned", g, "emission %d: T=%v is not a multiple of every=%v", i, em.T, every)
			}
			if fill && em.T.Before(pts[0].t.Add(period)) {
				viol("window-fillperiod-early", g, "emission %d: T=%v earlier than first point %v + period %v", i, em.T, pts[0].t, period)
			}
			if em.T.After(pts[len(pts)-1].t) {
				viol("window-T-in-future", g, "emission %d: T=%v later than the last point received %v", i, em.T, pts[len(pts)-1].t)
			}
			if every > 0 {
				var want []int
				lo := em.T.Add(-period)
				for _, p := range pts {
					if !p.t.Before(lo) && p.t.Before(em.T) {
						want = append(want, p.seq)
					}
				}
				if !eqInts(want, em.seqs) {
					viol("window-content", g, "emission %d T=%v: got seqs [%s], want the points with time in [%v,%v): [%s]; stream=%s", i, em.T, seqsStr(em.seqs), lo, em.T, seqsStr(want), streamStr(pts))
				}
			}
			if len(em.seqs) > 0 {
				nonEmpty++
			} else {
				emptyW++
			}
			if len(em.seqs) > maxOcc {
				maxOcc = len(em.seqs)
			}
			x.SetAdd("occupancy_class", occClass(len(em.seqs)))
		}
		if every == 0 {
			// exactly one window per point from the first due point on
			first := 0
			if fill {
				first = -1
				for i, p := range pts {
					if !p.t.Before(pts[0].t.Add(period)) {
						first = i
						break
					}
				}
			}
			wantN := 0
			if first >= 0 {
				wantN = len(pts) - first
			}
			if len(ems) != wantN {
				viol("window-every0-count", g, "every=0: %d windows for %d points (first due index %d), want %d", len(ems), len(pts), first, wantN)
			} else {
				for j, em := range ems {
					idx := first + j
					t := pts[idx].t
					if !em.T.Equal(t) {
						viol("window-every0-T", g, "window %d: T=%v, want the time of point %d = %v", j, em.T, idx, t)
					}
					var want []int
					for _, p := range pts[:idx+1] {
						if p.t.After(t.Add(-period)) && !p.t.After(t) {
							want = append(want, p.seq)
						}
					}
					if !eqInts(want, em.seqs) {
						viol("window-content", g, "every=0 window %d at point %d t=%v: got [%s], want (t-period,t] so far: [%s]", j, idx, t, seqsStr(em.seqs), seqsStr(want))
					}
				}
			}
		}
	}
	// ---- trigger-dependent clauses (prefix mode, every>0)
	if mode == "prefix" && every > 0 {
		full := gnames[len(gnames)-1]
		pts := streams[full]
		ems := got[full]
		// trig[i] = smallest k such that group k's output has > i emissions; outputs must be prefix-consistent
		trig := make([]int, len(ems))
		for i := range trig {
			trig[i] = -1
		}
		prevN := 0
		for k, g := range gnames {
			e := got[g]
			if len(e) > len(ems) {
				viol("window-prefix-inconsistent", g, "group with %d points emitted %d windows, the full stream only %d", k+1, len(e), len(ems))
				continue
			}
			for i := range e {
				if !e[i].T.Equal(ems[i].T) || !eqInts(e[i].seqs, ems[i].seqs) {
					viol("window-prefix-inconsistent", g, "emission %d of the %d-point prefix (T=%v [%s]) differs from the full stream's (T=%v [%s])", i, k+1, e[i].T, seqsStr(e[i].seqs), ems[i].T, seqsStr(ems[i].seqs))
				}
			}
			if len(e) < prevN {
				viol("window-prefix-inconsistent", g, "prefix of %d points emitted %d windows, shorter prefix emitted %d", k+1, len(e), prevN)
			}
			for i := prevN; i < len(e); i++ {
				trig[i] = k
			}
			if len(e)-prevN > 1 {
				viol("window-multiple-per-point", g, "point %d triggered %d emissions", k, len(e)-prevN)
			}
			if len(e) > prevN {
				prevN = len(e)
			}
		}
		// first-window rule
		t0 := pts[0].t
		firstDue := t0.Add(every)
		if fill {
			firstDue = t0.Add(period)
			if align {
				firstDue = firstDue.Add(every)
			}
		}
		dueIdx := -1
		for i, p := range pts {
			if !p.t.Before(firstDue) {
				dueIdx = i
				break
			}
		}
		if dueIdx >= 0 && (len(ems) == 0 || trig[0] > dueIdx) {
			tr := -1
			if len(ems) > 0 {
				tr = trig[0]
			}
			viol("window-first-late", full, "first emission triggered by point %d; it was due at point %d (time %v >= %v)", tr, dueIdx, pts[dueIdx].t, firstDue)
		}
		for i := range ems {
			if trig[i] < 0 {
				continue
			}
			tp := pts[trig[i]]
			if ems[i].T.After(tp.t) {
				viol("window-T-after-trigger", full, "emission %d T=%v but its triggering point %d has time %v", i, ems[i].T, trig[i], tp.t)
			}
			// next emission due at the first point with time >= trigger time + every
			due := tp.t.Add(every)
			nd := -1
			for j := trig[i] + 1; j < len(pts); j++ {
				if !pts[j].t.Before(due) {
					nd = j
					break
				}
			}
			if nd >= 0 {
				if i+1 >= len(ems) || trig[i+1] > nd {
					nt := -1
					if i+1 < len(ems) {
						nt = trig[i+1]
					}
					viol("window-emission-late-or-missing", full, "after emission %d (trigger point %d at %v) the next emission was due at point %d (time %v >= %v) but was triggered by point %d", i, trig[i], tp.t, nd, pts[nd].t, due, nt)
				}
			}
		}
		x.Count("emissions_with_observed_trigger", int64(len(ems)))
	}
	x.Count("windows_compared", int64(windows))
	x.Count("windows_empty", int64(emptyW))
	x.MaxCount("max_window_occupancy", int64(maxOcc))
	x.SetAdd("config", cfg)
	if windows >= 3 && nonEmpty > 0 {
		x.Nontrivial(cfg + fmt.Sprint(c.Seed))
	}
	if emptyW > 0 && nonEmpty > 0 {
		x.Count("cases_with_drain_and_refill", 1)
	}
	x.Sample(map[string]interface{}{"script": script, "mode": mode, "groups": len(gnames), "points": len(order), "windows": windows,
		"first_windows": sampleEms(got[gnames[len(gnames)-1]])})
}

func occClass(n int) string {
	switch {
	case n == 0:
		return "0"
	case n == 1:
		return "1"
	case n < 5:
		return "2-4"
	case n < 17:
		return "5-16"
	default:
		return "17+"
	}
}

func sampleEms(e []emission) []string {
	var out []string
	for i, em := range e {
		if i >= 4 {
			break
		}
		out = append(out, fmt.Sprintf("T=%s seqs=[%s]", em.T.Format("15:04:05.000"), seqsStr(em.seqs)))
	}
	return out
}

func runCount(x *core.Ctx) {
	c := x.Case
	pc, ec, fill := c.PInt("pc", 1), c.PInt("ec", 1), c.PBool("fill")
	r := core.NewRng(c.Seed, 4)
	cfg := fmt.Sprintf("periodCount=%d everyCount=%d fill=%v", pc, ec, fill)
	if !x.Announce(cfg) {
		return
	}
	script := fmt.Sprintf("stream|from().measurement('m').groupBy('g')|window().periodCount(%d).everyCount(%d)", pc, ec)
	if fill {
		script += ".fillPeriod()"
	}
	script += "|log().prefix('out')"
	env, err := kit.NewEnv(kit.EnvOpts{Scratch: x.Scratch, NoAlert: true})
	if err != nil {
		x.Inconclusive("env: " + err.Error())
		return
	}
	defer env.Close()
	et, err := env.StartStream("w", script, nil)
	if err != nil {
		x.Inconclusive("start: " + err.Error())
		return
	}
	ng := r.Range(1, 4)
	streams := map[string][]pt{}
	total := 0
	for i := 0; i < ng; i++ {
		g := fmt.Sprintf("c%d", i)
		ts := genTimes(r, r.Range(1, 60), 5*time.Second)
		for s, t := range ts {
			streams[g] = append(streams[g], pt{seq: s, t: t})
		}
		total += len(ts)
	}
	idx := map[string]int{}
	for written := 0; written < total; {
		g := fmt.Sprintf("c%d", r.Intn(ng))
		if idx[g] >= len(streams[g]) {
			continue
		}
		p := streams[g][idx[g]]
		idx[g]++
		written++
		if err := env.Write(kit.Point("m", map[string]string{"g": g}, map[string]interface{}{"seq": int64(p.seq)}, p.t)); err != nil {
			x.Inconclusive("write: " + err.Error())
			return
		}
	}
	if err := env.DrainWait(et); err != nil {
		x.Violatef("task-error", "count window task ended with error: "+err.Error(), cfg, "%v", err)
		return
	}
	got := collect(env.Rec.Sink("out").Batches())
	windows := 0
	for g, pts := range streams {
		first := ec
		if fill {
			first = pc
		}
		var wantKs []int
		for k := first; k <= len(pts); k += ec {
			wantKs = append(wantKs, k)
		}
		ems := got[g]
		if len(ems) != len(wantKs) {
			x.Violatef("countwindow-schedule", "countwindow-schedule "+cfg, cfg+" group="+g, "%d points: got %d windows, want %d (after points %v)", len(pts), len(ems), len(wantKs), wantKs)
			continue
		}
		for i, k := range wantKs {
			windows++
			n := k
			if pc < n {
				n = pc
			}
			var want []int
			for _, p := range pts[k-n : k] {
				want = append(want, p.seq)
			}
			if !eqInts(want, ems[i].seqs) {
				x.Violatef("countwindow-content", "countwindow-content "+cfg, cfg+" group="+g, "window after point %d: got [%s] want last %d points [%s]", k, seqsStr(ems[i].seqs), n, seqsStr(want))
			}
			if ems[i].name != "m" || ems[i].tags["g"] != g {
				x.Violatef("window-meta", "window-meta "+cfg, cfg+" group="+g, "name=%q tags=%v", ems[i].name, ems[i].tags)
			}
		}
	}
	x.Count("windows_compared", int64(windows))
	x.Count("points_written", int64(total))
	x.SetAdd("config", cfg)
	if windows >= 3 {
		x.Nontrivial(cfg + fmt.Sprint(c.Seed))
	}
	x.Sample(map[string]interface{}{"script": script, "groups": ng, "points": total, "windows": windows})
}

func streamStr(pts []pt) string {
	var sb strings.Builder
	for _, p := range pts {
		fmt.Fprintf(&sb, "%d@%.3f ", p.seq, p.t.Sub(base).Seconds())
	}
	return sb.String()
}

package c04

import (
	"errors"
	"fmt"
	"math"
	"regexp"
	"strconv"
	"strings"
	"time"

	humanize "github.com/dustin/go-humanize"
	"github.com/influxdata/influxql"
	"github.com/influxdata/kapacitor/tick/ast"
)

// Reference big-step interpreter of lambda ASTs, written from the documented type table
// (DESIGN C04 / notes D). Two phases like the documented semantics: the whole expression is
// typed against the scope first (a type mismatch anywhere is an error for the point), then
// evaluated with short-circuit AND/OR.

type rtype int

const (
	tInvalid rtype = iota
	tBool
	tInt
	tFloat
	tString
	tDur
	tRegex
	tTime
	tMissing
)

var tnames = []string{"invalid", "bool", "int", "float", "string", "duration", "regex", "time", "missing"}

func (t rtype) String() string { return tnames[t] }

type missingT struct{}

var missingV = &missingT{}

func typeOfVal(v interface{}) rtype {
	switch v.(type) {
	case bool:
		return tBool
	case int64:
		return tInt
	case float64:
		return tFloat
	case string:
		return tString
	case time.Duration:
		return tDur
	case *regexp.Regexp:
		return tRegex
	case time.Time:
		return tTime
	case *missingT:
		return tMissing
	}
	return tInvalid
}

// interp carries the state of the stateful functions (one instance per compiled expression,
// as documented: state belongs to the expression copy) and the "unspecified" flag.
type interp struct {
	countN   int64
	sigmaXs  []float64
	spreadLo float64
	spreadHi float64
	// unspec is raised when the result depends on something the documentation does not fix
	// (float->int conversion out of range, eager evaluation of an unselected if() branch that
	// fails, opaque functions); the value comparison is skipped then.
	unspec bool
	// opaque: result value is produced by a function the reference does not model.
	opaque bool
	// approx: compare floats with relative tolerance (sigma: summation order is not part of the definition)
	approx bool
}

func newInterp() *interp { return &interp{spreadLo: math.Inf(1), spreadHi: math.Inf(-1)} }

var errType = errors.New("type error")

func isNum(t rtype) bool { return t == tInt || t == tFloat }

func binaryType(op ast.TokenType, l, r rtype) rtype {
	switch op {
	case ast.TokenAnd, ast.TokenOr:
		if l == tBool && r == tBool {
			return tBool
		}
	case ast.TokenEqual, ast.TokenNotEqual:
		if l == tBool && r == tBool || isNum(l) && isNum(r) || l == tString && r == tString || l == tDur && r == tDur {
			return tBool
		}
	case ast.TokenLess, ast.TokenLessEqual, ast.TokenGreater, ast.TokenGreaterEqual:
		if isNum(l) && isNum(r) || l == tString && r == tString || l == tDur && r == tDur {
			return tBool
		}
	case ast.TokenRegexEqual, ast.TokenRegexNotEqual:
		if l == tString && r == tRegex {
			return tBool
		}
	case ast.TokenPlus:
		if l == r && (l == tInt || l == tFloat || l == tString || l == tDur) {
			return l
		}
	case ast.TokenMinus:
		if l == r && (l == tInt || l == tFloat || l == tDur) {
			return l
		}
	case ast.TokenMult:
		if l == r && (l == tInt || l == tFloat) {
			return l
		}
		if l == tDur && isNum(r) || isNum(l) && r == tDur {
			return tDur
		}
	case ast.TokenDiv:
		if l == r && (l == tInt || l == tFloat) {
			return l
		}
		if l == tDur && isNum(r) {
			return tDur
		}
		if l == tDur && r == tDur {
			return tInt
		}
	case ast.TokenMod:
		if l == tInt && r == tInt {
			return tInt
		}
	}
	return tInvalid
}

type fsig struct {
	args []rtype
	ret  rtype
}

var math1 = map[string]func(float64) float64{
	"abs": math.Abs, "acos": math.Acos, "acosh": math.Acosh, "asin": math.Asin, "asinh": math.Asinh, "atan": math.Atan,
	"atanh": math.Atanh, "cbrt": math.Cbrt, "ceil": math.Ceil, "cos": math.Cos, "cosh": math.Cosh, "erf": math.Erf, "erfc": math.Erfc,
	"exp": math.Exp, "exp2": math.Exp2, "expm1": math.Expm1, "floor": math.Floor, "gamma": math.Gamma, "j0": math.J0, "j1": math.J1,
	"log": math.Log, "log10": math.Log10, "log1p": math.Log1p, "log2": math.Log2, "logb": math.Logb, "sin": math.Sin, "sinh": math.Sinh,
	"sqrt": math.Sqrt, "tan": math.Tan, "tanh": math.Tanh, "trunc": math.Trunc, "y0": math.Y0, "y1": math.Y1,
}
var math2 = map[string]func(float64, float64) float64{
	"atan2": math.Atan2, "hypot": math.Hypot, "max": math.Max, "min": math.Min, "mod": math.Mod, "pow": math.Pow,
}
var str2bool = map[string]func(string, string) bool{
	"strContains": strings.Contains, "strContainsAny": strings.ContainsAny, "strHasPrefix": strings.HasPrefix, "strHasSuffix": strings.HasSuffix,
}
var str2int = map[string]func(string, string) int{
	"strCount": strings.Count, "strIndex": strings.Index, "strIndexAny": strings.IndexAny, "strLastIndex": strings.LastIndex, "strLastIndexAny": strings.LastIndexAny,
}
var str2str = map[string]func(string, string) string{
	"strTrim": strings.Trim, "strTrimLeft": strings.TrimLeft, "strTrimPrefix": strings.TrimPrefix, "strTrimRight": strings.TrimRight, "strTrimSuffix": strings.TrimSuffix,
}
var str1str = map[string]func(string) string{
	"strToLower": strings.ToLower, "strToUpper": strings.ToUpper, "strTrimSpace": strings.TrimSpace,
}
var timeFuncs = map[string]func(time.Time) int64{
	"unixNano": func(t time.Time) int64 { return t.UnixNano() }, "minute": func(t time.Time) int64 { return int64(t.Minute()) },
	"hour": func(t time.Time) int64 { return int64(t.Hour()) }, "weekday": func(t time.Time) int64 { return int64(t.Weekday()) },
	"day": func(t time.Time) int64 { return int64(t.Day()) }, "month": func(t time.Time) int64 { return int64(t.Month()) },
	"year": func(t time.Time) int64 { return int64(t.Year()) },
}

// funcType returns the documented result type of f on the argument types, tInvalid if the
// call is not in the signature table. unspec=true when the documentation does not fix it.
func funcType(f string, a []rtype) (ret rtype, unspec bool) {
	is := func(ts ...rtype) bool {
		if len(a) != len(ts) {
			return false
		}
		for i := range ts {
			if a[i] != ts[i] {
				return false
			}
		}
		return true
	}
	in := func(t rtype, ts ...rtype) bool {
		for _, x := range ts {
			if t == x {
				return true
			}
		}
		return false
	}
	if _, ok := math1[f]; ok {
		if is(tFloat) {
			return tFloat, false
		}
		return tInvalid, false
	}
	if _, ok := math2[f]; ok {
		if is(tFloat, tFloat) {
			return tFloat, false
		}
		return tInvalid, false
	}
	if _, ok := str2bool[f]; ok {
		if is(tString, tString) {
			return tBool, false
		}
		return tInvalid, false
	}
	if _, ok := str2int[f]; ok {
		if is(tString, tString) {
			return tInt, false
		}
		return tInvalid, false
	}
	if _, ok := str2str[f]; ok {
		if is(tString, tString) {
			return tString, false
		}
		return tInvalid, false
	}
	if _, ok := str1str[f]; ok {
		if is(tString) {
			return tString, false
		}
		return tInvalid, false
	}
	if _, ok := timeFuncs[f]; ok {
		if is(tTime) {
			return tInt, false
		}
		return tInvalid, false
	}
	switch f {
	case "pow10":
		if is(tInt) {
			return tFloat, false
		}
	case "jn", "yn":
		if is(tInt, tFloat) {
			return tFloat, false
		}
	case "strLength":
		if is(tString) {
			return tInt, false
		}
	case "strReplace":
		if is(tString, tString, tString, tInt) {
			return tString, false
		}
	case "strSubstring":
		if is(tString, tInt, tInt) {
			return tString, false
		}
	case "regexReplace":
		if is(tRegex, tString, tString) {
			return tString, false
		}
	case "bool":
		if len(a) == 1 && in(a[0], tBool, tString, tInt, tFloat) {
			return tBool, false
		}
	case "int":
		if len(a) == 1 && in(a[0], tBool, tString, tInt, tFloat) {
			return tInt, false
		}
		if len(a) == 1 && a[0] == tDur {
			return tInt, true // conversion exists in Call but not in the signature table
		}
	case "float":
		if len(a) == 1 && in(a[0], tBool, tString, tInt, tFloat) {
			return tFloat, false
		}
	case "string":
		if len(a) == 1 && in(a[0], tBool, tString, tInt, tFloat, tDur) {
			return tString, false
		}
	case "duration":
		if is(tDur) || is(tInt, tDur) || is(tFloat, tDur) {
			return tDur, false
		}
		if is(tString) || is(tString, tDur) {
			return tDur, true // the unit argument of the string form is not clearly documented
		}
	case "isPresent":
		if len(a) == 1 && in(a[0], tMissing, tBool, tString, tInt, tFloat) {
			return tBool, false
		}
		if len(a) == 1 {
			return tBool, true
		}
	case "humanBytes":
		if is(tInt) || is(tFloat) {
			return tString, false
		}
	case "if":
		if len(a) == 3 && a[0] == tBool && a[1] == a[2] && in(a[1], tFloat, tInt, tString, tBool, tRegex, tTime, tDur) {
			return a[1], false
		}
	case "sigma", "spread":
		if is(tFloat) {
			return tFloat, false
		}
	case "count":
		if len(a) == 0 {
			return tInt, false
		}
	}
	return tInvalid, false
}

// typeOf is phase 1.
func (in *interp) typeOf(n ast.Node, sc map[string]interface{}) (rtype, error) {
	switch x := n.(type) {
	case *ast.LambdaNode:
		return in.typeOf(x.Expression, sc)
	case *ast.NumberNode:
		if x.IsInt {
			return tInt, nil
		}
		return tFloat, nil
	case *ast.DurationNode:
		return tDur, nil
	case *ast.StringNode:
		return tString, nil
	case *ast.BoolNode:
		return tBool, nil
	case *ast.RegexNode:
		return tRegex, nil
	case *ast.ReferenceNode:
		v, ok := sc[x.Reference]
		if !ok {
			return tInvalid, fmt.Errorf("undefined %q", x.Reference)
		}
		t := typeOfVal(v)
		if t == tInvalid {
			return tInvalid, fmt.Errorf("unsupported value %T", v)
		}
		return t, nil
	case *ast.UnaryNode:
		t, err := in.typeOf(x.Node, sc)
		if err != nil {
			return tInvalid, err
		}
		switch x.Operator {
		case ast.TokenMinus:
			if t == tInt || t == tFloat || t == tDur {
				return t, nil
			}
		case ast.TokenNot:
			if t == tBool {
				return tBool, nil
			}
		}
		return tInvalid, errType
	case *ast.BinaryNode:
		l, err := in.typeOf(x.Left, sc)
		if err != nil {
			return tInvalid, err
		}
		r, err := in.typeOf(x.Right, sc)
		if err != nil {
			return tInvalid, err
		}
		t := binaryType(x.Operator, l, r)
		if t == tInvalid {
			return tInvalid, errType
		}
		return t, nil
	case *ast.FunctionNode:
		var at []rtype
		for _, a := range x.Args {
			t, err := in.typeOf(a, sc)
			if err != nil {
				return tInvalid, err
			}
			at = append(at, t)
		}
		t, unspec := funcType(x.Func, at)
		if unspec {
			in.unspec = true
		}
		if t == tInvalid {
			return tInvalid, errType
		}
		return t, nil
	}
	return tInvalid, fmt.Errorf("unsupported node %T", n)
}

func f2i(in *interp, f float64) int64 {
	if math.IsNaN(f) || f >= 9.2233720368547e18 || f <= -9.2233720368547e18 {
		in.unspec = true
		return 0
	}
	return int64(f)
}

// eval is phase 2 (the expression is known to be well typed for this scope).
func (in *interp) eval(n ast.Node, sc map[string]interface{}) (interface{}, error) {
	switch x := n.(type) {
	case *ast.LambdaNode:
		return in.eval(x.Expression, sc)
	case *ast.NumberNode:
		if x.IsInt {
			return x.Int64, nil
		}
		return x.Float64, nil
	case *ast.DurationNode:
		return x.Dur, nil
	case *ast.StringNode:
		return x.Literal, nil
	case *ast.BoolNode:
		return x.Bool, nil
	case *ast.RegexNode:
		return x.Regex, nil
	case *ast.ReferenceNode:
		v, ok := sc[x.Reference]
		if !ok || typeOfVal(v) == tInvalid {
			return nil, fmt.Errorf("undefined %q", x.Reference)
		}
		return v, nil
	case *ast.UnaryNode:
		v, err := in.eval(x.Node, sc)
		if err != nil {
			return nil, err
		}
		if x.Operator == ast.TokenNot {
			if b, ok := v.(bool); ok {
				return !b, nil
			}
			return nil, errType
		}
		switch a := v.(type) {
		case int64:
			return -a, nil
		case float64:
			return -a, nil
		case time.Duration:
			return -a, nil
		}
		return nil, errType
	case *ast.BinaryNode:
		return in.evalBinary(x, sc)
	case *ast.FunctionNode:
		return in.evalFunc(x, sc)
	}
	return nil, fmt.Errorf("unsupported node %T", n)
}

func cmpOrd(op ast.TokenType, c int) bool {
	switch op {
	case ast.TokenEqual:
		return c == 0
	case ast.TokenNotEqual:
		return c != 0
	case ast.TokenLess:
		return c < 0
	case ast.TokenLessEqual:
		return c <= 0
	case ast.TokenGreater:
		return c > 0
	case ast.TokenGreaterEqual:
		return c >= 0
	}
	return false
}

func cmpFloat(op ast.TokenType, a, b float64) bool {
	switch op {
	case ast.TokenEqual:
		return a == b
	case ast.TokenNotEqual:
		return a != b
	case ast.TokenLess:
		return a < b
	case ast.TokenLessEqual:
		return a <= b
	case ast.TokenGreater:
		return a > b
	case ast.TokenGreaterEqual:
		return a >= b
	}
	return false
}

func (in *interp) evalBinary(x *ast.BinaryNode, sc map[string]interface{}) (interface{}, error) {
	l, err := in.eval(x.Left, sc)
	if err != nil {
		return nil, err
	}
	if x.Operator == ast.TokenAnd || x.Operator == ast.TokenOr {
		lb, ok := l.(bool)
		if !ok {
			return nil, errType
		}
		if x.Operator == ast.TokenAnd && !lb {
			return false, nil
		}
		if x.Operator == ast.TokenOr && lb {
			return true, nil
		}
		r, err := in.eval(x.Right, sc)
		if err != nil {
			return nil, err
		}
		rb, ok := r.(bool)
		if !ok {
			return nil, errType
		}
		return rb, nil
	}
	r, err := in.eval(x.Right, sc)
	if err != nil {
		return nil, err
	}
	op := x.Operator
	if binaryType(op, typeOfVal(l), typeOfVal(r)) == tInvalid {
		return nil, errType
	}
	switch a := l.(type) {
	case bool:
		b := r.(bool)
		if op == ast.TokenEqual {
			return a == b, nil
		}
		return a != b, nil
	case string:
		switch b := r.(type) {
		case string:
			if op == ast.TokenPlus {
				return a + b, nil
			}
			return cmpOrd(op, strings.Compare(a, b)), nil
		case *regexp.Regexp:
			m := b.MatchString(a)
			if op == ast.TokenRegexEqual {
				return m, nil
			}
			return !m, nil
		}
	case int64:
		switch b := r.(type) {
		case int64:
			switch op {
			case ast.TokenPlus:
				return a + b, nil
			case ast.TokenMinus:
				return a - b, nil
			case ast.TokenMult:
				return a * b, nil
			case ast.TokenDiv:
				if b == 0 {
					return nil, errors.New("integer division by zero")
				}
				return a / b, nil
			case ast.TokenMod:
				if b == 0 {
					return nil, errors.New("integer modulo by zero")
				}
				return a % b, nil
			}
			c := 0
			if a < b {
				c = -1
			} else if a > b {
				c = 1
			}
			return cmpOrd(op, c), nil
		case float64:
			if a > 1<<53 || a < -(1<<53) {
				in.unspec = true
			}
			return cmpFloat(op, float64(a), b), nil
		case time.Duration:
			return time.Duration(a) * b, nil
		}
	case float64:
		switch b := r.(type) {
		case float64:
			switch op {
			case ast.TokenPlus:
				return a + b, nil
			case ast.TokenMinus:
				return a - b, nil
			case ast.TokenMult:
				return a * b, nil
			case ast.TokenDiv:
				return a / b, nil
			}
			return cmpFloat(op, a, b), nil
		case int64:
			if b > 1<<53 || b < -(1<<53) {
				in.unspec = true
			}
			return cmpFloat(op, a, float64(b)), nil
		case time.Duration:
			return time.Duration(f2i(in, a*float64(b))), nil
		}
	case time.Duration:
		switch b := r.(type) {
		case time.Duration:
			switch op {
			case ast.TokenPlus:
				return a + b, nil
			case ast.TokenMinus:
				return a - b, nil
			case ast.TokenDiv:
				if b == 0 {
					return nil, errors.New("duration division by zero")
				}
				return int64(a / b), nil
			}
			c := 0
			if a < b {
				c = -1
			} else if a > b {
				c = 1
			}
			return cmpOrd(op, c), nil
		case int64:
			if op == ast.TokenMult {
				return a * time.Duration(b), nil
			}
			if b == 0 {
				return nil, errors.New("duration division by zero")
			}
			return a / time.Duration(b), nil
		case float64:
			if op == ast.TokenMult {
				return time.Duration(f2i(in, float64(a)*b)), nil
			}
			return time.Duration(f2i(in, float64(a)/b)), nil
		}
	}
	return nil, errType
}

func (in *interp) evalFunc(x *ast.FunctionNode, sc map[string]interface{}) (interface{}, error) {
	f := x.Func
	if f == "if" {
		// documented as a function: arguments are evaluated eagerly by the implementation;
		// the documentation does not say so, hence a failing unselected branch is unspecified.
		if len(x.Args) != 3 {
			return nil, errType
		}
		c, err := in.eval(x.Args[0], sc)
		if err != nil {
			return nil, err
		}
		a, errA := in.eval(x.Args[1], sc)
		b, errB := in.eval(x.Args[2], sc)
		cb, ok := c.(bool)
		if !ok {
			return nil, errType
		}
		if errA == nil && errB == nil {
			if t, _ := funcType("if", []rtype{tBool, typeOfVal(a), typeOfVal(b)}); t == tInvalid {
				return nil, errType
			}
		}
		if cb {
			if errA != nil {
				return nil, errA
			}
			if errB != nil {
				in.unspec = true
			}
			return a, nil
		}
		if errB != nil {
			return nil, errB
		}
		if errA != nil {
			in.unspec = true
		}
		return b, nil
	}
	var args []interface{}
	for _, a := range x.Args {
		v, err := in.eval(a, sc)
		if err != nil {
			return nil, err
		}
		args = append(args, v)
	}
	{
		var at []rtype
		for _, a := range args {
			at = append(at, typeOfVal(a))
		}
		t, unspec := funcType(f, at)
		if unspec {
			in.unspec = true
		}
		if t == tInvalid {
			return nil, errType
		}
	}
	if fn, ok := math1[f]; ok {
		return fn(args[0].(float64)), nil
	}
	if fn, ok := math2[f]; ok {
		return fn(args[0].(float64), args[1].(float64)), nil
	}
	if fn, ok := str2bool[f]; ok {
		return fn(args[0].(string), args[1].(string)), nil
	}
	if fn, ok := str2int[f]; ok {
		return int64(fn(args[0].(string), args[1].(string))), nil
	}
	if fn, ok := str2str[f]; ok {
		return fn(args[0].(string), args[1].(string)), nil
	}
	if fn, ok := str1str[f]; ok {
		return fn(args[0].(string)), nil
	}
	if fn, ok := timeFuncs[f]; ok {
		return fn(args[0].(time.Time)), nil
	}
	switch f {
	case "pow10":
		n := args[0].(int64)
		if n > 400 || n < -400 {
			in.unspec = true // int64 -> int narrowing is platform business
			return 0.0, nil
		}
		return math.Pow10(int(n)), nil
	case "jn", "yn":
		n := args[0].(int64)
		if n > 1000 || n < -1000 {
			in.unspec = true
			return 0.0, nil
		}
		if f == "jn" {
			return math.Jn(int(n), args[1].(float64)), nil
		}
		return math.Yn(int(n), args[1].(float64)), nil
	case "strLength":
		return int64(len(args[0].(string))), nil
	case "strReplace":
		n := args[3].(int64)
		if n > 1<<31 || n < -(1<<31) {
			in.unspec = true
			return "", nil
		}
		return strings.Replace(args[0].(string), args[1].(string), args[2].(string), int(n)), nil
	case "strSubstring":
		s, a, b := args[0].(string), args[1].(int64), args[2].(int64)
		if a < 0 || b < 0 || a > b || b > int64(len(s)) {
			return nil, errors.New("substring index out of range")
		}
		if b == int64(len(s)) {
			in.unspec = true // stop == len: accepted by the Go-slice reading, rejected by the code
			return "", nil
		}
		return s[a:b], nil
	case "regexReplace":
		return args[0].(*regexp.Regexp).ReplaceAllString(args[1].(string), args[2].(string)), nil
	case "bool":
		switch a := args[0].(type) {
		case bool:
			return a, nil
		case string:
			return strconv.ParseBool(a)
		case int64:
			if a == 0 {
				return false, nil
			}
			if a == 1 {
				return true, nil
			}
			return nil, errors.New("cannot convert to bool")
		case float64:
			if a == 0 {
				return false, nil
			}
			if a == 1 {
				return true, nil
			}
			return nil, errors.New("cannot convert to bool")
		}
	case "int":
		switch a := args[0].(type) {
		case int64:
			return a, nil
		case float64:
			return f2i(in, a), nil
		case string:
			return strconv.ParseInt(a, 10, 64)
		case bool:
			if a {
				return int64(1), nil
			}
			return int64(0), nil
		case time.Duration:
			return int64(a), nil
		}
	case "float":
		switch a := args[0].(type) {
		case int64:
			return float64(a), nil
		case float64:
			return a, nil
		case string:
			return strconv.ParseFloat(a, 64)
		case bool:
			if a {
				return 1.0, nil
			}
			return 0.0, nil
		}
	case "string":
		switch a := args[0].(type) {
		case int64:
			return strconv.FormatInt(a, 10), nil
		case float64:
			return strconv.FormatFloat(a, 'f', -1, 64), nil
		case bool:
			return strconv.FormatBool(a), nil
		case string:
			return a, nil
		case time.Duration:
			return influxql.FormatDuration(a), nil
		}
	case "duration":
		switch a := args[0].(type) {
		case time.Duration:
			return a, nil
		case int64:
			return time.Duration(a) * args[1].(time.Duration), nil
		case float64:
			return time.Duration(f2i(in, a*float64(args[1].(time.Duration)))), nil
		case string:
			in.unspec = true
			return time.Duration(0), nil
		}
	case "isPresent":
		_, miss := args[0].(*missingT)
		return !miss, nil
	case "humanBytes":
		// mirrors the documented helper (go-humanize); negative / non-finite inputs convert to
		// uint64 in a platform-defined way
		switch a := args[0].(type) {
		case int64:
			if a < 0 {
				in.unspec = true
				return "", nil
			}
			return humanize.Bytes(uint64(a)), nil
		case float64:
			if !(a >= 0 && a < 1.8e19) {
				in.unspec = true
				return "", nil
			}
			return humanize.Bytes(uint64(a)), nil
		}
		return nil, errType
	case "count":
		in.countN++
		return in.countN, nil
	case "spread":
		v := args[0].(float64)
		if v < in.spreadLo {
			in.spreadLo = v
		}
		if v > in.spreadHi {
			in.spreadHi = v
		}
		return in.spreadHi - in.spreadLo, nil
	case "sigma":
		v := args[0].(float64)
		in.sigmaXs = append(in.sigmaXs, v)
		n := float64(len(in.sigmaXs))
		if n < 2 {
			return 0.0, nil
		}
		mean := 0.0
		for _, s := range in.sigmaXs {
			mean += s
		}
		mean /= n
		ss := 0.0
		for _, s := range in.sigmaXs {
			ss += (s - mean) * (s - mean)
		}
		variance := ss / (n - 1)
		if variance == 0 || math.IsNaN(variance) || math.IsInf(variance, 0) {
			in.unspec = true // degenerate: rounding decides between 0 and a huge quotient
			return 0.0, nil
		}
		// ill-conditioned samples (spread tiny against the magnitude, e.g. 1e6 and 1e6+2e-6):
		// every summation order loses the digits the quotient consists of - rounding decides
		maxAbs := 0.0
		for _, s := range in.sigmaXs {
			maxAbs = math.Max(maxAbs, math.Abs(s))
		}
		if maxAbs/math.Sqrt(variance) > 1e4 {
			in.unspec = true
			return 0.0, nil
		}
		in.approx = true
		return math.Abs(v-mean) / math.Sqrt(variance), nil
	}
	return nil, fmt.Errorf("unknown function %s", f)
}

// run = phase 1 + phase 2.
// The implementation types lazily in some places (an operand skipped by short-circuit is not
// always type checked) and eagerly in others (function signatures); the statement does not
// say which. So: error expected iff the lazy (dynamic) evaluation fails; value expected iff
// both the strict typing and the lazy evaluation succeed; strict typing fails but the lazy
// evaluation yields a value => unspecified.
func (in *interp) run(n ast.Node, sc map[string]interface{}) (interface{}, rtype, error) {
	st, serr := in.typeOf(n, sc)
	v, err := in.eval(n, sc)
	if err != nil {
		return nil, st, err
	}
	if serr != nil {
		in.unspec = true
		return v, typeOfVal(v), nil
	}
	return v, typeOfVal(v), nil
}

// Package c04: lambda expressions evaluate to their typed reference semantics.
package c04

import (
	"fmt"
	"math"
	"regexp"
	"strings"
	"time"

	"github.com/influxdata/kapacitor"
	"github.com/influxdata/kapacitor/edge"
	"github.com/influxdata/kapacitor/models"
	"github.com/influxdata/kapacitor/tick/ast"
	"github.com/influxdata/kapacitor/tick/stateful"

	"verifharness/core"
)

type prop struct{}

func init() { core.Register(prop{}) }

func (prop) ID() string    { return "C04" }
func (prop) Level() string { return "exploration" }
func (prop) Rule() string {
	return "matrix: every binary operator x left type x right type (7x7, two value pairs each), every unary operator x type, every built-in x argument-type tuple (arity<=2 exhaustively); gen: seeded typed lambda texts (depth<=4, thorough 5, ~8% deliberately ill-typed operands) parsed by the real parser and evaluated on scope sequences of length 1-6 whose variable types drift (int->float->string->missing->duration...) with boundary values; pred: the same through kapacitor.EvalPredicate on real point messages. " +
		"Oracles: (1) independent two-phase reference interpreter (type table, then short-circuit evaluation; value compared bit-wise for floats, 'is error' for errors), (2) history independence: i-th result on the reused compiled expression == result on a freshly compiled one replayed with the same earlier scopes, (3) copy independence: evaluations interleaved on CopyReset() copies == each copy alone, (4) typed Eval* calls agree with Eval and never panic. " +
		"Non-trivial (counted by expression text hash): parsed, compiled, and at least one scope produced a value (not an error) that was compared"
}
func (prop) Assumptions() []string {
	return []string{
		"the real parser (ast.ParseLambda) is trusted to build the AST the reference interprets (checked separately by C13)",
		"not asserted because the documentation does not fix them: float->int conversions out of int64 range, mixed int/float comparison beyond 2^53, strSubstring with stop==len, eager evaluation of an unselected failing if() branch, int(duration), duration(string), humanBytes text, rand/now values; sigma is compared with relative tolerance 1e-9 and not judged for ill-conditioned samples (max |x| / stddev > 1e4), where rounding decides the digits of the quotient",
		"at most one call site per stateful function per expression",
	}
}
func (prop) MinNontrivial(tier string) int {
	if tier == "thorough" {
		return 100000
	}
	return 4000
}
func (prop) CaseTimeoutSec(string) int { return 60 }

func (prop) Cases(tier string, seed uint64) []core.Case {
	var cs []core.Case
	cs = append(cs, core.Case{ID: "matrix", Kind: "matrix", Seed: seed})
	ngen, per, depth := 48, 500, 4
	if tier == "thorough" {
		ngen, per, depth = 640, 3000, 5
	}
	for i := 0; i < ngen; i++ {
		d := depth
		if i%4 == 0 {
			d = 2
		}
		cs = append(cs, core.Case{ID: fmt.Sprintf("gen-%d", i), Kind: "gen", Seed: seed*7919 + uint64(i), N: per,
			Params: map[string]interface{}{"depth": d, "stateful": i%3 == 1}})
	}
	npred := 8
	if tier == "thorough" {
		npred = 64
	}
	for i := 0; i < npred; i++ {
		cs = append(cs, core.Case{ID: fmt.Sprintf("pred-%d", i), Kind: "pred", Seed: seed*104729 + uint64(i), N: per})
	}
	return cs
}

func (prop) Run(x *core.Ctx) {
	switch x.Case.Kind {
	case "matrix":
		runMatrix(x)
	case "gen":
		runGen(x)
	case "pred":
		runPred(x)
	}
}

// ---- plumbing ---------------------------------------------------------------------------------

func realScope(sc map[string]interface{}) *stateful.Scope {
	s := stateful.NewScope()
	for k, v := range sc {
		if _, ok := v.(*missingT); ok {
			s.Set(k, ast.MissingValue)
		} else {
			s.Set(k, v)
		}
	}
	return s
}

type outcome struct {
	v     interface{}
	err   string
	panic string
}

func (o outcome) String() string {
	if o.panic != "" {
		return "PANIC(" + o.panic + ")"
	}
	if o.err != "" {
		return "error(" + o.err + ")"
	}
	return valString(o.v)
}

func evalReal(e stateful.Expression, sc map[string]interface{}) (o outcome) {
	defer func() {
		if r := recover(); r != nil {
			o = outcome{panic: fmt.Sprint(r)}
		}
	}()
	v, err := e.Eval(realScope(sc))
	if err != nil {
		return outcome{err: err.Error()}
	}
	if _, ok := v.(*ast.Missing); ok {
		v = missingV
	}
	if v == nil {
		return outcome{err: "nil result without error"}
	}
	return outcome{v: v}
}

// evalTyped calls the typed entry point the nodes use (no recover inside the product).
func evalTyped(e stateful.Expression, t rtype, sc map[string]interface{}) (o outcome) {
	defer func() {
		if r := recover(); r != nil {
			o = outcome{panic: fmt.Sprint(r)}
		}
	}()
	s := realScope(sc)
	if _, err := e.Type(s); err != nil {
		return outcome{err: err.Error()}
	}
	var v interface{}
	var err error
	switch t {
	case tBool:
		v, err = e.EvalBool(s)
	case tInt:
		v, err = e.EvalInt(s)
	case tFloat:
		v, err = e.EvalFloat(s)
	case tString:
		v, err = e.EvalString(s)
	case tDur:
		v, err = e.EvalDuration(s)
	default:
		return outcome{err: "n/a"}
	}
	if err != nil {
		return outcome{err: err.Error()}
	}
	return outcome{v: v}
}

func sameVal(a, b interface{}, approx bool) bool {
	switch x := a.(type) {
	case float64:
		y, ok := b.(float64)
		if !ok {
			return false
		}
		if math.IsNaN(x) && math.IsNaN(y) {
			return true
		}
		if approx {
			if x == y {
				return true
			}
			d := math.Abs(x - y)
			return d <= 1e-9*math.Max(math.Abs(x), math.Abs(y)) || d < 1e-300
		}
		return math.Float64bits(x) == math.Float64bits(y)
	case int64:
		y, ok := b.(int64)
		return ok && x == y
	case string:
		y, ok := b.(string)
		return ok && x == y
	case bool:
		y, ok := b.(bool)
		return ok && x == y
	case time.Duration:
		y, ok := b.(time.Duration)
		return ok && x == y
	case *missingT:
		_, ok := b.(*missingT)
		return ok
	}
	return false
}

func sameOutcome(a, b outcome) bool {
	if a.panic != "" || b.panic != "" {
		return a.panic != "" && b.panic != ""
	}
	if (a.err != "") != (b.err != "") {
		return false
	}
	if a.err != "" {
		return true
	}
	return sameVal(a.v, b.v, false)
}

func isStateful(text string) bool {
	return strings.Contains(text, "count(") || strings.Contains(text, "sigma(") || strings.Contains(text, "spread(")
}

// checkExpr runs all oracles for one expression text over a scope sequence.
// Returns whether at least one value was compared.
func checkExpr(x *core.Ctx, text string, scopes []map[string]interface{}, alt []map[string]interface{}) bool {
	if !x.Announce(text) {
		return false
	}
	x.Count("evaluations", 1)
	node, err := ast.ParseLambda(text)
	if err != nil {
		x.Count("parse_rejected", 1)
		x.SetAdd("parse_errors", firstWords(err.Error(), 5))
		return false
	}
	in := newInterp()
	expr, cerr := stateful.NewExpression(node.Expression)
	if cerr != nil {
		// a compile-time rejection is fine only if the reference rejects every scope too
		for _, sc := range scopes {
			ri := newInterp()
			v, _, rerr := ri.run(node.Expression, sc)
			if rerr == nil && !ri.unspec {
				x.Violatef("lambda-compile-rejects-valid", "compile-rejects-valid: "+clip(text), text, "NewExpression(%s) failed with %q but the reference evaluates it to %s on scope %s", text, cerr, valString(v), scopeString(sc, text))
				break
			}
		}
		x.Count("compile_rejected", 1)
		return false
	}
	st := isStateful(text)
	compared := false
	var reals []outcome
	statefulBroken := false // after an error in a stateful expression the reference state is no longer comparable
	for i, sc := range scopes {
		real := evalReal(expr, sc)
		reals = append(reals, real)
		in.unspec, in.opaque, in.approx = false, false, false
		rv, rt, rerr := in.run(node.Expression, sc)
		x.Count("scope_evaluations", 1)
		if i > 0 && typesChanged(scopes[i-1], sc, text) {
			x.Count("evaluations_after_a_type_change", 1)
		}
		if real.panic != "" {
			x.Violatef("lambda-panic", "panic in Eval: "+real.panic, text, "Eval(%s) on %s panicked: %s", text, scopeString(sc, text), real.panic)
			continue
		}
		if st && statefulBroken {
			continue
		}
		if in.unspec {
			x.Count("unspecified_by_documentation", 1)
			if st {
				statefulBroken = true
			}
			continue
		}
		if rt == tRegex || rt == tTime || rt == tMissing {
			continue // top-level results of these types are not values of the lambda language
		}
		if rerr != nil {
			x.Count("reference_errors", 1)
			if st {
				statefulBroken = true
			}
			if real.err == "" {
				x.Violatef("lambda-value-where-error-expected", "value-where-error: "+clip(text), text, "evaluation #%d of %s on %s: got %s, the reference reports an error (%v)", i+1, text, scopeString(sc, text), real, rerr)
			}
			continue
		}
		if real.err != "" {
			if st {
				statefulBroken = true
			}
			x.Violatef("lambda-error-where-value-expected", "error-where-value: "+clip(text), text, "evaluation #%d of %s on %s: got %s, the reference yields %s; earlier scopes: %s", i+1, text, scopeString(sc, text), real, valString(rv), prevScopes(scopes[:i], text))
			continue
		}
		if in.approx && rt != tFloat {
			// a tolerance-compared float (sigma) was turned into another type: not comparable exactly
			x.Count("unspecified_by_documentation", 1)
			continue
		}
		if in.opaque {
			if typeOfVal(real.v) != rt {
				x.Violatef("lambda-type-mismatch", "type-mismatch: "+clip(text), text, "%s on %s: got %s, reference type %s", text, scopeString(sc, text), real, rt)
			}
			continue
		}
		compared = true
		x.Count("values_compared", 1)
		x.SetAdd("result_types", rt.String())
		if in.approx && !strings.HasPrefix(text, "sigma(") && !sameVal(real.v, rv, true) {
			// sigma differs from the two-pass reference in the last bits (summation order); once
			// that passes through a discontinuous function (mod, floor, comparisons, int()) the
			// difference is unbounded. Only a top-level sigma() is judged numerically.
			x.Count("unspecified_by_documentation", 1)
			continue
		}
		if !sameVal(real.v, rv, in.approx) {
			x.Violatef("lambda-value-mismatch", "value-mismatch: "+clip(text), text, "evaluation #%d of %s on %s: got %s, reference %s; earlier scopes: %s", i+1, text, scopeString(sc, text), real, valString(rv), prevScopes(scopes[:i], text))
			continue
		}
		// oracle 4: the typed entry point agrees with Eval and does not panic
		fresh, _ := stateful.NewExpression(node.Expression)
		if fresh != nil && !st {
			to := evalTyped(fresh, rt, sc)
			if to.panic != "" {
				x.Violatef("lambda-panic", "panic in typed eval: "+to.panic, text, "Eval%s(%s) on %s panicked: %s", rt, text, scopeString(sc, text), to.panic)
			} else if !sameOutcome(to, real) {
				x.Violatef("lambda-typed-eval-differs", "typed-differs: "+clip(text), text, "%s on %s: Eval gives %s, typed Eval%s gives %s", text, scopeString(sc, text), real, rt, to)
			}
		}
	}
	// oracle 4b: arithmetic faults must surface as errors from the typed entry points too
	// (nodes call EvalBool/EvalInt directly, without the recover that Eval has)
	if !st {
		for _, sc := range scopes {
			ri := newInterp()
			_, rt, _ := ri.run(node.Expression, sc)
			if rt == tInvalid || rt == tRegex || rt == tTime || rt == tMissing {
				continue
			}
			fresh, _ := stateful.NewExpression(node.Expression)
			if fresh == nil {
				break
			}
			to := evalTyped(fresh, rt, sc)
			if to.panic != "" {
				x.Violatef("lambda-panic", "panic in typed eval: "+to.panic, text, "Eval%s(%s) on %s panicked: %s", rt, text, scopeString(sc, text), to.panic)
			}
		}
	}
	// oracle 2: history independence
	for i := range scopes {
		fresh, err := stateful.NewExpression(node.Expression)
		if err != nil {
			break
		}
		var o outcome
		if st {
			for j := 0; j <= i; j++ {
				o = evalReal(fresh, scopes[j])
			}
		} else {
			o = evalReal(fresh, scopes[i])
		}
		x.Count("history_independence_checks", 1)
		if !sameOutcome(o, reals[i]) {
			x.Violatef("lambda-history-dependence", "history-dependence: "+clip(text), text, "evaluation #%d of %s on %s: the reused compiled expression gives %s, a freshly compiled one gives %s; earlier scopes: %s", i+1, text, scopeString(scopes[i], text), reals[i], o, prevScopes(scopes[:i], text))
			break
		}
	}
	// oracle 3: copy independence (interleave two copies, compare copy A with `reals` of a
	// fresh expression, which by oracle 2 equals evaluating the sequence alone)
	if len(alt) > 0 {
		base, err := stateful.NewExpression(node.Expression)
		if err == nil {
			// dirty the template first: state of the original must not leak into copies
			for _, sc := range alt {
				evalReal(base, sc)
			}
			ca, cb := base.CopyReset(), base.CopyReset()
			alone, _ := stateful.NewExpression(node.Expression)
			for i, sc := range scopes {
				oa := evalReal(ca, sc)
				evalReal(cb, alt[i%len(alt)])
				want := evalReal(alone, sc)
				x.Count("copy_independence_checks", 1)
				if !sameOutcome(oa, want) {
					x.Violatef("lambda-copy-dependence", "copy-dependence: "+clip(text), text, "evaluation #%d of %s on %s: a CopyReset() copy interleaved with another copy gives %s, evaluated alone %s", i+1, text, scopeString(sc, text), oa, want)
					break
				}
			}
		}
	}
	if compared {
		x.Nontrivial(text)
	}
	return compared
}

func typesChanged(a, b map[string]interface{}, text string) bool {
	for _, v := range varOrder {
		if strings.Contains(text, "\""+v+"\"") && typeOfVal(a[v]) != typeOfVal(b[v]) {
			return true
		}
	}
	return false
}

func prevScopes(l []map[string]interface{}, text string) string {
	var p []string
	for _, sc := range l {
		p = append(p, scopeString(sc, text))
	}
	return strings.Join(p, " ; ")
}

func clip(s string) string {
	if len(s) > 90 {
		return s[:90] + "…"
	}
	return s
}

func firstWords(s string, n int) string {
	w := strings.Fields(s)
	if len(w) > n {
		w = w[:n]
	}
	return strings.Join(w, " ")
}

// ---- gen ----------------------------------------------------------------------------------------

func runGen(x *core.Ctx) {
	r := core.NewRng(x.Case.Seed, 4)
	depth := x.Case.PInt("depth", 3)
	for i := 0; i < x.Case.N; i++ {
		g := &gen{r: r, usedStat: map[string]bool{}, illRate: 0.04, stateful: x.Case.PBool("stateful")}
		if r.Chance(0.3) {
			g.illRate = 0.12
		}
		t := valueTypes[r.Intn(len(valueTypes))]
		text := g.expr(t, r.Range(1, depth))
		k := r.Range(1, 6)
		drift := []float64{0, 0.1, 0.35}[r.Intn(3)]
		var scopes, alt []map[string]interface{}
		for j := 0; j < k; j++ {
			scopes = append(scopes, randScope(r, drift))
		}
		if i%3 == 0 {
			for j := 0; j < 3; j++ {
				alt = append(alt, randScope(r, 0.35))
			}
		}
		ok := checkExpr(x, text, scopes, alt)
		if i < 1 && ok {
			x.Sample(map[string]interface{}{"lambda": text, "scopes": prevScopes(scopes, text)})
		}
		if x.NumViolations() > 400 {
			return
		}
	}
}

// ---- matrix -------------------------------------------------------------------------------------

var allTypes = []rtype{tBool, tInt, tFloat, tString, tDur, tTime, tMissing}

func pairVals(t rtype) []interface{} {
	switch t {
	case tBool:
		return []interface{}{true, false}
	case tInt:
		return []interface{}{int64(7), int64(0), int64(-3), int64(math.MinInt64)}
	case tFloat:
		return []interface{}{2.5, 0.0, -1.0, math.NaN()}
	case tString:
		return []interface{}{"abc", "", "b", "010", "0x10", "1_000"}
	case tDur:
		return []interface{}{time.Second, time.Duration(0), -time.Minute}
	case tTime:
		return []interface{}{timeVals[1]}
	case tMissing:
		return []interface{}{missingV}
	}
	return nil
}

func runMatrix(x *core.Ctx) {
	ops := []string{"+", "-", "*", "/", "%", "==", "!=", "<", "<=", ">", ">=", "AND", "OR", "=~", "!~"}
	for _, op := range ops {
		for _, lt := range allTypes {
			for _, rt := range append(append([]rtype{}, allTypes...), tRegex) {
				x.SetAdd("operator_type_pairs", fmt.Sprintf("%s:%s:%s", op, lt, rt))
				var scopes []map[string]interface{}
				rhs := "\"y\""
				if rt == tRegex {
					rhs = "/b/"
				}
				for _, lv := range pairVals(lt) {
					rvs := pairVals(rt)
					if rt == tRegex {
						rvs = []interface{}{nil}
					}
					for _, rv := range rvs {
						sc := map[string]interface{}{"x": lv}
						if rv != nil {
							sc["y"] = rv
						}
						scopes = append(scopes, sc)
					}
				}
				// each scope alone (fresh expression) and then all in sequence on one expression
				text := "\"x\" " + op + " " + rhs
				for _, sc := range scopes {
					checkExprXY(x, text, []map[string]interface{}{sc})
				}
				checkExprXY(x, text, scopes)
				// literal on one side (constant folding paths)
				for _, lit := range []string{"1", "1.5", "'abc'", "TRUE", "1s"} {
					checkExprXY(x, lit+" "+op+" "+rhs, scopes)
					if rt != tRegex {
						checkExprXY(x, "\"x\" "+op+" "+lit, scopes)
					}
				}
			}
		}
	}
	// a stateful function on one side, a variable whose type changes between evaluations on the
	// other: the function must advance exactly once per evaluation whatever the type does
	for _, f := range []string{"count()", "sigma(\"x\")", "spread(\"x\")"} {
		for _, op := range []string{"+", "-", "*", "/", "%", "==", "<", ">="} {
			for _, t1 := range allTypes {
				for _, t2 := range allTypes {
					if t1 == t2 {
						continue
					}
					v1, v2 := pairVals(t1), pairVals(t2)
					var scopes []map[string]interface{}
					for i, v := range []interface{}{v1[0], v1[len(v1)-1], v2[0], v2[len(v2)-1], v1[0], v2[0]} {
						scopes = append(scopes, map[string]interface{}{"x": float64(i) * 1.5, "y": v})
					}
					checkExprXY(x, f+" "+op+" \"y\"", scopes)
					checkExprXY(x, "\"y\" "+op+" "+f, scopes)
				}
			}
		}
	}
	for _, op := range []string{"-", "!"} {
		for _, t := range allTypes {
			var scopes []map[string]interface{}
			for _, v := range pairVals(t) {
				scopes = append(scopes, map[string]interface{}{"x": v})
			}
			checkExprXY(x, op+"\"x\"", scopes)
			x.SetAdd("operator_type_pairs", fmt.Sprintf("unary%s:%s", op, t))
		}
	}
	// built-ins x argument types
	var fnames []string
	for _, m := range []interface{}{math1, math2, str2bool, str2int, str2str, str1str, timeFuncs} {
		switch mm := m.(type) {
		case map[string]func(float64) float64:
			for k := range mm {
				fnames = append(fnames, k)
			}
		case map[string]func(float64, float64) float64:
			for k := range mm {
				fnames = append(fnames, k)
			}
		case map[string]func(string, string) bool:
			for k := range mm {
				fnames = append(fnames, k)
			}
		case map[string]func(string, string) int:
			for k := range mm {
				fnames = append(fnames, k)
			}
		case map[string]func(string, string) string:
			for k := range mm {
				fnames = append(fnames, k)
			}
		case map[string]func(string) string:
			for k := range mm {
				fnames = append(fnames, k)
			}
		case map[string]func(time.Time) int64:
			for k := range mm {
				fnames = append(fnames, k)
			}
		}
	}
	fnames = append(fnames, "pow10", "jn", "yn", "strLength", "bool", "int", "float", "string", "duration", "isPresent", "humanBytes", "sigma", "spread", "count")
	sortStrings(fnames)
	for _, f := range fnames {
		x.SetAdd("builtins", f)
		checkExprXY(x, f+"()", []map[string]interface{}{{}})
		for _, a := range allTypes {
			var sc1 []map[string]interface{}
			for _, v := range pairVals(a) {
				sc1 = append(sc1, map[string]interface{}{"x": v})
			}
			checkExprXY(x, f+"(\"x\")", sc1)
			for _, b := range allTypes {
				var sc2 []map[string]interface{}
				for _, v := range pairVals(a) {
					if iv, ok := v.(int64); ok && (f == "jn" || f == "yn") && (iv > 1000 || iv < -1000) {
						continue // math.Jn/Yn loop |n| times: a huge order is a hang (C05), not a value question
					}
					for _, w := range pairVals(b) {
						sc2 = append(sc2, map[string]interface{}{"x": v, "y": w})
					}
				}
				checkExprXY(x, f+"(\"x\", \"y\")", sc2)
			}
		}
	}
	// 3/4-ary built-ins on representative tuples
	for _, text := range []string{
		"strReplace(\"x\", 'b', 'zz', 1)", "strReplace(\"x\", 'b', 'zz', -1)", "strReplace(\"x\", \"y\", 'q', 2)",
		"strSubstring(\"x\", 0, 2)", "strSubstring(\"x\", 1, 1)", "strSubstring(\"x\", 2, 1)", "strSubstring(\"x\", -1, 1)", "strSubstring(\"x\", 0, 9)",
		"regexReplace(/b+/, \"x\", 'Q')", "regexReplace(/(a)(b)/, \"x\", '$2$1')",
		"if(\"y\", \"x\", \"x\")", "if(\"y\", 1, 2)", "if(\"y\", 1, 2.0)", "if(TRUE, \"x\", 'lit')", "if(\"y\", 1s, 2s)",
		"duration(\"x\", 1s)", "duration(\"x\", \"y\")",
	} {
		x.SetAdd("builtins", text[:strings.Index(text, "(")])
		var scs []map[string]interface{}
		for _, a := range allTypes {
			for _, v := range pairVals(a) {
				for _, w := range []interface{}{true, false, "b", int64(1), time.Second} {
					scs = append(scs, map[string]interface{}{"x": v, "y": w})
				}
			}
		}
		checkExprXY(x, text, scs)
	}
}

func sortStrings(l []string) {
	for i := 1; i < len(l); i++ {
		for j := i; j > 0 && l[j] < l[j-1]; j-- {
			l[j], l[j-1] = l[j-1], l[j]
		}
	}
}

// checkExprXY is checkExpr for the matrix (variables x, y instead of the nominal ones).
func checkExprXY(x *core.Ctx, text string, scopes []map[string]interface{}) {
	saved := varOrder
	varOrder = []string{"x", "y"}
	checkExpr(x, text, scopes, nil)
	varOrder = saved
}

// ---- pred: through kapacitor.EvalPredicate with real messages --------------------------------

func runPred(x *core.Ctx) {
	r := core.NewRng(x.Case.Seed, 44)
	for i := 0; i < x.Case.N; i++ {
		g := &gen{r: r, usedStat: map[string]bool{}, illRate: 0.05}
		text := g.expr(tBool, r.Range(1, 3))
		if !x.Announce("pred " + text) {
			continue
		}
		x.Count("evaluations", 1)
		node, err := ast.ParseLambda(text)
		if err != nil {
			x.Count("parse_rejected", 1)
			continue
		}
		expr, err := stateful.NewExpression(node.Expression)
		if err != nil {
			x.Count("compile_rejected", 1)
			continue
		}
		pool := stateful.NewScopePool(ast.FindReferenceVariables(node.Expression))
		compared := false
		for k := 0; k < r.Range(1, 5); k++ {
			sc := randScope(r, 0.2)
			// split the variables into fields and tags; strings may be tags; sometimes collide
			fields := models.Fields{}
			tags := models.Tags{}
			ref := map[string]interface{}{}
			collide := ""
			for _, v := range varOrder {
				if v == "time" {
					continue
				}
				val := sc[v]
				switch vv := val.(type) {
				case *missingT:
					ref[v] = missingV
				case string:
					if r.Bool() {
						tags[v] = vv
					} else {
						fields[v] = vv
					}
					ref[v] = vv
					if r.Chance(0.03) && strings.Contains(text, "\""+v+"\"") {
						tags[v] = vv
						fields[v] = vv
						collide = v
					}
				case time.Duration:
					// durations do not occur as field values in line protocol; keep as missing
					ref[v] = missingV
				default:
					fields[v] = val
					ref[v] = val
				}
			}
			tm := sc["time"].(time.Time)
			ref["time"] = tm.Local()
			p := edge.NewPointMessage("m", "db", "rp", models.Dimensions{}, fields, tags, tm)
			var got outcome
			func() {
				defer func() {
					if rr := recover(); rr != nil {
						got = outcome{panic: fmt.Sprint(rr)}
					}
				}()
				b, err := kapacitor.EvalPredicate(expr, pool, p)
				if err != nil {
					got = outcome{err: err.Error()}
				} else {
					got = outcome{v: b}
				}
			}()
			x.Count("scope_evaluations", 1)
			if got.panic != "" {
				x.Violatef("lambda-panic", "panic in EvalPredicate: "+got.panic, text, "EvalPredicate(%s) on fields=%v tags=%v panicked: %s", text, fields, tags, got.panic)
				continue
			}
			in := newInterp()
			rv, rt, rerr := in.run(node.Expression, ref)
			if in.unspec || in.opaque {
				continue
			}
			if collide != "" {
				if got.err == "" {
					x.Violatef("lambda-field-tag-collision-accepted", "collision: "+clip(text), text, "%s: %q is both a field and a tag, got %s instead of an error", text, collide, got)
				}
				continue
			}
			if rerr != nil || rt != tBool {
				if got.err == "" {
					x.Violatef("lambda-value-where-error-expected", "pred value-where-error: "+clip(text), text, "EvalPredicate(%s) fields=%v tags=%v: got %s, reference error %v (type %s)", text, fields, tags, got, rerr, rt)
				}
				continue
			}
			if got.err != "" {
				x.Violatef("lambda-error-where-value-expected", "pred error-where-value: "+clip(text), text, "EvalPredicate(%s) fields=%v tags=%v: got %s, reference %v", text, fields, tags, got, rv)
				continue
			}
			compared = true
			x.Count("values_compared", 1)
			if got.v.(bool) != rv.(bool) {
				x.Violatef("lambda-value-mismatch", "pred value-mismatch: "+clip(text), text, "EvalPredicate(%s) fields=%v tags=%v: got %v, reference %v", text, fields, tags, got.v, rv)
			}
		}
		if compared {
			x.Nontrivial("pred:" + text)
		}
	}
}

var _ = regexp.MustCompile

package c04

import (
	"fmt"
	"github.com/influxdata/kapacitor/tick/stateful"
	"math"
	"strings"
	"time"

	"verifharness/core"
)

// Text generator for lambda expressions. The text is parsed by the real parser so the ASTs
// have the shapes the product really evaluates.

type gen struct {
	r        *core.Rng
	usedStat map[string]bool // at most one call site per stateful function
	illRate  float64
	stateful bool
	// smallInts: no integer literals beyond 2^53 (JSON consumers lose them, reported separately)
	smallInts bool
	// wild: unary operators and regex literals may appear anywhere an operand may (hostile but
	// accepted by the parser), e.g. "s1" =~ -/re/, !'abc', -TRUE
	wild bool
}

var intLits = []string{"0", "1", "2", "3", "7", "10", "100", "9223372036854775807", "4611686018427387904"}
var floatLits = []string{"0.0", "1.0", "2.0", "0.5", "2.5", "100.0", "1000000.0", "0.1"}
var strLits = []string{"''", "'a'", "'abc'", "'ab'", "'1'", "'true'", "'1.5'", "'10s'", "'héllo'", "'a b'", "'A'", "'bc'"}
var durLits = []string{"0s", "1s", "10s", "1m", "1h", "5ms", "1d", "3u"}
var reLits = []string{"/a/", "/^a.*c$/", "/[0-9]+/", "/b+/", "/^$/", "/é/"}

func (g *gen) ref(t rtype) string {
	n := g.r.Intn(2) + 1
	switch t {
	case tInt:
		return fmt.Sprintf("\"i%d\"", n)
	case tFloat:
		return fmt.Sprintf("\"f%d\"", n)
	case tString:
		return fmt.Sprintf("\"s%d\"", n)
	case tBool:
		return fmt.Sprintf("\"b%d\"", n)
	case tDur:
		return fmt.Sprintf("\"d%d\"", n)
	case tTime:
		return "\"time\""
	}
	return "\"i1\""
}

func (g *gen) lit(t rtype) string {
	switch t {
	case tInt:
		if g.smallInts {
			return g.r.Pick(intLits[:7])
		}
		return g.r.Pick(intLits)
	case tFloat:
		return g.r.Pick(floatLits)
	case tString:
		return g.r.Pick(strLits)
	case tBool:
		if g.r.Bool() {
			return "TRUE"
		}
		return "FALSE"
	case tDur:
		return g.r.Pick(durLits)
	case tRegex:
		return g.r.Pick(reLits)
	case tTime:
		return "\"time\""
	}
	return "1"
}

var valueTypes = []rtype{tBool, tInt, tFloat, tString, tDur}

func (g *gen) par(s string) string {
	return "(" + s + ")"
}

func (g *gen) binop(l, op, r string) string {
	s := l + " " + op + " " + r
	if g.r.Chance(0.7) {
		return g.par(s)
	}
	return s
}

// expr generates an expression intended to have type t (unless the ill-typing dice say no).
func (g *gen) expr(t rtype, depth int) string {
	if g.wild && g.r.Chance(0.06) {
		inner := g.expr(t, depth-1)
		if g.r.Chance(0.3) {
			inner = g.lit([]rtype{tRegex, tString, tBool, tDur, tInt}[g.r.Intn(5)])
		}
		return g.r.Pick([]string{"-", "!", "-", "--", "!-"}) + inner
	}
	if g.wild && g.r.Chance(0.03) {
		// wrong arity, also far beyond what any built-in takes
		n := g.r.Range(0, 7)
		var as []string
		for i := 0; i < n; i++ {
			as = append(as, g.lit([]rtype{tFloat, tInt, tString, tBool}[g.r.Intn(4)]))
		}
		return g.r.Pick([]string{"abs", "strLength", "if", "count", "sigma", "duration", "bool", "strReplace", "unixNano", "undefinedFunc"}) + "(" + strings.Join(as, ", ") + ")"
	}
	if g.r.Chance(g.illRate) {
		// deliberately ill-typed: an operand of another type
		o := valueTypes[g.r.Intn(len(valueTypes))]
		if o != t {
			return g.expr(o, depth)
		}
	}
	if t == tRegex {
		return g.lit(tRegex)
	}
	if t == tTime {
		return "\"time\""
	}
	if depth <= 0 || g.r.Chance(0.15) {
		if g.r.Chance(0.6) {
			return g.ref(t)
		}
		return g.lit(t)
	}
	d := depth - 1
	switch t {
	case tBool:
		switch g.r.Intn(12) {
		case 0, 1:
			k := []rtype{tInt, tFloat}[g.r.Intn(2)]
			k2 := k
			if g.r.Chance(0.4) {
				k2 = []rtype{tInt, tFloat}[g.r.Intn(2)]
			}
			return g.binop(g.expr(k, d), g.r.Pick([]string{"==", "!=", "<", "<=", ">", ">="}), g.expr(k2, d))
		case 2:
			return g.binop(g.expr(tString, d), g.r.Pick([]string{"==", "!=", "<", "<=", ">", ">="}), g.expr(tString, d))
		case 3:
			return g.binop(g.expr(tDur, d), g.r.Pick([]string{"==", "!=", "<", "<=", ">", ">="}), g.expr(tDur, d))
		case 4, 5:
			return g.binop(g.expr(tBool, d), g.r.Pick([]string{"AND", "OR"}), g.expr(tBool, d))
		case 6:
			return "!" + g.par(g.expr(tBool, d))
		case 7:
			return g.binop(g.expr(tString, d), g.r.Pick([]string{"=~", "!~"}), g.lit(tRegex))
		case 8:
			return g.r.Pick([]string{"strContains", "strContainsAny", "strHasPrefix", "strHasSuffix"}) + "(" + g.expr(tString, d) + ", " + g.expr(tString, d) + ")"
		case 9:
			return "bool(" + g.expr([]rtype{tBool, tString, tInt, tFloat}[g.r.Intn(4)], d) + ")"
		case 10:
			return "isPresent(" + g.ref([]rtype{tInt, tFloat, tString, tBool}[g.r.Intn(4)]) + ")"
		default:
			return g.binop(g.expr(tBool, d), g.r.Pick([]string{"==", "!="}), g.expr(tBool, d))
		}
	case tInt:
		switch g.r.Intn(12) {
		case 0, 1, 2:
			return g.binop(g.expr(tInt, d), g.r.Pick([]string{"+", "-", "*", "/", "%"}), g.expr(tInt, d))
		case 3:
			return "-" + g.par(g.expr(tInt, d))
		case 4:
			return g.r.Pick([]string{"strCount", "strIndex", "strIndexAny", "strLastIndex", "strLastIndexAny"}) + "(" + g.expr(tString, d) + ", " + g.expr(tString, d) + ")"
		case 5:
			return "strLength(" + g.expr(tString, d) + ")"
		case 6, 7:
			return "int(" + g.expr([]rtype{tBool, tString, tInt, tFloat}[g.r.Intn(4)], d) + ")"
		case 8:
			if g.stateful && !g.usedStat["count"] {
				g.usedStat["count"] = true
				return "count()"
			}
			return g.ref(tInt)
		case 9:
			return g.r.Pick([]string{"unixNano", "minute", "hour", "weekday", "day", "month", "year"}) + "(\"time\")"
		case 10:
			return g.binop(g.expr(tDur, d), "/", g.expr(tDur, d))
		default:
			return "if(" + g.expr(tBool, d) + ", " + g.expr(tInt, d) + ", " + g.expr(tInt, d) + ")"
		}
	case tFloat:
		switch g.r.Intn(12) {
		case 0, 1, 2:
			return g.binop(g.expr(tFloat, d), g.r.Pick([]string{"+", "-", "*", "/"}), g.expr(tFloat, d))
		case 3:
			return "-" + g.par(g.expr(tFloat, d))
		case 4, 5:
			names := make([]string, 0, len(math1))
			for _, n := range math1Names {
				names = append(names, n)
			}
			return g.r.Pick(names) + "(" + g.expr(tFloat, d) + ")"
		case 6:
			return g.r.Pick([]string{"atan2", "hypot", "max", "min", "mod", "pow"}) + "(" + g.expr(tFloat, d) + ", " + g.expr(tFloat, d) + ")"
		case 7:
			if g.r.Bool() {
				return "pow10(" + g.expr(tInt, d) + ")"
			}
			// order argument: small literals only (math.Jn loops |n| times: a huge order is a hang, see C05)
			return g.r.Pick([]string{"jn", "yn"}) + "(" + g.r.Pick([]string{"0", "1", "2", "5"}) + ", " + g.expr(tFloat, d) + ")"
		case 8, 9:
			return "float(" + g.expr([]rtype{tBool, tString, tInt, tFloat}[g.r.Intn(4)], d) + ")"
		case 10:
			if g.stateful {
				f := g.r.Pick([]string{"sigma", "spread"})
				if !g.usedStat[f] {
					g.usedStat[f] = true
					return f + "(" + g.expr(tFloat, d) + ")"
				}
			}
			return g.ref(tFloat)
		default:
			return "if(" + g.expr(tBool, d) + ", " + g.expr(tFloat, d) + ", " + g.expr(tFloat, d) + ")"
		}
	case tString:
		switch g.r.Intn(11) {
		case 0, 1:
			return g.binop(g.expr(tString, d), "+", g.expr(tString, d))
		case 2:
			return g.r.Pick([]string{"strTrim", "strTrimLeft", "strTrimPrefix", "strTrimRight", "strTrimSuffix"}) + "(" + g.expr(tString, d) + ", " + g.expr(tString, d) + ")"
		case 3:
			return g.r.Pick([]string{"strToLower", "strToUpper", "strTrimSpace"}) + "(" + g.expr(tString, d) + ")"
		case 4, 5:
			return "string(" + g.expr(valueTypes[g.r.Intn(len(valueTypes))], d) + ")"
		case 6:
			return "strReplace(" + g.expr(tString, d) + ", " + g.expr(tString, d) + ", " + g.expr(tString, d) + ", " + g.expr(tInt, 0) + ")"
		case 7:
			return "strSubstring(" + g.expr(tString, d) + ", " + g.expr(tInt, 0) + ", " + g.expr(tInt, 0) + ")"
		case 8:
			return "regexReplace(" + g.lit(tRegex) + ", " + g.expr(tString, d) + ", " + g.expr(tString, d) + ")"
		case 9:
			return "humanBytes(" + g.expr([]rtype{tInt, tFloat}[g.r.Intn(2)], d) + ")"
		default:
			return "if(" + g.expr(tBool, d) + ", " + g.expr(tString, d) + ", " + g.expr(tString, d) + ")"
		}
	case tDur:
		switch g.r.Intn(10) {
		case 0, 1:
			return g.binop(g.expr(tDur, d), g.r.Pick([]string{"+", "-"}), g.expr(tDur, d))
		case 2:
			return g.binop(g.expr(tDur, d), "*", g.expr([]rtype{tInt, tFloat}[g.r.Intn(2)], d))
		case 3:
			return g.binop(g.expr([]rtype{tInt, tFloat}[g.r.Intn(2)], d), "*", g.expr(tDur, d))
		case 4, 5:
			return g.binop(g.expr(tDur, d), "/", g.expr([]rtype{tInt, tFloat}[g.r.Intn(2)], d))
		case 6:
			return "-" + g.par(g.expr(tDur, d))
		case 7:
			return "duration(" + g.expr([]rtype{tInt, tFloat}[g.r.Intn(2)], d) + ", " + g.lit(tDur) + ")"
		case 8:
			return "duration(" + g.expr(tDur, d) + ")"
		default:
			return "if(" + g.expr(tBool, d) + ", " + g.expr(tDur, d) + ", " + g.expr(tDur, d) + ")"
		}
	}
	return g.lit(t)
}

var math1Names = func() []string {
	l := make([]string, 0)
	for _, n := range []string{"abs", "acos", "acosh", "asin", "asinh", "atan", "atanh", "cbrt", "ceil", "cos", "cosh", "erf", "erfc", "exp", "exp2", "expm1", "floor", "gamma", "j0", "j1", "log", "log10", "log1p", "log2", "logb", "sin", "sinh", "sqrt", "tan", "tanh", "trunc", "y0", "y1"} {
		l = append(l, n)
	}
	return l
}()

// ---- scopes -----------------------------------------------------------------------------------

var intVals = []int64{0, 1, -1, 2, 3, 7, 10, -10, math.MaxInt64, math.MinInt64, 1<<53 + 1, 255}
var floatVals = []float64{0, math.Copysign(0, -1), 1, -1.5, 0.5, 2, 3, 1e308, -1e308, math.Inf(1), math.Inf(-1), math.NaN(), 1e-320, 9.3e18, 100}
var strVals = []string{"", "a", "abc", "ab", "1", "true", "1.5", "10s", "héllo", "a b", "-7", "ABC", "x,y=z"}
var durVals = []time.Duration{0, time.Second, -time.Second, time.Hour, 1, math.MaxInt64, math.MinInt64, 90 * time.Minute}
var timeVals = []time.Time{time.Unix(0, 0).UTC(), time.Date(2020, 2, 29, 23, 59, 59, 999999999, time.UTC), time.Date(1969, 12, 31, 0, 0, 0, 0, time.UTC), time.Date(2262, 4, 11, 0, 0, 0, 0, time.UTC)}

func randVal(r *core.Rng, t rtype) interface{} {
	switch t {
	case tInt:
		if r.Chance(0.4) {
			return int64(r.Intn(21) - 10)
		}
		return intVals[r.Intn(len(intVals))]
	case tFloat:
		if r.Chance(0.4) {
			return float64(r.Intn(41)-20) / 4
		}
		return floatVals[r.Intn(len(floatVals))]
	case tString:
		return strVals[r.Intn(len(strVals))]
	case tBool:
		return r.Bool()
	case tDur:
		return durVals[r.Intn(len(durVals))]
	case tTime:
		return timeVals[r.Intn(len(timeVals))]
	case tMissing:
		return missingV
	}
	return int64(0)
}

var varNominal = map[string]rtype{"i1": tInt, "i2": tInt, "f1": tFloat, "f2": tFloat, "s1": tString, "s2": tString, "b1": tBool, "b2": tBool, "d1": tDur, "d2": tDur, "time": tTime}
var varOrder = []string{"i1", "i2", "f1", "f2", "s1", "s2", "b1", "b2", "d1", "d2", "time"}

// randScope draws a scope; with probability `drift` a variable gets a value of another type
// (or is missing), which is what makes one compiled expression see changing field types.
func randScope(r *core.Rng, drift float64) map[string]interface{} {
	sc := map[string]interface{}{}
	for _, v := range varOrder {
		t := varNominal[v]
		if v != "time" && r.Chance(drift) {
			t = []rtype{tInt, tFloat, tString, tBool, tDur, tMissing}[r.Intn(6)]
		}
		sc[v] = randVal(r, t)
	}
	return sc
}

func scopeString(sc map[string]interface{}, used string) string {
	var parts []string
	for _, v := range varOrder {
		if !strings.Contains(used, "\""+v+"\"") {
			continue
		}
		parts = append(parts, fmt.Sprintf("%s=%s", v, valString(sc[v])))
	}
	return "{" + strings.Join(parts, " ") + "}"
}

func valString(v interface{}) string {
	switch x := v.(type) {
	case float64:
		if x == 0 && math.Signbit(x) {
			return "float(-0)"
		}
		return fmt.Sprintf("float(%v)", x)
	case int64:
		return fmt.Sprintf("int(%d)", x)
	case string:
		return fmt.Sprintf("%q", x)
	case time.Duration:
		return fmt.Sprintf("dur(%d)", int64(x))
	case time.Time:
		return "time(" + x.Format(time.RFC3339Nano) + ")"
	case *missingT:
		return "missing"
	case nil:
		return "nil"
	}
	return fmt.Sprintf("%v", v)
}

// ---- exported for other monitors (C13, C10, C06) ------------------------------------------------

// GenLambda returns a generated lambda expression text of boolean / numeric / string type.
// kind: "bool", "int", "float", "string", "duration", "any".
func GenLambda(r *core.Rng, kind string, depth int, stateful bool) string {
	g := &gen{r: r, usedStat: map[string]bool{}, illRate: 0, stateful: stateful, smallInts: true}
	t := tBool
	switch kind {
	case "int":
		t = tInt
	case "float":
		t = tFloat
	case "string":
		t = tString
	case "duration":
		t = tDur
	case "any":
		t = valueTypes[r.Intn(len(valueTypes))]
	}
	return g.expr(t, depth)
}

// RandScope draws a scope over the generator's variable names.
func RandScope(r *core.Rng, drift float64) map[string]interface{} { return randScope(r, drift) }

// EvalOutcome evaluates a lambda node on a scope and renders the outcome canonically
// (value with type, or "error").
func EvalOutcome(e interface {
	Eval(*stateful.Scope) (interface{}, error)
}, sc map[string]interface{}) (out string) {
	defer func() {
		if r := recover(); r != nil {
			out = "PANIC: " + fmt.Sprint(r)
		}
	}()
	v, err := e.Eval(realScope(sc))
	if err != nil {
		return "error"
	}
	return valString(v)
}

// GenLambdaWild generates hostile-but-parsable lambdas: ill-typed operands, unary operators on
// anything (also regex literals), missing-prone references.
func GenLambdaWild(r *core.Rng, kind string, depth int) string {
	g := &gen{r: r, usedStat: map[string]bool{}, illRate: 0.15, stateful: r.Chance(0.2), smallInts: false, wild: true}
	t := tBool
	switch kind {
	case "any":
		t = valueTypes[r.Intn(len(valueTypes))]
	}
	return g.expr(t, depth)
}

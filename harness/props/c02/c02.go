// Package c02: each stream task receives its selected points exactly once, in order.
package c02

import (
	"bytes"
	"compress/gzip"
	"fmt"
	"io"
	"net/http"
	"net/http/httptest"
	"sort"
	"strings"
	"sync"
	"time"

	"expvar"
	imodels "github.com/influxdata/influxdb/models"
	"github.com/influxdata/kapacitor"
	"github.com/influxdata/kapacitor/services/httpd"

	"verifharness/core"
	"verifharness/kit"
)

type prop struct{}

func init() { core.Register(prop{}) }

func (prop) ID() string    { return "C02" }
func (prop) Level() string { return "exploration" }
func (prop) Rule() string {
	return "task sets: 1-4 stream tasks that run for the whole history + 0-3 churn task definitions started/stopped/deleted while points flow; every task declares 1-2 of {db1.rp1, db1.rp2, db2.rp1} and has 1-3 from() nodes with measurement in {m1, m2, none}, optional .database()/.retentionPolicy()/.where(lambda) filters, a sink directly under every from(); 1-3 writers send 150-400 points (measurements m1/m2/m3, all three declared pairs plus an undeclared one, unique id = writer<<32|seq) through TaskMaster.WritePoints and through the real httpd write route (line protocol, rp omitted in part to exercise the default retention policy); sequential schedules (churn between writes) and concurrent ones (writers and churn actor as goroutines, also under the race detector). " +
		"Oracle: reference routing declared(task, db, rp) AND matches(from, point). For tasks running throughout, per writer the id sequence at every from() sink EQUALS the reference-selected subsequence of that writer's acknowledged points (exactly once, in order). For churn incarnations: nothing foreign, no duplicate, per-writer order, and per writer a CONTIGUOUS run of the reference-selected subsequence (no hole while the task ran). " +
		"Non-trivial: a (task-set shape, schedule) whose stable sinks received >= 50 points in total with at least one from() selecting a strict subset"
}
func (prop) Assumptions() []string {
	return []string{
		"points acknowledged immediately before a task's own StopTask may or may not reach that task (judged by C07); only holes inside an incarnation's run are losses here",
	}
}
func (prop) RaceAnchorFiles() []string {
	return []string{"task_master.go", "task.go", "stream.go", "services/httpd/handler.go", "edge/edge.go", "edge.go", "node.go"}
}
func (prop) MinNontrivial(tier string) int {
	if tier == "thorough" {
		return 1500
	}
	return 60
}
func (prop) CaseTimeoutSec(string) int { return 240 }

func (prop) Cases(tier string, seed uint64) []core.Case {
	ns, nc, nr := 12, 8, 6
	per := 8
	if tier == "thorough" {
		ns, nc, nr, per = 120, 80, 60, 25
	}
	var cs []core.Case
	for i := 0; i < ns; i++ {
		cs = append(cs, core.Case{ID: fmt.Sprintf("seq-%d", i), Kind: "sequential", Seed: seed*2003 + uint64(i), N: per})
	}
	for i := 0; i < nc; i++ {
		cs = append(cs, core.Case{ID: fmt.Sprintf("conc-%d", i), Kind: "concurrent", Seed: seed*2011 + uint64(i), N: per})
	}
	for i := 0; i < nr; i++ {
		cs = append(cs, core.Case{ID: fmt.Sprintf("race-%d", i), Kind: "concurrent", Seed: seed*2017 + uint64(i), N: per / 2, Race: true})
	}
	return cs
}

type dbrp struct{ db, rp string }

var pool = []dbrp{{"db1", "rp1"}, {"db1", "rp2"}, {"db2", "rp1"}}

type fromSpec struct {
	meas, db, rp string
	where        int // 0 none, 1 "k" == 'x', 2 "v" > 5
}

type taskSpec struct {
	name   string
	dbrps  []dbrp
	froms  []fromSpec
	script string
}

type point struct {
	writer, seq int
	meas        string
	d           dbrp
	k           string
	v           int64
	omitRP      bool // http write without rp (default retention policy rp1)
}

func (p point) id() int64 { return int64(p.writer)<<32 | int64(p.seq) }

func (f fromSpec) matches(p point) bool {
	if f.db != "" && p.d.db != f.db {
		return false
	}
	if f.rp != "" && p.d.rp != f.rp {
		return false
	}
	if f.meas != "" && p.meas != f.meas {
		return false
	}
	switch f.where {
	case 1:
		return p.k == "x"
	case 2:
		return p.v > 5
	}
	return true
}

func (t taskSpec) declares(d dbrp) bool {
	for _, x := range t.dbrps {
		if x == d {
			return true
		}
	}
	return false
}

func genTask(r *core.Rng, name string) taskSpec {
	t := taskSpec{name: name}
	nd := r.Range(1, 2)
	perm := []int{0, 1, 2}
	for i := range perm {
		j := i + r.Intn(len(perm)-i)
		perm[i], perm[j] = perm[j], perm[i]
	}
	for i := 0; i < nd; i++ {
		t.dbrps = append(t.dbrps, pool[perm[i]])
	}
	nf := r.Range(1, 3)
	var sb strings.Builder
	sb.WriteString("var s = stream\n")
	for i := 0; i < nf; i++ {
		f := fromSpec{meas: r.Pick([]string{"m1", "m1", "m2", ""})}
		if r.Chance(0.25) {
			f.db = r.Pick([]string{"db1", "db2"})
		}
		if r.Chance(0.25) {
			f.rp = r.Pick([]string{"rp1", "rp2"})
		}
		f.where = []int{0, 0, 1, 2}[r.Intn(4)]
		t.froms = append(t.froms, f)
		sb.WriteString("s|from()")
		if f.meas != "" {
			sb.WriteString(".measurement('" + f.meas + "')")
		}
		if f.db != "" {
			sb.WriteString(".database('" + f.db + "')")
		}
		if f.rp != "" {
			sb.WriteString(".retentionPolicy('" + f.rp + "')")
		}
		switch f.where {
		case 1:
			sb.WriteString(".where(lambda: \"k\" == 'x')")
		case 2:
			sb.WriteString(".where(lambda: \"v\" > 5)")
		}
		if r.Chance(0.3) {
			sb.WriteString(".groupBy('k')")
		}
		fmt.Fprintf(&sb, "|log().prefix('%s/%d')\n", name, i)
	}
	t.script = sb.String()
	return t
}

func (t taskSpec) shape() string {
	var fs []string
	for _, f := range t.froms {
		fs = append(fs, fmt.Sprintf("%s/%s/%s/%d", f.meas, f.db, f.rp, f.where))
	}
	sort.Strings(fs)
	var ds []string
	for _, d := range t.dbrps {
		ds = append(ds, d.db+"."+d.rp)
	}
	sort.Strings(ds)
	return strings.Join(ds, "+") + ":" + strings.Join(fs, ",")
}

func (prop) Run(x *core.Ctx) {
	r := core.NewRng(x.Case.Seed, 2)
	for i := 0; i < x.Case.N; i++ {
		runOne(x, r, x.Case.Kind == "concurrent")
		if x.NumViolations() > 60 {
			return
		}
	}
}

type incarnation struct {
	spec   taskSpec
	stable bool
}

func runOne(x *core.Ctx, r *core.Rng, concurrent bool) {
	nStable := r.Range(1, 4)
	nChurn := r.Range(0, 3)
	nWriters := r.Range(1, 3)
	perWriter := r.Range(150, 400) / nWriters
	var stable []taskSpec
	for i := 0; i < nStable; i++ {
		stable = append(stable, genTask(r, fmt.Sprintf("s%d", i)))
	}
	var churnDefs []taskSpec
	for i := 0; i < nChurn; i++ {
		churnDefs = append(churnDefs, genTask(r, fmt.Sprintf("c%d", i)))
	}
	var shapes []string
	for _, t := range stable {
		shapes = append(shapes, t.shape())
	}
	sort.Strings(shapes)
	mode := "sequential"
	if concurrent {
		mode = "concurrent"
	}
	sub := fmt.Sprintf("%s stable=%v churn=%d writers=%d x %d seed=%d", mode, shapes, nChurn, nWriters, perWriter, r.Intn(1<<30))
	var scripts []string
	for _, t := range append(append([]taskSpec{}, stable...), churnDefs...) {
		var ds []string
		for _, d := range t.dbrps {
			ds = append(ds, d.db+"."+d.rp)
		}
		scripts = append(scripts, fmt.Sprintf("task %s dbrps=%v:\n%s", t.name, ds, t.script))
	}
	if !x.Announce(sub) {
		return
	}
	x.Count("evaluations", 1)
	env, err := kit.NewEnv(kit.EnvOpts{Scratch: x.Scratch, NoAlert: true})
	if err != nil {
		x.Inconclusive(err.Error())
		return
	}
	closed := false
	defer func() {
		if !closed {
			env.Close()
		}
	}()
	tm := env.TM
	tm.DefaultRetentionPolicy = "rp1"
	h := httpd.NewHandler(false, false, false, false, false, new(expvar.Map).Init(), kit.DiagService().NewHTTPDHandler(), "")
	h.PointsWriter = tm
	fail := func(kind, key, format string, a ...interface{}) {
		x.Violatef(kind, key, sub, "%s\n%s", fmt.Sprintf(format, a...), strings.Join(scripts, "\n"))
	}
	start := func(t taskSpec, name string) (*kapacitor.ExecutingTask, taskSpec, error) {
		// each incarnation gets its own name and sink prefixes
		inc := t
		inc.name = name
		inc.script = strings.ReplaceAll(t.script, "prefix('"+t.name+"/", "prefix('"+name+"/")
		var ds []kapacitor.DBRP
		for _, d := range t.dbrps {
			ds = append(ds, kapacitor.DBRP{Database: d.db, RetentionPolicy: d.rp})
		}
		task, err := tm.NewTask(name, inc.script, kapacitor.StreamTask, ds, 0, nil)
		if err != nil {
			return nil, inc, err
		}
		et, err := tm.StartTask(task)
		return et, inc, err
	}
	var incs []incarnation
	var stableETs []*kapacitor.ExecutingTask
	for _, t := range stable {
		et, inc, err := start(t, t.name)
		if err != nil {
			fail("valid-task-rejected", "a valid stream task was rejected: "+firstWords(err.Error(), 6), "%v", err)
			return
		}
		stableETs = append(stableETs, et)
		incs = append(incs, incarnation{inc, true})
	}
	// writers' points
	writers := make([][]point, nWriters)
	for w := range writers {
		wr := core.NewRng(r.Uint64(), uint64(w))
		for s := 0; s < perWriter; s++ {
			p := point{writer: w + 1, seq: s, meas: wr.Pick([]string{"m1", "m1", "m2", "m3"}), k: wr.Pick([]string{"x", "y"}), v: int64(wr.Intn(10))}
			if wr.Chance(0.1) {
				p.d = dbrp{"db3", "rp1"} // nobody declares it
			} else {
				p.d = pool[wr.Intn(3)]
			}
			writers[w] = append(writers[w], p)
		}
	}
	var ackMu sync.Mutex
	acked := make([][]bool, nWriters)
	for w := range acked {
		acked[w] = make([]bool, perWriter)
	}
	writeErrs := 0
	// write a run of consecutive points of one writer that share db/rp in ONE call
	send := func(w int, from int, viaHTTP bool) int {
		ps := writers[w]
		to := from + 1
		for to < len(ps) && to-from < 5 && ps[to].d == ps[from].d {
			to++
		}
		d := ps[from].d
		var err error
		if viaHTTP {
			var sb strings.Builder
			for _, p := range ps[from:to] {
				fmt.Fprintf(&sb, "%s,k=%s v=%di,id=%di %d\n", p.meas, p.k, p.v, p.id(), t0.Add(time.Duration(p.seq)*time.Millisecond).UnixNano())
			}
			url := "/kapacitor/v1/write?db=" + d.db
			if !(d.rp == "rp1" && from%2 == 0) {
				url += "&rp=" + d.rp
			}
			var req *http.Request
			switch (from + w) % 3 {
			case 0: // gzip body with its (compressed) Content-Length
				var zb bytes.Buffer
				zw := gzip.NewWriter(&zb)
				zw.Write([]byte(sb.String()))
				zw.Close()
				req = httptest.NewRequest("POST", url, bytes.NewReader(zb.Bytes()))
				req.Header.Set("Content-Encoding", "gzip")
				x.Count("gzip_writes", 1)
			case 1: // unknown length (chunked)
				req = httptest.NewRequest("POST", url, io.NopCloser(strings.NewReader(sb.String())))
				req.ContentLength = -1
			default:
				req = httptest.NewRequest("POST", url, strings.NewReader(sb.String()))
			}
			rec := httptest.NewRecorder()
			h.ServeHTTP(rec, req)
			if rec.Code/100 != 2 {
				err = fmt.Errorf("http %d: %s", rec.Code, rec.Body.String())
			}
		} else {
			var mps []imodels.Point
			for _, p := range ps[from:to] {
				mp, e := imodels.NewPoint(p.meas, imodels.NewTags(map[string]string{"k": p.k}), map[string]interface{}{"v": p.v, "id": p.id()}, t0.Add(time.Duration(p.seq)*time.Millisecond))
				if e != nil {
					x.Inconclusive(e.Error())
					return to
				}
				mps = append(mps, mp)
			}
			err = tm.WritePoints(d.db, d.rp, imodels.ConsistencyLevelAll, mps)
		}
		ackMu.Lock()
		if err != nil {
			writeErrs++
		} else {
			for i := from; i < to; i++ {
				acked[w][i] = true
			}
		}
		ackMu.Unlock()
		return to
	}
	churnOps := 0
	var incMu sync.Mutex
	running := map[int]string{} // churn def index -> running incarnation name
	gen := 0
	churnStep := func(cr *core.Rng) {
		if len(churnDefs) == 0 {
			return
		}
		i := cr.Intn(len(churnDefs))
		incMu.Lock()
		name, isRunning := running[i]
		incMu.Unlock()
		if isRunning {
			var err error
			if cr.Chance(0.5) {
				err = tm.StopTask(name)
			} else {
				err = tm.DeleteTask(name)
			}
			if err != nil {
				fail("task-stop-error", "stopping a churn task failed: "+firstWords(err.Error(), 6), "%s: %v", name, err)
			}
			incMu.Lock()
			delete(running, i)
			churnOps++
			incMu.Unlock()
			return
		}
		incMu.Lock()
		gen++
		name = fmt.Sprintf("%s-%d", churnDefs[i].name, gen)
		incMu.Unlock()
		_, inc, err := start(churnDefs[i], name)
		if err != nil {
			fail("valid-task-rejected", "a valid stream task was rejected: "+firstWords(err.Error(), 6), "%v", err)
			return
		}
		incMu.Lock()
		running[i] = name
		incs = append(incs, incarnation{inc, false})
		churnOps++
		incMu.Unlock()
	}
	if !concurrent {
		pos := make([]int, nWriters)
		for {
			live := []int{}
			for w := range pos {
				if pos[w] < perWriter {
					live = append(live, w)
				}
			}
			if len(live) == 0 {
				break
			}
			w := live[r.Intn(len(live))]
			pos[w] = send(w, pos[w], r.Chance(0.5))
			if r.Chance(0.08) {
				churnStep(r)
			}
		}
	} else {
		var wg sync.WaitGroup
		seeds := make([]uint64, nWriters+1)
		for i := range seeds {
			seeds[i] = r.Uint64()
		}
		stopChurn := make(chan struct{})
		for w := 0; w < nWriters; w++ {
			wg.Add(1)
			go func(w int) {
				defer wg.Done()
				wr := core.NewRng(seeds[w], 7)
				for pos := 0; pos < perWriter; {
					pos = send(w, pos, wr.Chance(0.5))
					if wr.Chance(0.05) {
						time.Sleep(time.Duration(wr.Intn(300)) * time.Microsecond)
					}
				}
			}(w)
		}
		var cwg sync.WaitGroup
		cwg.Add(1)
		go func() {
			defer cwg.Done()
			cr := core.NewRng(seeds[nWriters], 8)
			for {
				select {
				case <-stopChurn:
					return
				default:
				}
				churnStep(cr)
				time.Sleep(time.Duration(cr.Intn(400)) * time.Microsecond)
			}
		}()
		wg.Wait()
		close(stopChurn)
		cwg.Wait()
	}
	x.Count("churn_operations", int64(churnOps))
	if writeErrs > 0 {
		fail("write-error", "a write was refused while the task master was open", "%d write calls failed", writeErrs)
	}
	// drain: closes the write stream, every task processes what was forked to it
	drained := make(chan struct{})
	go func() {
		tm.Drain()
		for _, et := range stableETs {
			if err := et.Wait(); err != nil {
				fail("task-died", "a stream task ended with an error: "+firstWords(err.Error(), 8), "%v", err)
			}
		}
		close(drained)
	}()
	select {
	case <-drained:
	case <-time.After(30 * time.Second):
		fail("drain-hangs", "after the ingest stream was drained a task that ran throughout never finished", "30 s after Drain() at least one of the %d stable tasks is still waiting for input (its input edge was never closed); churn operations: %d", len(stableETs), churnOps)
		closed = true // leak the environment: closing it would block as well
		return
	}
	sinks := map[string][]kit.Item{}
	for _, id := range env.Rec.SinkIDs() {
		sinks[id] = env.Rec.Sink(id).Items()
	}
	env.Close()
	closed = true
	// ---- oracle
	totalStable, strict := 0, false
	for _, inc := range incs {
		for fi, f := range inc.spec.froms {
			sid := fmt.Sprintf("%s/%d", inc.spec.name, fi)
			got := sinks[sid]
			// per writer observed seqs
			obs := make([][]int, nWriters)
			bad := false
			for _, it := range got {
				if it.P == nil {
					continue
				}
				idv, ok := it.P.Fields["id"].(int64)
				if !ok {
					fail("foreign-point", "a sink received a point without the id field", "sink %s: %v", sid, it.P.Fields)
					bad = true
					break
				}
				w, s := int(idv>>32)-1, int(idv&0xffffffff)
				if w < 0 || w >= nWriters || s >= perWriter {
					fail("foreign-point", "a sink received an unknown id", "sink %s: id %d", sid, idv)
					bad = true
					break
				}
				p := writers[w][s]
				if !inc.spec.declares(p.d) {
					fail("undeclared-dbrp-delivered", "a task received a point of a db/rp it did not declare", "sink %s (task dbrps %v) received point writer=%d seq=%d of %s.%s measurement %s", sid, inc.spec.dbrps, p.writer, p.seq, p.d.db, p.d.rp, p.meas)
					bad = true
					break
				}
				if !f.matches(p) {
					fail("unselected-point-delivered", "a from() node passed a point its selection does not match", "sink %s (from %+v) received point %+v", sid, f, p)
					bad = true
					break
				}
				if it.P.DB != p.d.db || it.P.RP != p.d.rp || it.P.Name != p.meas || it.P.Tags["k"] != p.k || it.P.Fields["v"] != p.v {
					fail("point-altered", "a delivered point differs from what was written", "sink %s: wrote %+v, received %s.%s %s %v %v", sid, p, it.P.DB, it.P.RP, it.P.Name, it.P.Tags, it.P.Fields)
					bad = true
					break
				}
				obs[w] = append(obs[w], s)
			}
			if bad {
				return
			}
			for w := 0; w < nWriters; w++ {
				var exp []int
				for s, p := range writers[w] {
					if acked[w][s] && inc.spec.declares(p.d) && f.matches(p) {
						exp = append(exp, s)
					}
				}
				x.Count("deliveries_compared", int64(len(obs[w])))
				// duplicates / order
				for i := 1; i < len(obs[w]); i++ {
					if obs[w][i] == obs[w][i-1] {
						fail("duplicate-delivery", fmt.Sprintf("a point was delivered twice to one from() node (from measurements of the task: %s)", measList(inc.spec)), "sink %s: writer %d seq %d arrived twice (%d deliveries, %d expected)", sid, w+1, obs[w][i], len(obs[w]), len(exp))
						return
					}
					if obs[w][i] < obs[w][i-1] {
						fail("reordered-delivery", "points of one writer arrived out of order", "sink %s: writer %d seq %d after %d", sid, w+1, obs[w][i], obs[w][i-1])
						return
					}
				}
				if inc.stable {
					totalStable += len(obs[w])
					if len(exp) < countAcked(acked[w]) {
						strict = true
					}
					if fmt.Sprint(obs[w]) != fmt.Sprint(exp) {
						miss := firstMissing(exp, obs[w])
						fail("lost-delivery", "a task that ran throughout did not receive every selected acknowledged point exactly once", "sink %s: writer %d: expected %d points, received %d; first difference at seq %d (point %+v); churn operations during the run: %d", sid, w+1, len(exp), len(obs[w]), miss, writers[w][max0(miss)], churnOps)
						return
					}
				} else if len(obs[w]) > 0 {
					// contiguous run of exp
					i0 := sort.SearchInts(exp, obs[w][0])
					for i, s := range obs[w] {
						if i0+i >= len(exp) || exp[i0+i] != s {
							fail("lost-delivery", "a hole in the points a churned task received while it ran", "sink %s: writer %d: received seq %d where the selected sequence continues with %v", sid, w+1, s, safeIdx(exp, i0+i))
							return
						}
					}
				}
			}
		}
	}
	if totalStable >= 50 && strict {
		x.Nontrivial(fmt.Sprintf("%s|%v|churn=%d", mode, shapes, bucket(churnOps)))
	}
}

var t0 = time.Unix(1600000000, 0).UTC()

func measList(t taskSpec) string {
	var ms []string
	for _, f := range t.froms {
		if f.meas == "" {
			ms = append(ms, "<any>")
		} else {
			ms = append(ms, f.meas)
		}
	}
	sort.Strings(ms)
	return strings.Join(ms, ",")
}

func bucket(n int) int {
	switch {
	case n == 0:
		return 0
	case n < 5:
		return 1
	case n < 20:
		return 2
	}
	return 3
}

func countAcked(a []bool) int {
	n := 0
	for _, b := range a {
		if b {
			n++
		}
	}
	return n
}

func firstMissing(exp, obs []int) int {
	for i := 0; i < len(exp); i++ {
		if i >= len(obs) || obs[i] != exp[i] {
			return exp[i]
		}
	}
	if len(obs) > len(exp) {
		return obs[len(exp)]
	}
	return -1
}

func max0(n int) int {
	if n < 0 {
		return 0
	}
	return n
}

func safeIdx(a []int, i int) interface{} {
	if i < len(a) {
		return a[i]
	}
	return "<end>"
}

func firstWords(s string, n int) string {
	w := strings.Fields(s)
	if len(w) > n {
		w = w[:n]
	}
	return strings.Join(w, " ")
}

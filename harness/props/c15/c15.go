// Package c15: the indexed key/value store stays consistent under any operation history.
package c15

import (
	"bytes"
	"encoding/json"
	"errors"
	"fmt"
	"path"
	"path/filepath"
	"sort"
	"strings"
	"sync"
	"sync/atomic"
	"time"

	"github.com/anishathalye/porcupine"
	"github.com/influxdata/kapacitor/services/storage"
	bolt "go.etcd.io/bbolt"

	"verifharness/core"
)

type prop struct{}

func init() { core.Register(prop{}) }

func (prop) ID() string    { return "C15" }
func (prop) Level() string { return "fault_enumeration" }
func (prop) Rule() string {
	return "seq: model-based histories (40-60 operations: create/put/replace/delete/get/list/reverse-list with patterns, offsets, limits/rebuild, single and grouped in one transaction, some ending in a deliberate error) over a real Bolt file with an ID index and a second index whose value changes on replace; IDs from a small space incl. prefixes of each other; after every operation the full API view (all gets, both index listings) must equal a map model, after every k commits the file is closed and reopened. " +
		"fault: for EVERY write-bearing operation of a history the number W of underlying writes is probed, then the operation is re-run W+1 times failing the 1st..W-th underlying Put/Delete and the Commit; each run must fail, leave the raw bucket content byte-identical and the API view equal to the model. " +
		"conc: 8 clients on 3-4 IDs, histories checked with porcupine against a per-ID register model (partitioned by ID), then a quiescent data<->index bijection walk; also under the race detector. " +
		"Non-trivial: a history (by content hash) that contained at least one replace that changed the secondary index value, one delete of an existing object and one rejected operation"
}
func (prop) Assumptions() []string {
	return []string{
		"crash points are Bolt transaction boundaries; Bolt's own atomic commit (no torn pages) is trusted",
		"IDs and index values are clean path elements (no '/', '.' or '..'); the product's own stores validate IDs before they reach the store",
		"list queries use limit >= 0 (negative limits are an internal 'everything' convention that ignores patterns)",
		"glob semantics are those of Go's path.Match (used by the reference as well)",
	}
}
func (prop) MinNontrivial(tier string) int {
	if tier == "thorough" {
		return 3000
	}
	return 150
}
func (prop) RaceAnchorFiles() []string {
	return []string{"services/storage/indexed.go", "services/storage/bolt.go", "services/storage/storage.go"}
}
func (prop) CaseTimeoutSec(string) int { return 300 }

func (prop) Cases(tier string, seed uint64) []core.Case {
	var cs []core.Case
	nseq, nfault, nconc, nrace := 300, 60, 40, 8
	if tier == "thorough" {
		nseq, nfault, nconc, nrace = 12000, 2500, 1500, 100
	}
	for i := 0; i < nseq; i += 10 {
		cs = append(cs, core.Case{ID: fmt.Sprintf("seq-%d", i), Kind: "seq", Seed: seed*1009 + uint64(i), N: 10})
	}
	for i := 0; i < nfault; i += 4 {
		cs = append(cs, core.Case{ID: fmt.Sprintf("fault-%d", i), Kind: "fault", Seed: seed*2003 + uint64(i), N: 4})
	}
	for i := 0; i < nconc; i += 5 {
		cs = append(cs, core.Case{ID: fmt.Sprintf("conc-%d", i), Kind: "conc", Seed: seed*3001 + uint64(i), N: 5})
	}
	for i := 0; i < nrace; i += 4 {
		cs = append(cs, core.Case{ID: fmt.Sprintf("race-%d", i), Kind: "conc", Seed: seed*4001 + uint64(i), N: 4, Race: true})
	}
	return cs
}

// ---- object -----------------------------------------------------------------------------------

type obj struct {
	ID      string `json:"id"`
	Group   string `json:"group"`
	Payload string `json:"payload"`
}

func (o *obj) ObjectID() string               { return o.ID }
func (o *obj) MarshalBinary() ([]byte, error) { return json.Marshal(o) }
func (o *obj) UnmarshalBinary(d []byte) error { return json.Unmarshal(d, o) }
func newObj() storage.BinaryObject            { return new(obj) }
func groupValue(o storage.BinaryObject) (string, error) {
	oo, ok := o.(*obj)
	if !ok {
		return "", errors.New("bad type")
	}
	return oo.Group, nil
}

var ids = []string{"a", "ab", "abc", "a.b", "b", "B", "a-b", "a_b", "10", "9"}
var groups = []string{"g1", "g2", "g10", "G", "g1x"}
var patterns = []string{"", "*", "a*", "?b", "[ab]*", "a?b", "*b", "zzz", "[0-9]*"}

// ---- fault-injecting storage.Interface ----------------------------------------------------------

type faultStore struct {
	inner      *storage.Bolt
	failAt     int32 // fail the n-th write (1-based) of the next Update; 0 = never
	failCommit bool
	writes     int32 // writes performed by the last Update
	commits    int64
}

func (f *faultStore) View(fn func(storage.ReadOnlyTx) error) error { return f.inner.View(fn) }
func (f *faultStore) Store(b ...[]byte) storage.Interface          { return f.inner.Store(b...) }
func (f *faultStore) Update(fn func(storage.Tx) error) error {
	tx, err := f.inner.BeginTx()
	if err != nil {
		return err
	}
	defer tx.Rollback()
	ft := &faultTx{Tx: tx, fs: f}
	atomic.StoreInt32(&f.writes, 0)
	if err := fn(ft); err != nil {
		return err
	}
	if f.failCommit {
		return errInjected
	}
	if err := tx.Commit(); err != nil {
		return err
	}
	atomic.AddInt64(&f.commits, 1)
	return nil
}

var errInjected = errors.New("injected storage fault")

type faultTx struct {
	storage.Tx
	fs *faultStore
}

func (t *faultTx) Put(k string, v []byte) error {
	n := atomic.AddInt32(&t.fs.writes, 1)
	if t.fs.failAt != 0 && n == t.fs.failAt {
		return errInjected
	}
	return t.Tx.Put(k, v)
}
func (t *faultTx) Delete(k string) error {
	n := atomic.AddInt32(&t.fs.writes, 1)
	if t.fs.failAt != 0 && n == t.fs.failAt {
		return errInjected
	}
	return t.Tx.Delete(k)
}

// ---- harness ------------------------------------------------------------------------------------

type sut struct {
	path  string
	db    *bolt.DB
	fs    *faultStore
	store *storage.IndexedStore
}

func openSut(p string) (*sut, error) {
	db, err := bolt.Open(p, 0600, &bolt.Options{Timeout: 2 * time.Second, NoSync: true})
	if err != nil {
		return nil, err
	}
	s := &sut{path: p, db: db}
	s.fs = &faultStore{inner: storage.NewBolt(db, []byte("things"))}
	c := storage.DefaultIndexedStoreConfig("things", newObj)
	c.Indexes = append(c.Indexes, storage.Index{Name: "group", ValueFunc: groupValue})
	s.store, err = storage.NewIndexedStore(s.fs, c)
	if err != nil {
		db.Close()
		return nil, err
	}
	return s, nil
}

func (s *sut) reopen() error {
	if err := s.db.Close(); err != nil {
		return err
	}
	n, err := openSut(s.path)
	if err != nil {
		return err
	}
	*s = *n
	return nil
}

func (s *sut) rawDump() string {
	var sb strings.Builder
	s.db.View(func(tx *bolt.Tx) error {
		b := tx.Bucket([]byte("things"))
		if b == nil {
			return nil
		}
		return b.ForEach(func(k, v []byte) error {
			fmt.Fprintf(&sb, "%s=%s\n", k, v)
			return nil
		})
	})
	return sb.String()
}

type model map[string]obj

func (m model) sortedBy(index string) []obj {
	var l []obj
	for _, o := range m {
		l = append(l, o)
	}
	key := func(o obj) string {
		if index == "group" {
			return o.Group + "/" + o.ID
		}
		return o.ID
	}
	sort.Slice(l, func(i, j int) bool { return bytes.Compare([]byte(key(l[i])), []byte(key(l[j]))) < 0 })
	return l
}

func (m model) list(index, pattern string, offset, limit int, reverse bool) []obj {
	l := m.sortedBy(index)
	if reverse {
		for i, j := 0, len(l)-1; i < j; i, j = i+1, j-1 {
			l[i], l[j] = l[j], l[i]
		}
	}
	var matched []obj
	for _, o := range l {
		if pattern != "" {
			if ok, _ := path.Match(pattern, o.ID); !ok {
				continue
			}
		}
		matched = append(matched, o)
	}
	if offset >= len(matched) {
		return nil
	}
	matched = matched[offset:]
	if limit < len(matched) {
		matched = matched[:limit]
	}
	return matched
}

func objsStr(l []obj) string {
	var p []string
	for _, o := range l {
		p = append(p, fmt.Sprintf("%s(%s,%s)", o.ID, o.Group, o.Payload))
	}
	return "[" + strings.Join(p, " ") + "]"
}

func toObjs(l []storage.BinaryObject) []obj {
	var out []obj
	for _, b := range l {
		if o, ok := b.(*obj); ok {
			out = append(out, *o)
		}
	}
	return out
}

func eqObjs(a, b []obj) bool {
	if len(a) != len(b) {
		return false
	}
	for i := range a {
		if a[i] != b[i] {
			return false
		}
	}
	return true
}

// fullCheck compares the complete API view with the model.
func fullCheck(s *sut, m model) string {
	for _, id := range ids {
		o, err := s.store.Get(id)
		want, ok := m[id]
		switch {
		case ok && err != nil:
			return fmt.Sprintf("Get(%q) = error %v, model has %v", id, err, want)
		case !ok && err != storage.ErrNoObjectExists:
			return fmt.Sprintf("Get(%q) = (%v, %v), model has no such object", id, o, err)
		case ok && *(o.(*obj)) != want:
			return fmt.Sprintf("Get(%q) = %v, model has %v", id, *(o.(*obj)), want)
		}
	}
	for _, idx := range []string{"id", "group"} {
		l, err := s.store.List(idx, "", 0, 1000)
		if err != nil {
			return fmt.Sprintf("List(%s) error %v", idx, err)
		}
		if got, want := toObjs(l), m.list(idx, "", 0, 1000, false); !eqObjs(got, want) {
			return fmt.Sprintf("List(%s,\"\",0,1000) = %s, model %s", idx, objsStr(got), objsStr(want))
		}
	}
	return ""
}

type op struct {
	Kind    string // create put replace delete get list rlist rebuild
	O       obj
	Index   string
	Pattern string
	Offset  int
	Limit   int
}

func (o op) String() string {
	switch o.Kind {
	case "create", "put", "replace":
		return fmt.Sprintf("%s(%s,%s,%s)", o.Kind, o.O.ID, o.O.Group, o.O.Payload)
	case "delete", "get":
		return fmt.Sprintf("%s(%s)", o.Kind, o.O.ID)
	case "list", "rlist":
		return fmt.Sprintf("%s(%s,%q,%d,%d)", o.Kind, o.Index, o.Pattern, o.Offset, o.Limit)
	}
	return o.Kind
}

func genOp(r *core.Rng, n int) op {
	k := []string{"create", "create", "put", "put", "replace", "replace", "delete", "delete", "get", "list", "list", "rlist", "rebuild"}[r.Intn(13)]
	o := op{Kind: k}
	// few IDs early so that collisions (exists / not exists) are frequent
	space := ids
	if r.Chance(0.6) {
		space = ids[:5]
	}
	o.O = obj{ID: space[r.Intn(len(space))], Group: groups[r.Intn(len(groups))], Payload: fmt.Sprintf("p%d", n)}
	o.Index = []string{"id", "group"}[r.Intn(2)]
	o.Pattern = patterns[r.Intn(len(patterns))]
	o.Offset = r.Intn(5)
	o.Limit = []int{0, 1, 2, 3, 4, 100}[r.Intn(6)]
	return o
}

// applyTx applies a write op inside a transaction, returns the error the store gave.
func applyTx(s *sut, tx storage.Tx, o op) error {
	oo := o.O
	switch o.Kind {
	case "create":
		return s.store.CreateTx(tx, &oo)
	case "put":
		return s.store.PutTx(tx, &oo)
	case "replace":
		return s.store.ReplaceTx(tx, &oo)
	case "delete":
		return s.store.DeleteTx(tx, oo.ID)
	case "rebuild":
		return s.store.RebuildTx(tx)
	}
	return nil
}

func applyDirect(s *sut, o op) error {
	oo := o.O
	switch o.Kind {
	case "create":
		return s.store.Create(&oo)
	case "put":
		return s.store.Put(&oo)
	case "replace":
		return s.store.Replace(&oo)
	case "delete":
		return s.store.Delete(oo.ID)
	case "rebuild":
		return s.store.Rebuild()
	}
	return nil
}

// modelApply returns the expected error class ("" ok, "exists", "noexists") and applies to m.
func modelApply(m model, o op) string {
	_, exists := m[o.O.ID]
	switch o.Kind {
	case "create":
		if exists {
			return "exists"
		}
		m[o.O.ID] = o.O
	case "put":
		m[o.O.ID] = o.O
	case "replace":
		if !exists {
			return "noexists"
		}
		m[o.O.ID] = o.O
	case "delete":
		delete(m, o.O.ID)
	}
	return ""
}

func errClass(err error) string {
	switch err {
	case nil:
		return ""
	case storage.ErrObjectExists:
		return "exists"
	case storage.ErrNoObjectExists:
		return "noexists"
	}
	return "other:" + err.Error()
}

func isWrite(k string) bool {
	return k == "create" || k == "put" || k == "replace" || k == "delete" || k == "rebuild"
}

func copyModel(m model) model {
	c := model{}
	for k, v := range m {
		c[k] = v
	}
	return c
}

func (prop) Run(x *core.Ctx) {
	switch x.Case.Kind {
	case "seq":
		for i := 0; i < x.Case.N; i++ {
			runSeq(x, x.Case.Seed+uint64(i), false)
		}
	case "fault":
		for i := 0; i < x.Case.N; i++ {
			runSeq(x, x.Case.Seed+uint64(i), true)
		}
	case "conc":
		for i := 0; i < x.Case.N; i++ {
			runConc(x, x.Case.Seed+uint64(i))
		}
	}
}

func runSeq(x *core.Ctx, seed uint64, faults bool) {
	r := core.NewRng(seed, 15)
	name := fmt.Sprintf("history seed=%d faults=%v", seed, faults)
	if !x.Announce(name) {
		return
	}
	s, err := openSut(filepath.Join(x.Scratch, fmt.Sprintf("c15-%d-%v.db", seed, faults)))
	if err != nil {
		x.Inconclusive("open: " + err.Error())
		return
	}
	defer func() { s.db.Close() }()
	m := model{}
	var trace []string
	nops := r.Range(40, 60)
	if faults {
		nops = r.Range(20, 30)
	}
	reopenEvery := r.Range(1, 6)
	var sawIdxChange, sawDelete, sawReject bool
	viol := func(kind, format string, a ...interface{}) {
		x.Violatef(kind, kind+" "+lastOp(trace), name, "history: %s\n"+format, append([]interface{}{strings.Join(trace, " ; ")}, a...)...)
	}
	commitsAtReopen := int64(0)
	x.Count("evaluations", 1)
	for n := 0; n < nops; n++ {
		if r.Chance(0.12) {
			// grouped transaction, maybe ending with a deliberate error
			k := r.Range(2, 4)
			var grp []op
			for j := 0; j < k; j++ {
				o := genOp(r, n*10+j)
				if isWrite(o.Kind) && o.Kind != "rebuild" {
					grp = append(grp, o)
				}
			}
			abort := r.Chance(0.4)
			tm := copyModel(m)
			var first string
			trace = append(trace, fmt.Sprintf("TX{%v abort=%v}", grp, abort))
			err := s.fs.Update(func(tx storage.Tx) error {
				for _, o := range grp {
					want := modelApply(tm, o)
					got := errClass(applyTx(s, tx, o))
					if got != want && first == "" {
						first = fmt.Sprintf("%v inside a transaction: store says %q, model %q", o, got, want)
					}
					if got != "" {
						return errors.New("rejected: " + got)
					}
				}
				if abort {
					return errors.New("deliberate abort")
				}
				return nil
			})
			if first != "" {
				viol("store-result-mismatch", "%s", first)
				return
			}
			if err == nil {
				m = tm
				x.Count("grouped_transactions_committed", 1)
			} else {
				sawReject = true
				x.Count("grouped_transactions_rolled_back", 1)
			}
			if d := fullCheck(s, m); d != "" {
				viol("store-state-mismatch", "after grouped transaction (err=%v): %s", err, d)
				return
			}
			continue
		}
		o := genOp(r, n)
		trace = append(trace, o.String())
		x.Count("ops_"+o.Kind, 1)
		switch o.Kind {
		case "get":
			got, err := s.store.Get(o.O.ID)
			want, ok := m[o.O.ID]
			if ok && (err != nil || *(got.(*obj)) != want) || !ok && err != storage.ErrNoObjectExists {
				viol("store-get-mismatch", "Get(%q) = (%v, %v), model (%v, exists=%v)", o.O.ID, got, err, want, ok)
				return
			}
		case "list", "rlist":
			var l []storage.BinaryObject
			var err error
			if o.Kind == "list" {
				l, err = s.store.List(o.Index, o.Pattern, o.Offset, o.Limit)
			} else {
				l, err = s.store.ReverseList(o.Index, o.Pattern, o.Offset, o.Limit)
			}
			if err != nil {
				viol("store-list-error", "%v: %v", o, err)
				return
			}
			want := m.list(o.Index, o.Pattern, o.Offset, o.Limit, o.Kind == "rlist")
			x.Count("list_queries_compared", 1)
			if !eqObjs(toObjs(l), want) {
				viol("store-list-mismatch", "%v = %s, model %s", o, objsStr(toObjs(l)), objsStr(want))
				return
			}
		default:
			if faults {
				if !faultEnum(x, s, m, o, viol) {
					return
				}
			}
			before, had := m[o.O.ID]
			want := modelApply(m, o)
			got := errClass(applyDirect(s, o))
			if got != want {
				viol("store-result-mismatch", "%v: store says %q, model %q", o, got, want)
				return
			}
			if want != "" {
				sawReject = true
				x.Count("ops_rejected_as_expected", 1)
			}
			if o.Kind == "replace" && want == "" && had && before.Group != o.O.Group {
				sawIdxChange = true
			}
			if o.Kind == "put" && had && before.Group != o.O.Group {
				sawIdxChange = true
			}
			if o.Kind == "delete" && had {
				sawDelete = true
			}
			if d := fullCheck(s, m); d != "" {
				viol("store-state-mismatch", "after %v: %s", o, d)
				return
			}
		}
		if c := atomic.LoadInt64(&s.fs.commits); c-commitsAtReopen >= int64(reopenEvery) {
			if err := s.reopen(); err != nil {
				x.Inconclusive("reopen: " + err.Error())
				return
			}
			commitsAtReopen = 0
			x.Count("reopens", 1)
			trace = append(trace, "REOPEN")
			if d := fullCheck(s, m); d != "" {
				viol("store-reopen-mismatch", "after reopening the file: %s", d)
				return
			}
		}
	}
	if sawIdxChange && sawDelete && sawReject {
		x.Nontrivial(strings.Join(trace, ";"))
	}
	if seed%10 == 0 {
		tr := trace
		if len(tr) > 12 {
			tr = tr[:12]
		}
		x.Sample(map[string]interface{}{"history_prefix": tr, "ops": len(trace), "final_objects": len(m), "faults_enumerated": faults})
	}
}

func lastOp(trace []string) string {
	if len(trace) == 0 {
		return ""
	}
	s := trace[len(trace)-1]
	if i := strings.IndexAny(s, "({"); i > 0 {
		return s[:i]
	}
	return s
}

// faultEnum fails every underlying write (and the commit) of operation o in turn.
func faultEnum(x *core.Ctx, s *sut, m model, o op, viol func(kind, format string, a ...interface{})) bool {
	raw := s.rawDump()
	// probe: how many writes does it perform (commit suppressed)
	s.fs.failAt, s.fs.failCommit = 0, true
	perr := applyDirect(s, o)
	w := int(atomic.LoadInt32(&s.fs.writes))
	s.fs.failCommit = false
	tm := copyModel(m)
	wantClass := modelApply(tm, o)
	if wantClass == "" && perr != errInjected {
		viol("store-fault-not-reported", "%v with a failing commit returned %v", o, perr)
		return false
	}
	if s.rawDump() != raw {
		viol("store-failed-op-left-trace", "%v with a failing commit changed the bucket content", o)
		return false
	}
	for n := 1; n <= w; n++ {
		s.fs.failAt = int32(n)
		err := applyDirect(s, o)
		s.fs.failAt = 0
		x.Count("faults_injected", 1)
		x.SetAdd("fault_positions", fmt.Sprintf("%s:write%d/%d", o.Kind, n, w))
		if err == nil {
			viol("store-fault-not-reported", "%v: underlying write %d of %d failed but the operation returned nil", o, n, w)
			return false
		}
		if now := s.rawDump(); now != raw {
			viol("store-failed-op-left-trace", "%v: underlying write %d of %d failed (error %v) but the bucket content changed:\nbefore:\n%s\nafter:\n%s", o, n, w, err, raw, now)
			return false
		}
		if d := fullCheck(s, m); d != "" {
			viol("store-failed-op-left-trace", "%v: underlying write %d of %d failed, API view differs from the model before the operation: %s", o, n, w, d)
			return false
		}
	}
	x.Count("faults_injected", 1) // the commit fault above
	x.SetAdd("fault_positions", o.Kind+":commit")
	return true
}

// ---- concurrent ---------------------------------------------------------------------------------

type cin struct {
	Kind    string
	ID      string
	Payload string
	Group   string
}
type cout struct {
	Class   string // "", exists, noexists
	Payload string // get: payload or "" when absent
	Absent  bool
}

type regState struct {
	Exists  bool
	Payload string
}

var regModel = porcupine.Model{
	Partition: func(h []porcupine.Operation) [][]porcupine.Operation {
		by := map[string][]porcupine.Operation{}
		var keys []string
		for _, o := range h {
			id := o.Input.(cin).ID
			if _, ok := by[id]; !ok {
				keys = append(keys, id)
			}
			by[id] = append(by[id], o)
		}
		sort.Strings(keys)
		var out [][]porcupine.Operation
		for _, k := range keys {
			out = append(out, by[k])
		}
		return out
	},
	Init: func() interface{} { return regState{} },
	Step: func(state, input, output interface{}) (bool, interface{}) {
		st, in, out := state.(regState), input.(cin), output.(cout)
		switch in.Kind {
		case "create":
			if st.Exists {
				return out.Class == "exists", st
			}
			return out.Class == "", regState{true, in.Payload}
		case "put":
			return out.Class == "", regState{true, in.Payload}
		case "replace":
			if !st.Exists {
				return out.Class == "noexists", st
			}
			return out.Class == "", regState{true, in.Payload}
		case "delete":
			return out.Class == "", regState{}
		case "get":
			if !st.Exists {
				return out.Absent, st
			}
			return !out.Absent && out.Payload == st.Payload, st
		}
		return false, st
	},
	DescribeOperation: func(input, output interface{}) string {
		return fmt.Sprintf("%+v -> %+v", input, output)
	},
}

func runConc(x *core.Ctx, seed uint64) {
	r := core.NewRng(seed, 51)
	name := fmt.Sprintf("concurrent seed=%d", seed)
	if !x.Announce(name) {
		return
	}
	x.Count("evaluations", 1)
	s, err := openSut(filepath.Join(x.Scratch, fmt.Sprintf("c15c-%d.db", seed)))
	if err != nil {
		x.Inconclusive("open: " + err.Error())
		return
	}
	defer func() { s.db.Close() }()
	clients := 8
	perClient := r.Range(15, 40)
	keys := ids[:r.Range(2, 4)]
	var mu sync.Mutex
	var hist []porcupine.Operation
	var clock int64
	var wg sync.WaitGroup
	for c := 0; c < clients; c++ {
		cr := core.NewRng(seed, 52, uint64(c))
		wg.Add(1)
		go func(c int) {
			defer wg.Done()
			for i := 0; i < perClient; i++ {
				in := cin{Kind: []string{"create", "put", "replace", "delete", "get", "get"}[cr.Intn(6)], ID: keys[cr.Intn(len(keys))],
					Payload: fmt.Sprintf("c%d-%d", c, i), Group: groups[cr.Intn(len(groups))]}
				call := atomic.AddInt64(&clock, 1)
				var out cout
				o := &obj{ID: in.ID, Group: in.Group, Payload: in.Payload}
				switch in.Kind {
				case "create":
					out.Class = errClass(s.store.Create(o))
				case "put":
					out.Class = errClass(s.store.Put(o))
				case "replace":
					out.Class = errClass(s.store.Replace(o))
				case "delete":
					out.Class = errClass(s.store.Delete(in.ID))
				case "get":
					g, err := s.store.Get(in.ID)
					if err == storage.ErrNoObjectExists {
						out.Absent = true
					} else if err != nil {
						out.Class = "other:" + err.Error()
					} else {
						out.Payload = g.(*obj).Payload
					}
				}
				ret := atomic.AddInt64(&clock, 1)
				mu.Lock()
				hist = append(hist, porcupine.Operation{ClientId: c, Input: in, Call: call, Output: out, Return: ret})
				mu.Unlock()
			}
		}(c)
	}
	wg.Wait()
	x.Count("concurrent_operations", int64(len(hist)))
	res, info := porcupine.CheckOperationsVerbose(regModel, hist, 60*time.Second)
	x.SetAdd("porcupine_verdicts", string(res))
	switch res {
	case porcupine.Unknown:
		x.Inconclusive("porcupine timeout")
		return
	case porcupine.Illegal:
		var sb strings.Builder
		for _, part := range info.PartialLinearizations() {
			fmt.Fprintf(&sb, "partition: longest linearizable prefix covers %d ops; ", len(part))
		}
		var hs []string
		for _, o := range hist {
			hs = append(hs, fmt.Sprintf("[%d,%d] c%d %+v -> %+v", o.Call, o.Return, o.ClientId, o.Input, o.Output))
		}
		sort.Strings(hs)
		x.Violatef("store-not-linearizable", "history is not linearizable against the per-ID register model", name, "%s\nhistory:\n%s", sb.String(), strings.Join(hs, "\n"))
		return
	}
	// quiescent bijection: data <-> both indexes
	m := model{}
	for _, id := range ids {
		if g, err := s.store.Get(id); err == nil {
			m[id] = *(g.(*obj))
		}
	}
	if d := fullCheck(s, m); d != "" {
		x.Violatef("store-index-bijection", "index and data disagree after a concurrent history", name, "%s\nraw:\n%s", d, s.rawDump())
		return
	}
	// raw walk: every index entry points to an existing object with that index value
	raw := s.rawDump()
	nIdx := strings.Count(raw, "/things/indexes/")
	if nIdx != 2*len(m) {
		x.Violatef("store-index-bijection", "stale or missing index entries after a concurrent history", name, "%d objects but %d index entries\nraw:\n%s", len(m), nIdx, raw)
		return
	}
	x.Nontrivial(fmt.Sprintf("conc%d-%d", seed, len(hist)))
	if seed%5 == 0 {
		x.Sample(map[string]interface{}{"concurrent_clients": clients, "ops": len(hist), "keys": keys, "porcupine": string(res)})
	}
}

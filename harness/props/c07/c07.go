// Package c07: a graceful stop processes everything already accepted, then terminates.
package c07

import (
	"bufio"
	"encoding/json"
	"fmt"
	"os"
	"path/filepath"
	"regexp"
	"runtime"
	"sort"
	"strconv"
	"strings"
	"sync"
	"time"

	"github.com/influxdata/kapacitor"
	"github.com/influxdata/kapacitor/alert"

	"verifharness/core"
	"verifharness/kit"
	"verifharness/props/c19"
)

type prop struct{}

func init() { core.Register(prop{}) }

func (prop) ID() string    { return "C07" }
func (prop) Level() string { return "exploration" }
func (prop) Rule() string {
	return "scenarios = pipeline stream|from()|log('in') [|eval|where] -> 1-2 outputs drawn from {influxDBOut (recording fake client; buffer 1/10/1000/5000, flushInterval 10ms/1h), a UDF (in-process echo agent behind in-memory pipes) followed by a gated sink, alert with a named topic + recording handler (fast/slow), alert with .log() on its anonymous topic, plain sink, kapacitorLoopback into a second task} x 1 200-4 000 points with unique ids (more than one 1 000-slot edge buffer; back-pressure scenarios: 9 000-12 000 points, so that the writer itself is blocked on full buffers when the stop comes) x output gated shut so that a backlog exists when the stop is requested, the gate opened before / 30 ms after the stop call x stop kind {StopTask, DeleteTask, daemon sequence Drain+StopTasks+Close (+alert service Close)}; failure variant: a node in the middle of the pipeline panics at the k-th point while writers continue. " +
		"Oracle: conservation by id - every point that was acknowledged AND had entered the task (seen at the sink under from(); for the daemon sequence: every acknowledged point) is at every output exactly once, per-group order kept; termination - the stop call returns (30 s watchdog with all gates open), afterwards no goroutine with kapacitor frames remains beyond the census taken before StartTask, et.Wait() has returned; failure variant: the task ends with the node's error, stop returns, writers are never blocked, census returns to the baseline. " +
		"Non-trivial: a scenario whose backlog at the moment of the stop call (points accepted but not yet at the output) was >= 100"
}
func (prop) Assumptions() []string {
	return []string{
		"a point counts as accepted by a task once it has passed from() (StopTask/DeleteTask) or once its write was acknowledged (daemon sequence, which drains the ingest stream first)",
		"a stop call still running 30 s after every gate was opened is reported as a hang together with the goroutine dump; shorter waits are never judged",
		"back-pressure scenarios (9 000-12 000 points) run with topic-buffer-length 20 000: a topic handler that is more than topic-buffer-length events behind loses events by design, stop or no stop",
		"kapacitorLoopback is only combined with StopTask of the upstream task (the daemon sequence closes the ingest stream the loopback writes to)",
	}
}
func (prop) RaceAnchorFiles() []string {
	return []string{"task_master.go", "task.go", "node.go", "edge/edge.go", "edge.go", "influxdb_out.go", "kapacitor_loopback.go", "alert.go", "alert/topics.go", "edge/consumer.go", "services/alert/service.go"}
}
func (prop) MinNontrivial(tier string) int {
	if tier == "thorough" {
		return 400
	}
	return 30
}
func (prop) CaseTimeoutSec(string) int { return 300 }
func (prop) Workers(tier string) int   { return 6 }

func (prop) Cases(tier string, seed uint64) []core.Case {
	n, nf, nr := 18, 6, 6
	per := 4
	if tier == "thorough" {
		n, nf, nr, per = 200, 60, 60, 10
	}
	var cs []core.Case
	for i := 0; i < n; i++ {
		cs = append(cs, core.Case{ID: fmt.Sprintf("stop-%d", i), Kind: "stop", Seed: seed*7001 + uint64(i), N: per})
	}
	for i := 0; i < nf; i++ {
		cs = append(cs, core.Case{ID: fmt.Sprintf("fail-%d", i), Kind: "fail", Seed: seed*7013 + uint64(i), N: per})
	}
	for i := 0; i < nr; i++ {
		cs = append(cs, core.Case{ID: fmt.Sprintf("race-%d", i), Kind: "stop", Seed: seed*7019 + uint64(i), N: 2, Race: true})
	}
	nbs := 8
	if tier == "thorough" {
		nbs = 80
	}
	for i := 0; i < nbs; i++ {
		cs = append(cs, core.Case{ID: fmt.Sprintf("batchstop-%d", i), Kind: "batchstop", Seed: seed*7031 + uint64(i), N: 2})
	}
	// back-pressure: more points than all buffers hold, so the writer itself is blocked when the stop comes
	nb := 4
	if tier == "thorough" {
		nb = 40
	}
	for i := 0; i < nb; i++ {
		cs = append(cs, core.Case{ID: fmt.Sprintf("backpressure-%d", i), Kind: "stop", Seed: seed*7027 + uint64(i), N: 3, Params: map[string]interface{}{"bp": true, "daemon": i%2 == 0}})
	}
	return cs
}

func (prop) Run(x *core.Ctx) {
	r := core.NewRng(x.Case.Seed, 7)
	for i := 0; i < x.Case.N; i++ {
		if x.Case.Kind == "batchstop" {
			runBatchStop(x, r)
		} else if x.Case.Kind == "fail" {
			runFail(x, r)
		} else {
			runStop(x, r)
		}
		if x.NumViolations() > 40 {
			return
		}
	}
}

var t0 = time.Unix(1600000000, 0).UTC()

// census counts goroutines that run kapacitor code and are not the harness' own.
func census() (int, string) {
	buf := make([]byte, 8<<20)
	n := runtime.Stack(buf, true)
	gs := strings.Split(string(buf[:n]), "\n\n")
	c := 0
	var sample []string
	for _, g := range gs {
		// udf/agent is the UDF process' side of the protocol, played by the harness
		if strings.Contains(g, "github.com/influxdata/kapacitor") && !strings.Contains(g, "verifharness/props/") && !strings.Contains(g, "kapacitor/udf/agent.") {
			c++
			sample = append(sample, g)
		}
	}
	return c, strings.Join(sample, "\n\n")
}

func settleCensus(base int) (int, string) {
	deadline := time.Now().Add(3 * time.Second)
	for {
		c, dump := census()
		if c <= base || time.Now().After(deadline) {
			return c, dump
		}
		time.Sleep(5 * time.Millisecond)
	}
}

type recHandler struct {
	mu    sync.Mutex
	msgs  []string
	delay time.Duration
	gate  *gate
}

func (h *recHandler) Handle(e alert.Event) {
	if h.gate != nil {
		h.gate.pass()
	}
	if h.delay > 0 {
		time.Sleep(h.delay)
	}
	h.mu.Lock()
	h.msgs = append(h.msgs, e.State.Message)
	h.mu.Unlock()
}
func (h *recHandler) snapshot() []string {
	h.mu.Lock()
	defer h.mu.Unlock()
	return append([]string{}, h.msgs...)
}

type gate struct {
	mu   sync.Mutex
	cond *sync.Cond
	shut bool
}

func newGate(shut bool) *gate {
	g := &gate{shut: shut}
	g.cond = sync.NewCond(&g.mu)
	return g
}
func (g *gate) pass() {
	g.mu.Lock()
	for g.shut {
		g.cond.Wait()
	}
	g.mu.Unlock()
}
func (g *gate) open() { g.mu.Lock(); g.shut = false; g.cond.Broadcast(); g.mu.Unlock() }

type output struct {
	kind   string
	text   string
	ids    func() []int64 // delivered ids in order
	open   func()
	closeG func()
	drain  func() // blocks until everything queued behind the output has been handed over (optional)
}

func runStop(x *core.Ctx, r *core.Rng) {
	scratch, err := os.MkdirTemp(x.Scratch, "c07")
	if err != nil {
		x.Inconclusive(err.Error())
		return
	}
	defer os.RemoveAll(scratch)
	n := r.Range(1200, 4000)
	ngroups := r.Range(1, 3)
	stopKind := r.Pick([]string{"StopTask", "StopTask", "DeleteTask", "daemon"})
	openBefore := r.Chance(0.4)
	mid := r.Pick([]string{"", "|eval(lambda: \"id\" + 0).as('id2').keep()", "|where(lambda: \"id\" >= 0)"})
	nout := r.Range(1, 2)
	topicBuffer := 0
	if x.Case.PBool("bp") {
		n = 9000 + r.Intn(3000)
		if x.Case.PBool("daemon") {
			stopKind, openBefore = "daemon", false
		}
		// a topic drops events by design once a handler is topic-buffer-length (5000) events
		// behind; that overflow policy is not what this property is about
		topicBuffer = 20000
	}
	env, err := kit.NewEnv(kit.EnvOpts{Scratch: scratch, TopicBuffer: topicBuffer})
	if err != nil {
		x.Inconclusive(err.Error())
		return
	}
	envClosed := false
	defer func() {
		if !envClosed {
			env.Close()
		}
	}()
	fi := kit.NewFakeInflux()
	env.TM.InfluxDBService = fi
	env.TM.UDFService = c19.NewEchoUDFService(core.NewRng(r.Uint64(), 19), false)
	var outs []output
	var kinds []string
	script := "var src = stream|from().measurement('m').groupBy('g')|log().prefix('in')" + mid + "\n"
	needLoopTask := false
	for i := 0; i < nout; i++ {
		k := r.Pick([]string{"influx", "influx", "alert-topic", "alert-log", "sink", "loopback", "udf", "udf"})
		if k == "udf" && contains(kinds, "udf") {
			k = "sink"
		}
		if k == "loopback" && (stopKind == "daemon" || needLoopTask) {
			k = "sink"
		}
		if k == "influx" && contains(kinds, "influx") {
			k = "sink"
		}
		kinds = append(kinds, k)
		switch k {
		case "influx":
			buf := []int{1, 10, 1000, 5000}[r.Intn(4)]
			fl := r.Pick([]string{"10ms", "1h"})
			fi.CloseGate()
			outs = append(outs, output{kind: k, text: fmt.Sprintf("src|influxDBOut().database('out').retentionPolicy('rp').buffer(%d).flushInterval(%s)", buf, fl),
				ids: func() []int64 {
					_, pts := fi.Snapshot()
					var o []int64
					for _, p := range pts {
						if v, ok := p.Fields["id"].(int64); ok {
							o = append(o, v)
						}
					}
					return o
				}, open: fi.OpenGate})
		case "alert-topic":
			topic := fmt.Sprintf("t%d", i)
			h := &recHandler{gate: newGate(true)}
			if r.Chance(0.3) {
				h.delay = 20 * time.Microsecond
			}
			env.Alert.RegisterAnonHandler(topic, h)
			outs = append(outs, output{kind: k, text: fmt.Sprintf("src|alert().id('{{ index .Tags \"g\" }}').message('{{ index .Fields \"id\" }}').crit(lambda: TRUE).topic('%s')", topic),
				ids: func() []int64 { return parseIDs(h.snapshot()) }, open: h.gate.open,
				// closing the topic closes the queue of its handlers and waits until they have consumed it
				drain: func() { env.Alert.CloseTopic(topic) }})
		case "alert-log":
			path := filepath.Join(scratch, fmt.Sprintf("alert%d.log", i))
			outs = append(outs, output{kind: k, text: fmt.Sprintf("src|alert().id('{{ index .Tags \"g\" }}').message('{{ index .Fields \"id\" }}').crit(lambda: TRUE).log('%s')", path),
				ids: func() []int64 {
					f, err := os.Open(path)
					if err != nil {
						return nil
					}
					defer f.Close()
					var msgs []string
					sc := bufio.NewScanner(f)
					sc.Buffer(make([]byte, 1<<20), 1<<24)
					for sc.Scan() {
						var d struct {
							Message string `json:"message"`
						}
						if json.Unmarshal(sc.Bytes(), &d) == nil {
							msgs = append(msgs, d.Message)
						}
					}
					return parseIDs(msgs)
				}, open: func() {}})
		case "sink":
			id := fmt.Sprintf("out%d", i)
			s := env.Rec.Sink(id)
			s.CloseGate()
			outs = append(outs, output{kind: k, text: fmt.Sprintf("src|log().prefix('%s')", id),
				ids: func() []int64 { return sinkIDs(s) }, open: s.OpenGate})
		case "udf":
			s := env.Rec.Sink("udfout")
			s.CloseGate()
			outs = append(outs, output{kind: k, text: "src@echo()|log().prefix('udfout')",
				ids: func() []int64 { return sinkIDs(s) }, open: s.OpenGate})
		case "loopback":
			needLoopTask = true
			s := env.Rec.Sink("loop")
			s.CloseGate()
			outs = append(outs, output{kind: k, text: "src|kapacitorLoopback().database('db2').retentionPolicy('rp').measurement('looped')",
				ids: func() []int64 { return sinkIDs(s) }, open: s.OpenGate})
		}
		script += outs[i].text + "\n"
	}
	sub := fmt.Sprintf("stop=%s openBefore=%v n=%d groups=%d\n%s", stopKind, openBefore, n, ngroups, script)
	if !x.Announce(sub) {
		return
	}
	x.Count("evaluations", 1)
	fail := func(kind, key, format string, a ...interface{}) {
		x.Violatef(kind, key, sub, "%s\nscenario: %s", fmt.Sprintf(format, a...), sub)
	}
	base, _ := census()
	var loopET *kapacitor.ExecutingTask
	if needLoopTask {
		loopET, err = env.StartStream("L", "stream|from().measurement('looped')|log().prefix('loop')", []kapacitor.DBRP{{Database: "db2", RetentionPolicy: "rp"}})
		if err != nil {
			x.Inconclusive("loop task: " + err.Error())
			return
		}
	}
	et, err := env.StartStream("T", script, nil)
	if err != nil {
		fail("valid-task-rejected", "valid task rejected: "+firstWords(err.Error(), 6), "%v", err)
		return
	}
	// writes (in the background: they block once every buffer is full)
	acked := make([]bool, n)
	var ackMu sync.Mutex
	wdone := make(chan struct{})
	go func() {
		defer close(wdone)
		for i := 0; i < n; i++ {
			g := fmt.Sprintf("g%d", i%ngroups)
			if err := env.Write(kit.Point("m", map[string]string{"g": g}, map[string]interface{}{"id": int64(i)}, t0.Add(time.Duration(i)*time.Millisecond))); err == nil {
				ackMu.Lock()
				acked[i] = true
				ackMu.Unlock()
			}
		}
	}()
	inSink := env.Rec.Sink("in")
	openAll := func() {
		for _, o := range outs {
			o.open()
		}
	}
	// wait until the pipeline is saturated or everything has entered the task
	waitStable := func() {
		last, lastT := -1, time.Now()
		for time.Since(lastT) < 40*time.Millisecond {
			if l := inSink.Len(); l != last {
				last, lastT = l, time.Now()
			}
			select {
			case <-wdone:
				if inSink.Len() >= n {
					return
				}
			default:
			}
			time.Sleep(time.Millisecond)
		}
	}
	waitStable()
	if openBefore {
		openAll()
	}
	inAtStop := inSink.Len()
	atOutput := 0
	for _, o := range outs {
		if l := len(o.ids()); l > atOutput {
			atOutput = l
		}
	}
	backlog := inAtStop - atOutput
	x.MaxCount("backlog_at_stop", int64(backlog))
	select {
	case <-wdone:
	default:
		x.Count("stops_with_a_blocked_writer", 1)
	}
	// the stop
	stopDone := make(chan error, 1)
	go func() {
		var err error
		switch stopKind {
		case "StopTask":
			err = env.TM.StopTask("T")
		case "DeleteTask":
			err = env.TM.DeleteTask("T")
		default:
			env.TM.Drain()
			env.TM.StopTasks()
			err = env.TM.Close()
			env.Alert.Close()
		}
		stopDone <- err
	}()
	if !openBefore {
		time.Sleep(30 * time.Millisecond)
		openAll()
	}
	select {
	case err := <-stopDone:
		if err != nil {
			fail("stop-error", "the stop call returned an error: "+firstWords(err.Error(), 8), "%v", err)
		}
	case <-time.After(30 * time.Second):
		_, dump := census()
		prof := ""
		if x.Case.PBool("bp") {
			prof = "[back-pressure] "
		}
		fail("stop-hangs", prof+stopKind+" did not return within 30 s although every output gate is open ("+strings.Join(kinds, "+")+")", "goroutines running kapacitor code:\n%s", clip(dump, 9000))
		envClosed = true // closing would block behind the hung stop: leak this environment
		return
	}
	if stopKind == "daemon" {
		envClosed = true
	}
	select {
	case <-wdone:
	case <-time.After(30 * time.Second):
		_, dump := census()
		fail("writer-blocked", "a writer is still blocked 30 s after "+stopKind+" returned", "%s", clip(dump, 6000))
		return
	}
	// accepted: what entered the task (StopTask/DeleteTask) resp. what was acknowledged (daemon)
	acceptedSet := map[int64]bool{}
	if stopKind == "daemon" {
		for id, a := range acked {
			if a {
				acceptedSet[int64(id)] = true
			}
		}
	} else {
		for _, id := range sinkIDs(inSink) {
			acceptedSet[id] = true
		}
	}
	accepted := len(acceptedSet)
	x.Count("points_accepted", int64(accepted))
	if err := waitET(et, 10*time.Second); err != "" {
		fail("stop-hangs", "ExecutingTask.Wait does not return after the stop", "%s", err)
		return
	}
	if loopET != nil {
		// the loop task drains what was looped back
		time.Sleep(20 * time.Millisecond)
		env.TM.StopTask("L")
	}
	// alert handlers run asynchronously behind the topic queue: drain it (the daemon sequence
	// has closed the alert service, which does the same)
	if stopKind != "daemon" {
		for _, o := range outs {
			if o.drain != nil {
				o.drain()
			}
		}
	}
	deadline := time.Now().Add(5 * time.Second)
	for time.Now().Before(deadline) {
		done := true
		for _, o := range outs {
			if len(o.ids()) < accepted {
				done = false
			}
		}
		if done {
			break
		}
		time.Sleep(2 * time.Millisecond)
	}
	for i, o := range outs {
		ids := o.ids()
		x.Count("points_checked_at_outputs", int64(len(ids)))
		seen := map[int64]int{}
		for _, id := range ids {
			seen[id]++
		}
		missing, dups := 0, 0
		firstMissing := int64(-1)
		for id := 0; id < n; id++ {
			c := seen[int64(id)]
			if c == 0 && acceptedSet[int64(id)] {
				missing++
				if firstMissing < 0 {
					firstMissing = int64(id)
				}
			}
			if c > 1 {
				dups++
			}
		}
		if missing > 0 {
			fail("accepted-point-lost", fmt.Sprintf("%s: points accepted before %s never reached the %s output", strings.Join(kinds, "+"), stopKind, o.kind), "output %d (%s): %d of %d accepted points missing (first missing id %d); backlog at the stop call %d; gate opened before the stop: %v", i, o.text, missing, accepted, firstMissing, backlog, openBefore)
		}
		if dups > 0 {
			fail("duplicate-at-output", fmt.Sprintf("points arrived twice at the %s output", o.kind), "output %d (%s): %d ids more than once", i, o.text, dups)
		}
		// per group order
		last := map[int64]int64{}
		for _, id := range ids {
			g := id % int64(ngroups)
			if l, ok := last[g]; ok && id < l {
				fail("order-at-output", fmt.Sprintf("per-group order broken at the %s output", o.kind), "output %d: id %d after %d", i, id, l)
				break
			}
			last[g] = id
		}
	}
	if !envClosed {
		// census: with the task gone only the baseline goroutines may remain
		c, dump := settleCensus(base)
		x.Count("census_checks", 1)
		if c > base {
			fail("goroutine-leak", fmt.Sprintf("goroutines of the task are still alive after %s (%s)", stopKind, strings.Join(kinds, "+")), "baseline %d goroutines in kapacitor code, %d after the stop:\n%s", base, c, clip(leakDiff(dump), 5000))
		}
	}
	if backlog >= 100 {
		x.Nontrivial(fmt.Sprintf("%s|%s|%s|open=%v|%d", stopKind, strings.Join(kinds, "+"), mid, openBefore, backlog/500))
	}
}

func waitET(et *kapacitor.ExecutingTask, d time.Duration) string {
	ch := make(chan struct{})
	go func() { et.Wait(); close(ch) }()
	select {
	case <-ch:
		return ""
	case <-time.After(d):
		_, dump := census()
		return "goroutines:\n" + clip(dump, 5000)
	}
}

func leakDiff(dump string) string {
	// keep the goroutines that mention node/edge/task code
	var o []string
	for _, g := range strings.Split(dump, "\n\n") {
		if strings.Contains(g, "runForking") || strings.Contains(g, "services/storage") {
			continue
		}
		o = append(o, g)
	}
	return strings.Join(o, "\n\n")
}

func contains(ss []string, s string) bool {
	for _, v := range ss {
		if v == s {
			return true
		}
	}
	return false
}

func parseIDs(msgs []string) []int64 {
	var o []int64
	for _, m := range msgs {
		if v, err := strconv.ParseInt(strings.TrimSpace(m), 10, 64); err == nil {
			o = append(o, v)
		}
	}
	return o
}

func sinkIDs(s *kit.Sink) []int64 {
	var o []int64
	for _, it := range s.Items() {
		if it.P != nil {
			if v, ok := it.P.Fields["id"].(int64); ok {
				o = append(o, v)
			}
		}
	}
	return o
}

// ---- failure variant

func runFail(x *core.Ctx, r *core.Rng) {
	scratch, err := os.MkdirTemp(x.Scratch, "c07f")
	if err != nil {
		x.Inconclusive(err.Error())
		return
	}
	defer os.RemoveAll(scratch)
	n := r.Range(1500, 3500)
	k := r.Range(1, 1200)
	shapeKind := r.Pick([]string{"chain", "fork", "union", "join", "stats", "stats"})
	var script string
	switch shapeKind {
	case "chain":
		script = "stream|from().measurement('m')|log().prefix('in')|eval(lambda: \"id\" + 1).as('x').keep()|log().prefix('bomb')|window().periodCount(10).everyCount(10)|count('id')|log().prefix('out')"
	case "fork":
		script = "var s = stream|from().measurement('m')|log().prefix('in')\ns|log().prefix('bomb')|log().prefix('out')\ns|where(lambda: \"id\" > 10)|log().prefix('other')"
	case "stats":
		// a stats node only ends when its stop function is called
		script = "var s = stream|from().measurement('m')|log().prefix('in')\nvar a = s|log().prefix('bomb')\na|log().prefix('out')\na|stats(10ms)|log().prefix('st')\ns|stats(10ms)|log().prefix('st2')"
	case "union":
		script = "var s = stream|from().measurement('m')|log().prefix('in')\nvar a = s|log().prefix('bomb')\nvar b = s|where(lambda: \"id\" > 10)\na|union(b)|log().prefix('out')"
	default:
		script = "var s = stream|from().measurement('m')|log().prefix('in')\nvar a = s|log().prefix('bomb')\nvar b = s|eval(lambda: \"id\" * 2).as('y')\na|join(b).as('a', 'b')|log().prefix('out')"
	}
	// variant: the node is stuck in front of its k-th point until the edge that feeds it is
	// full and its parent blocked handing over the next point - then it fails
	blockedParent := r.Chance(0.5)
	if blockedParent && n-k < 1400 {
		k = n - 1400
	}
	sub := fmt.Sprintf("node failure at point %d of %d, shape %s, parent blocked on the full edge when the node fails: %v\n%s", k, n, shapeKind, blockedParent, script)
	if !x.Announce(sub) {
		return
	}
	x.Count("evaluations", 1)
	env, err := kit.NewEnv(kit.EnvOpts{Scratch: scratch, NoAlert: true})
	if err != nil {
		x.Inconclusive(err.Error())
		return
	}
	defer env.Close()
	fail := func(kind, key, format string, a ...interface{}) {
		x.Violatef(kind, key, sub, "%s\nscenario: %s", fmt.Sprintf(format, a...), sub)
	}
	base, _ := census()
	cnt := 0
	var cmu sync.Mutex
	env.Rec.Sink("bomb").OnItem = func(kit.Item) {
		cmu.Lock()
		cnt++
		c := cnt
		cmu.Unlock()
		if c == k {
			panic("verif: injected node failure")
		}
	}
	et, err := env.StartStream("T", script, nil)
	if err != nil {
		fail("valid-task-rejected", "valid task rejected: "+firstWords(err.Error(), 6), "%v", err)
		return
	}
	// a second, healthy task must keep receiving: the dead task must not block the ingest
	_, err = env.StartStream("H", "stream|from().measurement('m')|log().prefix('healthy')", nil)
	if err != nil {
		x.Inconclusive(err.Error())
		return
	}
	if blockedParent {
		env.Rec.Sink("bomb").CloseGate()
		env.Rec.Sink("bomb").Allow(k - 1)
	}
	wdone := make(chan int, 1)
	go func() {
		ok := 0
		for i := 0; i < n; i++ {
			if err := env.Write(kit.Point("m", map[string]string{"g": "a"}, map[string]interface{}{"id": int64(i)}, t0.Add(time.Duration(i)*time.Millisecond))); err == nil {
				ok++
			}
		}
		wdone <- ok
	}()
	if blockedParent {
		bs, in := env.Rec.Sink("bomb"), env.Rec.Sink("in")
		if bs.WaitLen(k-1, 20*time.Second) && bs.WaitBlocked(20*time.Second) {
			// the k-th point waits at the node; let the backlog build up behind it
			last, lastT := -1, time.Now()
			for time.Since(lastT) < 60*time.Millisecond {
				if l := in.Len(); l != last {
					last, lastT = l, time.Now()
				}
				time.Sleep(time.Millisecond)
			}
			if in.Len() >= k+1000 {
				x.Count("failures_with_a_blocked_parent", 1)
			}
		}
		bs.Allow(1)
	}
	select {
	case <-wdone:
	case <-time.After(30 * time.Second):
		_, dump := census()
		fail("writer-blocked", "writers are blocked after a node of one task failed ("+shapeKind+")", "after 30 s the writer has not finished %d writes; healthy task saw %d\n%s", n, env.Rec.Sink("healthy").Len(), clip(dump, 6000))
		return
	}
	if !env.Rec.Sink("healthy").WaitLen(n, 20*time.Second) {
		fail("accepted-point-lost", "a healthy task lost points while another task's node failed", "healthy task saw %d of %d", env.Rec.Sink("healthy").Len(), n)
	}
	waitFor := 20 * time.Second
	if shapeKind == "stats" {
		waitFor = 2 * time.Second
	}
	terminated := true
	// A failed node aborts its parent edges; the parent notices when it hands over its next
	// point. If the failure came after the parent had already handed over everything, nothing
	// would ever tell it: keep a trickle of further points flowing (as a live system does).
	nudgeStop := make(chan struct{})
	go func() {
		for i := 0; i < 2000; i++ {
			select {
			case <-nudgeStop:
				return
			case <-time.After(time.Millisecond):
			}
			env.Write(kit.Point("m", map[string]string{"g": "a"}, map[string]interface{}{"id": int64(n + i)}, t0.Add(time.Duration(n+i)*time.Millisecond)))
		}
	}()
	msg := waitET(et, waitFor)
	close(nudgeStop)
	if msg != "" {
		terminated = false
		fail("stop-hangs", "a task whose node failed never terminates ("+shapeKind+")", "%s", msg)
		if shapeKind != "stats" {
			return
		}
		// stats nodes (known finding): go on, StopTask must still end everything
	}
	if terminated {
		if err := et.Wait(); err == nil {
			fail("node-error-lost", "a task whose node panicked ended without an error", "shape %s", shapeKind)
		}
	}
	stopDone := make(chan error, 1)
	go func() { stopDone <- env.TM.StopTask("T") }()
	select {
	case <-stopDone:
	case <-time.After(30 * time.Second):
		_, dump := census()
		fail("stop-hangs", "StopTask of a task whose node failed does not return ("+shapeKind+")", "%s", clip(dump, 6000))
		return
	}
	env.TM.StopTask("H")
	c, dump := settleCensus(base)
	x.Count("census_checks", 1)
	if c > base {
		fail("goroutine-leak", "goroutines of a failed task are still alive after StopTask ("+shapeKind+")", "baseline %d, now %d:\n%s", base, c, clip(leakDiff(dump), 5000))
	}
	x.Nontrivial(fmt.Sprintf("fail|%s|%d", shapeKind, k/200))
}

func clip(s string, n int) string {
	if len(s) > n {
		return s[:n] + "…"
	}
	return s
}

func firstWords(s string, n int) string {
	w := strings.Fields(s)
	if len(w) > n {
		w = w[:n]
	}
	return strings.Join(w, " ")
}

var reFromM = regexp.MustCompile(`FROM "?db"?\."?rp"?\."?(m\d+)"?`)

var _ = sort.Strings

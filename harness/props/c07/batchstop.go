package c07

import (
	"encoding/json"
	"fmt"
	"os"
	"strings"
	"sync"
	"time"

	imodels "github.com/influxdata/influxdb/models"
	"github.com/influxdata/kapacitor/influxdb"

	"verifharness/core"
	"verifharness/kit"
)

// Sub-monitor "batchstop": batch tasks that really query (a fake InfluxDB that answers slowly),
// stopped while queries are running and ticks are due. The stop must return, the task must
// end, no goroutine may be left, and the batches of the queries that were answered before the
// stop was requested must be at the sink.
func runBatchStop(x *core.Ctx, r *core.Rng) {
	scratch, err := os.MkdirTemp(x.Scratch, "c07b")
	if err != nil {
		x.Inconclusive(err.Error())
		return
	}
	defer os.RemoveAll(scratch)
	sched := r.Pick([]string{".every(10ms).align()", ".every(10ms).align()", ".every(7ms)", ".every(20ms).align().offset(5ms)", ".cron('* * * * * * *')"})
	nq := r.Range(1, 3)
	delay := time.Duration(r.Range(0, 60)) * time.Millisecond
	stopKind := r.Pick([]string{"StopTask", "StopTask", "DeleteTask", "daemon"})
	var sb strings.Builder
	for i := 0; i < nq; i++ {
		fmt.Fprintf(&sb, "batch|query('SELECT v FROM \"db\".\"rp\".\"m%d\"').period(1s)%s|log().prefix('out%d')\n", i, sched, i)
	}
	script := sb.String()
	sub := fmt.Sprintf("batch stop=%s query-delay=%v\n%s", stopKind, delay, script)
	if !x.Announce(sub) {
		return
	}
	x.Count("evaluations", 1)
	fail := func(kind, key, format string, a ...interface{}) {
		x.Violatef(kind, key, sub, "%s\nscenario: %s", fmt.Sprintf(format, a...), sub)
	}
	rounds := 6
	if strings.Contains(sched, "cron") {
		rounds = 2
	}
	answeredTotal := 0
	for round := 0; round < rounds; round++ {
		env, err := kit.NewEnv(kit.EnvOpts{Scratch: scratch, NoAlert: true})
		if err != nil {
			x.Inconclusive(err.Error())
			return
		}
		fi := kit.NewFakeInflux()
		env.TM.InfluxDBService = fi
		var mu sync.Mutex
		answered := map[string]int{} // measurement -> queries answered
		stopping := false
		answeredBeforeStop := map[string]int{}
		fi.Respond = func(q string) (*influxdb.Response, error) {
			time.Sleep(delay)
			m := reFromM.FindStringSubmatch(q)
			name := "m?"
			if m != nil {
				name = m[1]
			}
			mu.Lock()
			answered[name]++
			if !stopping {
				answeredBeforeStop[name]++
			}
			n := answered[name]
			mu.Unlock()
			row := imodels.Row{Name: name, Columns: []string{"time", "v"}, Values: [][]interface{}{{time.Unix(int64(n), 0).UTC().Format(time.RFC3339Nano), json.Number(fmt.Sprint(n))}}}
			return &influxdb.Response{Results: []influxdb.Result{{Series: []imodels.Row{row}}}}, nil
		}
		base, _ := census()
		et, err := env.StartBatch("T", script, nil)
		if err != nil {
			env.Close()
			fail("valid-task-rejected", "valid batch task rejected: "+firstWords(err.Error(), 6), "%v", err)
			return
		}
		if err := et.StartBatching(); err != nil {
			env.Close()
			x.Inconclusive("StartBatching: " + err.Error())
			return
		}
		// let it run for a while: long enough for ticks to be due while a query is being answered
		run := time.Duration(r.Range(15, 90)) * time.Millisecond
		if strings.Contains(sched, "cron") {
			run = time.Duration(r.Range(1100, 2300)) * time.Millisecond
		}
		time.Sleep(run)
		mu.Lock()
		stopping = true
		mu.Unlock()
		stopDone := make(chan error, 1)
		go func() {
			var err error
			switch stopKind {
			case "StopTask":
				err = env.TM.StopTask("T")
			case "DeleteTask":
				err = env.TM.DeleteTask("T")
			default:
				env.TM.Drain()
				env.TM.StopTasks()
				err = env.TM.Close()
			}
			stopDone <- err
		}()
		select {
		case err := <-stopDone:
			if err != nil {
				fail("stop-error", "the stop call of a batch task returned an error: "+firstWords(err.Error(), 8), "%v", err)
			}
		case <-time.After(30 * time.Second):
			_, dump := census()
			fail("stop-hangs", stopKind+" of a querying batch task did not return within 30 s ("+schedClass(sched)+")", "round %d; goroutines running kapacitor code:\n%s", round, clip(dump, 6000))
			return // the environment is leaked: closing it would block behind the hung stop
		}
		if msg := waitET(et, 10*time.Second); msg != "" {
			fail("stop-hangs", "ExecutingTask.Wait of a batch task does not return after the stop", "%s", msg)
			return
		}
		if stopKind != "daemon" {
			env.TM.Close()
		}
		c, dump := settleCensus(base)
		x.Count("census_checks", 1)
		if c > base {
			fail("goroutine-leak", "goroutines of a stopped batch task are still alive ("+schedClass(sched)+")", "baseline %d, now %d:\n%s", base, c, clip(leakDiff(dump), 5000))
		}
		mu.Lock()
		for i := 0; i < nq; i++ {
			name := fmt.Sprintf("m%d", i)
			got := len(env.Rec.Sink(fmt.Sprintf("out%d", i)).Batches())
			// the answer that was being handed over when the stop came may or may not be processed
			if got < answeredBeforeStop[name]-1 {
				fail("accepted-point-lost", "batches of queries answered before the stop never reached the sink", "round %d query %s: %d answered before the stop was requested, %d batches at the sink", round, name, answeredBeforeStop[name], got)
			}
			if got > answered[name] {
				fail("duplicate-at-output", "more batches at the sink than queries answered", "round %d query %s: %d answered, %d at the sink", round, name, answered[name], got)
			}
			answeredTotal += answered[name]
		}
		mu.Unlock()
		x.Count("batch_stop_rounds", 1)
	}
	x.Count("queries_answered", int64(answeredTotal))
	if answeredTotal >= 2 {
		x.Nontrivial(fmt.Sprintf("batchstop|%s|%s|%d|%v", schedClass(sched), stopKind, nq, delay/(20*time.Millisecond)))
	}
}

func schedClass(s string) string {
	switch {
	case strings.Contains(s, "cron"):
		return "cron"
	case strings.Contains(s, "align"):
		return "every+align"
	}
	return "every"
}

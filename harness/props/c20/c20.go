// Package c20: API requests are authorised by the nearest granted resource only.
package c20

import (
	"crypto/hmac"
	"crypto/sha256"
	"encoding/base64"
	"encoding/json"
	"errors"
	"expvar"
	"fmt"
	"net/http"
	"net/http/httptest"
	"net/url"
	"sort"
	"strings"
	"sync"
	"time"

	"github.com/influxdata/influxdb/models"
	"github.com/influxdata/kapacitor/auth"
	"github.com/influxdata/kapacitor/services/httpd"

	"verifharness/core"
	"verifharness/kit"
)

type prop struct{}

func init() { core.Register(prop{}) }

func (prop) ID() string    { return "C20" }
func (prop) Level() string { return "exploration" }
func (prop) Rule() string {
	return "tables: every assignment of {absent,none,read,write,delete,read+write,all} to the paths of a small universe (quick: the 4 /api paths + 2 fixed database grants, thorough: all 6 paths) x every resource spelling of <=4 segments over {api,tasks,t1,database,db1_clean,.,..,empty} (+ trailing slash, + relative) x 5 privileges x admin flag, judged by an independent nearest-ancestor reference; " +
		"dbresource: all database names of length<=5 over {a,_,/,.} (+suffix words) pairwise; http: real httpd.Handler with authentication on, sentinel routes, every method x path spelling x credential form. " +
		"A case is non-trivial when the decision depends on a grant (the table has an entry on the ancestor chain) / when a sentinel or the points writer was actually reached"
}
func (prop) Assumptions() []string {
	return []string{
		"privilege sets are drawn from {none, read, write, delete, read+write, all}; mixed sets containing 'all' plus single privileges are not generated (their meaning is not fixed by the statement)",
		"the HTTP monitor judges only the necessary condition (a handler ran => credentials valid and reference permits); over-denial is counted, not judged",
		"server/server.go wiring is not executed; the handler is constructed directly with requireAuthentication=true",
	}
}
func (prop) ExhaustiveNote(tier string) (bool, string) {
	if tier == "thorough" {
		return true, "all 7^6 privilege tables x all resource spellings of <=4 segments x 5 privileges; all database names <=5 over the alphabet"
	}
	return true, "all 7^4 tables over the /api paths (database grants fixed) x all resource spellings <=4 segments x 5 privileges; all database names <=5 over the alphabet; the HTTP part is sampled"
}
func (prop) MinNontrivial(tier string) int { return 1000 }

var universe = []string{"/", "/api", "/api/tasks", "/api/tasks/t1", "/database", "/database/db1_clean"}

var grantKinds = [][]auth.Privilege{
	nil, // absent
	{auth.NoPrivileges},
	{auth.ReadPrivilege},
	{auth.WritePrivilege},
	{auth.DeletePrivilege},
	{auth.ReadPrivilege, auth.WritePrivilege},
	{auth.AllPrivileges},
}
var grantNames = []string{"absent", "none", "read", "write", "delete", "read+write", "all"}

var privs = []auth.Privilege{auth.NoPrivileges, auth.ReadPrivilege, auth.WritePrivilege, auth.DeletePrivilege, auth.AllPrivileges}

func (prop) Cases(tier string, seed uint64) []core.Case {
	var cs []core.Case
	// (a) tables: a case = a contiguous block of table numbers
	total := 7 * 7 * 7 * 7 // quick: universe[0..3]; db grants fixed per block parity
	mode := "api4"
	if tier == "thorough" {
		total = 7 * 7 * 7 * 7 * 7 * 7
		mode = "all6"
	}
	blocks := 48
	if tier == "thorough" {
		blocks = 343
	}
	per := (total + blocks - 1) / blocks
	for i := 0; i < blocks; i++ {
		lo, hi := i*per, (i+1)*per
		if hi > total {
			hi = total
		}
		if lo >= hi {
			break
		}
		cs = append(cs, core.Case{ID: fmt.Sprintf("tables-%s-%d", mode, i), Kind: "tables", Seed: seed,
			Params: map[string]interface{}{"mode": mode, "lo": lo, "hi": hi}})
	}
	// (b) database resources
	cs = append(cs, core.Case{ID: "dbresource", Kind: "dbresource", Seed: seed})
	// (c) http
	nh := 12
	if tier == "thorough" {
		nh = 200
	}
	for i := 0; i < nh; i++ {
		cs = append(cs, core.Case{ID: fmt.Sprintf("http-%d", i), Kind: "http", Seed: seed + uint64(i)*7919, N: 600})
	}
	return cs
}

func (prop) Run(x *core.Ctx) {
	switch x.Case.Kind {
	case "tables":
		runTables(x)
	case "dbresource":
		runDB(x)
	case "http":
		runHTTP(x)
	}
}

// ---- reference ------------------------------------------------------------------------------

// normalise is an independent path normaliser (not path.Clean): returns the segments of an
// absolute path after resolving "", "." and "..".
func normalise(p string) []string {
	var out []string
	for _, s := range strings.Split(p, "/") {
		switch s {
		case "", ".":
		case "..":
			if len(out) > 0 {
				out = out[:len(out)-1]
			}
		default:
			out = append(out, s)
		}
	}
	return out
}

func maskOf(ps []auth.Privilege) uint {
	m := uint(0)
	for _, p := range ps {
		m |= uint(p)
	}
	return m
}

// refAuthorize: nearest ancestor-or-self that carries a grant decides.
func refAuthorize(table map[string]uint, admin bool, resource string, priv auth.Privilege) bool {
	if priv == auth.NoPrivileges || admin {
		return true
	}
	if !strings.HasPrefix(resource, "/") {
		return false
	}
	segs := normalise(resource)
	for i := len(segs); i >= 0; i-- {
		key := "/" + strings.Join(segs[:i], "/")
		if m, ok := table[key]; ok {
			return m&uint(priv) != 0 || m&uint(auth.AllPrivileges) != 0
		}
	}
	return false
}

func onChain(table map[string]uint, resource string) bool {
	if !strings.HasPrefix(resource, "/") {
		return false
	}
	segs := normalise(resource)
	for i := len(segs); i >= 0; i-- {
		if _, ok := table["/"+strings.Join(segs[:i], "/")]; ok {
			return true
		}
	}
	return false
}

var segAlphabet = []string{"api", "tasks", "t1", "database", "db1_clean", ".", "..", ""}

func allResources() []string {
	var out []string
	var rec func(prefix string, depth int)
	rec = func(prefix string, depth int) {
		if depth > 0 {
			out = append(out, prefix)
		}
		if depth == 4 {
			return
		}
		for _, s := range segAlphabet {
			rec(prefix+"/"+s, depth+1)
		}
	}
	rec("", 0)
	// relative spellings and the root
	out = append(out, "/", "", "api", "api/tasks", "./api", "../api/tasks")
	return out
}

func runTables(x *core.Ctx) {
	lo, hi := x.Case.PInt("lo", 0), x.Case.PInt("hi", 0)
	mode := x.Case.PStr("mode", "api4")
	resources := allResources()
	for tn := lo; tn < hi; tn++ {
		digits := make([]int, 6)
		n := tn
		if mode == "api4" {
			for i := 0; i < 4; i++ {
				digits[i] = n % 7
				n /= 7
			}
			// database grants fixed but varied deterministically with the table number
			digits[4] = (tn / 3) % 7
			digits[5] = (tn / 5) % 7
		} else {
			for i := 0; i < 6; i++ {
				digits[i] = n % 7
				n /= 7
			}
		}
		grants := map[string][]auth.Privilege{}
		ref := map[string]uint{}
		for i, d := range digits {
			if d == 0 {
				continue
			}
			key := universe[i]
			// hostile spellings of the granted resource itself: NewUser must normalise them
			switch (tn + i) % 3 {
			case 1:
				if key != "/" {
					key += "/"
				}
			case 2:
				if key != "/" {
					key = key + "/."
				}
			}
			grants[key] = grantKinds[d]
			ref[universe[i]] = maskOf(grantKinds[d])
		}
		name := fmt.Sprintf("t%d", tn)
		if !x.Announce(name) {
			continue
		}
		for _, admin := range []bool{false, true} {
			u := auth.NewUser("u", nil, admin, grants)
			for _, r := range resources {
				chain := onChain(ref, r)
				for _, pv := range privs {
					got := u.AuthorizeAction(auth.Action{Resource: r, Privilege: pv}) == nil
					want := refAuthorize(ref, admin, r, pv)
					x.Count("evaluations", 1)
					if got != want {
						tb := tableString(digits)
						x.Violatef("authorize-decision", fmt.Sprintf("got=%v want=%v admin=%v priv=%s resource=%q table=%s", got, want, admin, pv, r, tb), name,
							"AuthorizeAction(%q,%s) admin=%v with grants %s: got allowed=%v, reference (nearest granted ancestor) says %v", r, pv, admin, tb, got, want)
						if x.NumViolations() > 30 {
							return
						}
					}
				}
				if chain && !admin {
					x.Count("decisions_depending_on_a_grant", int64(len(privs)))
				}
			}
		}
		x.Nontrivial(mode + tableString(digits))
		if tn == lo {
			x.Sample(map[string]interface{}{"table": tableString(digits), "resources": len(resources), "example_resource": resources[(tn*31)%len(resources)]})
		}
	}
}

func tableString(d []int) string {
	var parts []string
	for i, v := range d {
		if v != 0 {
			parts = append(parts, universe[i]+"="+grantNames[v])
		}
	}
	return "{" + strings.Join(parts, ",") + "}"
}

// ---- (b) database resources -----------------------------------------------------------------

func runDB(x *core.Ctx) {
	alpha := []string{"a", "_", "/", "."}
	var names []string
	var rec func(p string, d int)
	rec = func(p string, d int) {
		if d > 0 {
			names = append(names, p)
		}
		if d == 5 {
			return
		}
		for _, a := range alpha {
			rec(p+a, d+1)
		}
	}
	rec("", 0)
	base := append([]string{}, names[:84]...)
	for _, n := range base {
		names = append(names, n+"_clean", n+"_dirty", n+"_clean_dirty", "db/"+n, n+"/db")
	}
	names = append(names, "db1", "db1_clean", "db1_dirty", "..", "../..", "a/../b", "x/", "/x", "_internal", "tele/graf", "tele_graf", "tele_graf_dirty", "tele/graf_clean")
	seen := map[string]string{}
	dedupNames := map[string]bool{}
	for _, n := range names {
		if dedupNames[n] {
			continue
		}
		dedupNames[n] = true
		if !x.Announce(n) {
			continue
		}
		r := auth.DatabaseResource(n)
		x.Count("evaluations", 1)
		x.Nontrivial("db:" + n)
		// exactly one element below /database, and stable under normalisation
		segs := normalise(r)
		if !strings.HasPrefix(r, "/database/") || len(segs) != 2 || segs[0] != "database" || "/"+strings.Join(segs, "/") != r {
			x.Violatef("dbresource-shape", fmt.Sprintf("name=%q resource=%q", n, r), n, "DatabaseResource(%q)=%q is not exactly one clean element below /database", n, r)
		}
		if prev, ok := seen[r]; ok {
			a, b := prev, n
			if a > b {
				a, b = b, a
			}
			x.Violatef("dbresource-collision", a+"|"+b, n, "distinct database names %q and %q both map to resource %q", a, b, r)
		} else {
			seen[r] = n
		}
	}
	x.Count("database_names", int64(len(dedupNames)))
	x.Sample(map[string]interface{}{"names": len(dedupNames), "example": []string{"a/b", auth.DatabaseResource("a/b"), "a_b", auth.DatabaseResource("a_b")}})
}

// ---- (c) HTTP -------------------------------------------------------------------------------

type fakeAuth struct {
	users map[string]auth.User
	pw    map[string]string
	tok   map[string]string // subscription token -> user
}

func (f *fakeAuth) Authenticate(u, p string) (auth.User, error) {
	if pw, ok := f.pw[u]; ok && pw == p {
		return f.users[u], nil
	}
	return auth.User{}, errors.New("bad credentials")
}
func (f *fakeAuth) User(u string) (auth.User, error) {
	if usr, ok := f.users[u]; ok {
		return usr, nil
	}
	return auth.User{}, errors.New("unknown user")
}
func (f *fakeAuth) SubscriptionUser(token string) (auth.User, error) {
	if u, ok := f.tok[token]; ok {
		return f.users[u], nil
	}
	return auth.User{}, errors.New("unknown token")
}
func (f *fakeAuth) GrantSubscriptionAccess(token, db, rp string) error { return nil }
func (f *fakeAuth) ListSubscriptionTokens() ([]string, error)          { return nil, nil }
func (f *fakeAuth) RevokeSubscriptionAccess(token string) error        { return nil }

type pw struct {
	mu    sync.Mutex
	calls []string
}

func (p *pw) WritePoints(db, rp string, _ models.ConsistencyLevel, pts []models.Point) error {
	p.mu.Lock()
	p.calls = append(p.calls, db)
	p.mu.Unlock()
	return nil
}

func b64(b []byte) string { return base64.RawURLEncoding.EncodeToString(b) }

func makeJWT(secret string, claims map[string]interface{}, alg string) string {
	h, _ := json.Marshal(map[string]string{"alg": alg, "typ": "JWT"})
	c, _ := json.Marshal(claims)
	msg := b64(h) + "." + b64(c)
	if alg == "none" {
		return msg + "."
	}
	m := hmac.New(sha256.New, []byte(secret))
	m.Write([]byte(msg))
	return msg + "." + b64(m.Sum(nil))
}

type cred struct {
	name  string
	user  string // user the reference attributes the request to ("" = invalid credentials)
	apply func(r *http.Request)
}

func runHTTP(x *core.Ctx) {
	rng := core.NewRng(x.Case.Seed, 20)
	const secret = "s3cret"
	// users with random tables
	fa := &fakeAuth{users: map[string]auth.User{}, pw: map[string]string{}, tok: map[string]string{}}
	refTables := map[string]map[string]uint{}
	admins := map[string]bool{}
	unames := []string{"alice", "bob", "carol", "root"}
	for _, un := range unames {
		grants := map[string][]auth.Privilege{}
		ref := map[string]uint{}
		for _, p := range append(append([]string{}, universe...), "/api/write", "/api/templates", "/database/db_x_dirty", "/api/preview") {
			d := rng.Intn(7)
			if d == 0 {
				continue
			}
			grants[p] = grantKinds[d]
			ref[p] = maskOf(grantKinds[d])
		}
		admin := un == "root"
		admins[un] = admin
		fa.users[un] = auth.NewUser(un, nil, admin, grants)
		fa.pw[un] = "pw-" + un
		refTables[un] = ref
	}
	fa.tok["tok-bob"] = "bob"

	sm := new(expvar.Map).Init()
	pprofOn := rng.Bool()
	h := httpd.NewHandler(true, pprofOn, false, false, rng.Bool(), sm, kit.DiagService().NewHTTPDHandler(), secret)
	h.AuthService = fa
	writer := &pw{}
	h.PointsWriter = writer

	var ranMu sync.Mutex
	var ran []string
	sentinel := func(name string) func(http.ResponseWriter, *http.Request) {
		return func(w http.ResponseWriter, r *http.Request) {
			ranMu.Lock()
			ran = append(ran, name+" "+r.URL.Path)
			ranMu.Unlock()
			w.WriteHeader(200)
		}
	}
	methods := []string{"GET", "POST", "PATCH", "PUT", "DELETE", "HEAD", "OPTIONS"}
	patterns := []string{"/tasks", "/tasks/", "/tasks/t1", "/templates", "/database", "/database/db1_clean"}
	for _, m := range methods {
		for _, p := range patterns {
			if err := h.AddRoute(httpd.Route{Method: m, Pattern: p, HandlerFunc: sentinel(m + " " + p)}); err != nil {
				x.Inconclusive("AddRoute: " + err.Error())
				return
			}
		}
	}
	// routes flagged BypassAuth are exempt from authentication only while pprof is exposed
	for _, m := range methods {
		if err := h.AddRoute(httpd.Route{Method: m, Pattern: "/bypass", HandlerFunc: sentinel(m + " /bypass"), BypassAuth: true}); err != nil {
			x.Inconclusive("AddRoute: " + err.Error())
			return
		}
	}
	future := float64(time.Now().Add(24 * time.Hour).Unix())
	creds := []cred{
		{"none", "", func(r *http.Request) {}},
		{"basic-good-alice", "alice", func(r *http.Request) { r.SetBasicAuth("alice", "pw-alice") }},
		{"basic-good-bob", "bob", func(r *http.Request) { r.SetBasicAuth("bob", "pw-bob") }},
		{"basic-good-carol", "carol", func(r *http.Request) { r.SetBasicAuth("carol", "pw-carol") }},
		{"basic-good-root", "root", func(r *http.Request) { r.SetBasicAuth("root", "pw-root") }},
		{"basic-wrong-pw", "", func(r *http.Request) { r.SetBasicAuth("alice", "nope") }},
		{"basic-empty-user", "", func(r *http.Request) { r.SetBasicAuth("", "pw-alice") }},
		{"basic-unknown-user", "", func(r *http.Request) { r.SetBasicAuth("mallory", "pw-alice") }},
		{"query-good-carol", "carol", func(r *http.Request) {
			q := r.URL.Query()
			q.Set("u", "carol")
			q.Set("p", "pw-carol")
			r.URL.RawQuery = q.Encode()
		}},
		{"query-wrong", "", func(r *http.Request) {
			q := r.URL.Query()
			q.Set("u", "carol")
			q.Set("p", "x")
			r.URL.RawQuery = q.Encode()
		}},
		{"query-user-only", "", func(r *http.Request) { q := r.URL.Query(); q.Set("u", "root"); r.URL.RawQuery = q.Encode() }},
		{"bearer-good-alice", "alice", func(r *http.Request) {
			r.Header.Set("Authorization", "Bearer "+makeJWT(secret, map[string]interface{}{"username": "alice", "exp": future}, "HS256"))
		}},
		{"bearer-no-exp", "", func(r *http.Request) {
			r.Header.Set("Authorization", "Bearer "+makeJWT(secret, map[string]interface{}{"username": "root"}, "HS256"))
		}},
		{"bearer-expired", "", func(r *http.Request) {
			r.Header.Set("Authorization", "Bearer "+makeJWT(secret, map[string]interface{}{"username": "root", "exp": float64(time.Now().Add(-time.Hour).Unix())}, "HS256"))
		}},
		{"bearer-wrong-secret", "", func(r *http.Request) {
			r.Header.Set("Authorization", "Bearer "+makeJWT("other", map[string]interface{}{"username": "root", "exp": future}, "HS256"))
		}},
		{"bearer-alg-none", "", func(r *http.Request) {
			r.Header.Set("Authorization", "Bearer "+makeJWT(secret, map[string]interface{}{"username": "root", "exp": future}, "none"))
		}},
		{"bearer-unknown-user", "", func(r *http.Request) {
			r.Header.Set("Authorization", "Bearer "+makeJWT(secret, map[string]interface{}{"username": "mallory", "exp": future}, "HS256"))
		}},
		{"bearer-empty-user", "", func(r *http.Request) {
			r.Header.Set("Authorization", "Bearer "+makeJWT(secret, map[string]interface{}{"username": "", "exp": future}, "HS256"))
		}},
		{"bearer-garbage", "", func(r *http.Request) { r.Header.Set("Authorization", "Bearer abc.def.ghi") }},
		{"subscription-good-bob", "bob", func(r *http.Request) { r.SetBasicAuth(httpd.SubscriptionUser, "tok-bob") }},
		{"subscription-bad", "", func(r *http.Request) { r.SetBasicAuth(httpd.SubscriptionUser, "tok-nope") }},
		{"authz-garbage", "", func(r *http.Request) { r.Header.Set("Authorization", "Negotiate zzz") }},
	}
	base := []string{"/kapacitor/v1", "/kapacitor/v1preview", "", "/kapacitor/v1/..", "/kapacitor/v1/../v1", "//kapacitor/v1", "/kapacitor//v1", "/kapacitor/v1/."}
	tails := []string{"/bypass", "/bypass", "/tasks/../bypass", "/tasks", "/tasks/", "/tasks/t1", "/tasks/t1/", "/tasks/../tasks/t1", "/tasks//t1", "/templates", "/templates/../tasks", "/tasks/t1/..", "/tasks/t1/../..", "/tasks/./t1", "/tasks/t1/x", "/database", "/database/db1_clean", "/write", "/ping", "/..", "/tasks/..%2ft1"}
	dbs := []string{"db1", "db_x", "db/x", "db_x_dirty", "", "db1_clean", "other"}

	n := x.Case.N
	for i := 0; i < n; i++ {
		m := methods[rng.Intn(len(methods))]
		c := creds[rng.Intn(len(creds))]
		if rng.Chance(0.55) {
			c = creds[[]int{1, 2, 3, 4, 8, 11, 19}[rng.Intn(7)]] // valid credential forms
		}
		b := base[rng.Intn(len(base))]
		if rng.Chance(0.5) {
			b = base[rng.Intn(2)]
		}
		p := b + tails[rng.Intn(len(tails))]
		isWrite := strings.HasSuffix(p, "/write")
		db := dbs[rng.Intn(len(dbs))]
		u := &url.URL{Path: p}
		if isWrite {
			m = []string{"POST", "POST", "POST", "OPTIONS", "GET"}[rng.Intn(5)]
			q := url.Values{}
			if db != "" || rng.Bool() {
				q.Set("db", db)
			}
			u.RawQuery = q.Encode()
		}
		sub := fmt.Sprintf("%s %s cred=%s db=%s pprof=%v", m, p, c.name, db, pprofOn)
		if !x.Announce(sub) {
			continue
		}
		var body *strings.Reader
		if isWrite {
			body = strings.NewReader("m,t=a v=1 1000000000\n")
		} else {
			body = strings.NewReader("")
		}
		req := httptest.NewRequest(m, "http://kapacitor.test/", body)
		req.URL.Path = u.Path
		req.URL.RawQuery = u.RawQuery
		req.RequestURI = u.Path
		c.apply(req)
		ranMu.Lock()
		ran = ran[:0]
		ranMu.Unlock()
		writer.mu.Lock()
		writer.calls = writer.calls[:0]
		writer.mu.Unlock()
		rec := httptest.NewRecorder()
		h.ServeHTTP(rec, req)
		x.Count("evaluations", 1)
		x.SetAdd("http_status", fmt.Sprint(rec.Code))

		ranMu.Lock()
		ranNow := append([]string{}, ran...)
		ranMu.Unlock()
		writer.mu.Lock()
		wrote := append([]string{}, writer.calls...)
		writer.mu.Unlock()

		var need auth.Privilege
		switch m {
		case "GET":
			need = auth.ReadPrivilege
		case "POST", "PATCH", "PUT":
			need = auth.WritePrivilege
		case "DELETE":
			need = auth.DeletePrivilege
		default:
			need = auth.NoPrivileges
		}
		for _, r := range ranNow {
			// r = "<method> <pattern> <final url path>"
			parts := strings.SplitN(r, " ", 3)
			finalPath := parts[2]
			x.Count("sentinel_runs", 1)
			x.Nontrivial("ran:" + sub)
			if strings.HasSuffix(parts[1], "/bypass") && pprofOn {
				x.Count("bypass_route_served_with_pprof_exposed", 1)
				continue // the configured exemption
			}
			if c.user == "" {
				x.Violatef("http-served-without-credentials", fmt.Sprintf("cred=%s method=%s path=%q", c.name, m, p), sub,
					"sentinel %q ran (status %d) although the credentials %q are not valid", r, rec.Code, c.name)
				continue
			}
			if !strings.HasPrefix(finalPath, httpd.BasePath) {
				x.Violatef("http-route-outside-base", fmt.Sprintf("method=%s path=%q final=%q", m, p, finalPath), sub, "sentinel ran on a path outside the API base: %q", finalPath)
				continue
			}
			resource := "/api" + strings.TrimPrefix(finalPath, httpd.BasePath)
			if !refAuthorize(refTables[c.user], admins[c.user], resource, need) {
				x.Violatef("http-served-without-grant", fmt.Sprintf("user=%s method=%s path=%q resource=%q table=%v", c.user, m, p, resource, refTables[c.user]), sub,
					"sentinel %q ran for user %s (status %d) but the reference denies %s on %q; grants=%v", r, c.user, rec.Code, need, resource, refTables[c.user])
			}
		}
		for _, wdb := range wrote {
			x.Count("points_writer_calls", 1)
			x.Nontrivial("wrote:" + sub)
			if c.user == "" {
				x.Violatef("http-write-without-credentials", fmt.Sprintf("cred=%s path=%q", c.name, p), sub, "PointsWriter reached with invalid credentials %q (db %q)", c.name, wdb)
				continue
			}
			// the route that ran is .../write (with or without base path)
			okAPI := refAuthorize(refTables[c.user], admins[c.user], "/api/write", auth.WritePrivilege)
			okDB := refAuthorize(refTables[c.user], admins[c.user], auth.DatabaseResource(wdb), auth.WritePrivilege)
			if !okAPI || !okDB || m != "POST" {
				x.Violatef("http-write-without-grant", fmt.Sprintf("user=%s method=%s path=%q db=%q api=%v dbgrant=%v table=%v", c.user, m, p, wdb, okAPI, okDB, refTables[c.user]), sub,
					"PointsWriter reached for user %s db %q: reference says api-write=%v database-write=%v; grants=%v", c.user, wdb, okAPI, okDB, refTables[c.user])
			}
		}
		if len(ranNow) == 0 && len(wrote) == 0 {
			x.Count("requests_not_served", 1)
		}
		if i == 0 {
			keys := make([]string, 0)
			for k, v := range refTables["alice"] {
				keys = append(keys, fmt.Sprintf("%s=%d", k, v))
			}
			sort.Strings(keys)
			x.Sample(map[string]interface{}{"request": sub, "status": rec.Code, "sentinels_run": ranNow, "alice_grants_bitmask": keys})
		}
	}
}

// Package c17: scheduled task runs happen in order, exactly once, only while scheduled.
package c17

import (
	"context"
	"errors"
	"fmt"
	"sort"
	"strings"
	"sync"
	"sync/atomic"
	"time"

	"github.com/benbjohnson/clock"
	"github.com/influxdata/influxdb/v2/kit/platform"
	"github.com/influxdata/kapacitor/task/backend/coordinator"
	"github.com/influxdata/kapacitor/task/backend/scheduler"
	"github.com/influxdata/kapacitor/task/taskmodel"

	"verifharness/core"
)

type prop struct{}

func init() { core.Register(prop{}) }

func (prop) ID() string    { return "C17" }
func (prop) Level() string { return "exploration" }
func (prop) Rule() string {
	return "one run = a real TreeScheduler (real clock, ~4 s) with 1-4 workers and 1-8 tasks (cron specs '@every 1s', '@every 2s', '*/5 * * * * *'; in some runs also '* * * * * * 2020' and '*/2 * * * * * 2020' on a real clock shifted to the last seconds of 2020, so that schedules run out during the run; offsets -3s..+2s, LastScheduled now / slightly off / up to 40 s in the past so that many occurrences are due at once; half of the tasks built through coordinator.NewSchedulableTask), a recording executor whose latency/failure/panic is controlled by gates, a recording checkpointer, two API actors issuing Schedule / re-Schedule (changed cron, offset, LastScheduled) / Release concurrently. " +
		"Oracle per task and epoch (between two Schedule/Release calls): scheduledFor values are consecutive occurrences after LastScheduled (next == schedule.Next(prev)), strictly increasing; entry time on the scheduler's clock >= scheduledFor+offset; runAt == scheduledFor+offset; executions of one id never overlap; nothing whose due time is later than the time at which Release returned starts after Release returned; checkpoints follow the executions; every API call returns; after the actors stop and the gates open every occurrence due by the final time has run. " +
		"Non-trivial: a run (by content hash) with >= 10 executions, >= 1 re-Schedule or Release of a task that had already run, and >= 1 catch-up over >= 3 occurrences"
}
func (prop) Assumptions() []string {
	return []string{
		"the cron library's Next() defines 'consecutive occurrences' (the reference iterates the task's own Schedule)",
		"API calls for one task id are issued by one actor at a time (epochs are well defined); at most one execution that was already handed to a worker may complete the old epoch after a re-Schedule returned, and none if an execution of that id was in progress at that moment (one id = one worker; a busy worker takes nothing)",
		"liveness is judged as bounded progress: after the actors stop all gates are opened and the monitor waits until no execution has completed for 600 ms (at most 40 s); a watchdog expiry of the whole case is inconclusive",
		"the mock clock (WithTime) is not used for the verdict: the scheduler re-arms its timer with a negative duration when the head of the queue is not yet due, which makes benbjohnson/clock's mock time run backwards inside Add(), and the mock's blocking tick deadlocks against the spinning loop; clock jumps are replaced by LastScheduled values in the past",
	}
}
func (prop) MinNontrivial(tier string) int {
	if tier == "thorough" {
		return 1500
	}
	return 40
}
func (prop) RaceAnchorFiles() []string {
	return []string{"task/backend/scheduler/treescheduler.go", "task/backend/scheduler/scheduler.go", "task/backend/scheduler/scheduler_metrics.go"}
}
func (prop) CaseTimeoutSec(string) int { return 45 }
func (prop) Workers(string) int        { return 16 }

func (prop) Cases(tier string, seed uint64) []core.Case {
	var cs []core.Case
	// Only the real clock is used for the verdict (see DESIGN C17): on the mock clock the
	// scheduler's timer.Reset(ts.Sub(it.When())) - a negative duration whenever the head of the
	// queue is not due yet - makes the mock's time run backwards inside Add(), and the mock's
	// blocking tick deadlocks against a spinning scheduler loop. Jumps over many occurrences are
	// produced by LastScheduled values far in the past (the same catch-up path).
	nreal, nrace, nmock := 96, 16, 0
	if tier == "thorough" {
		nreal, nrace = 2400, 480
	}
	for i := 0; i < nmock; i += 8 {
		cs = append(cs, core.Case{ID: fmt.Sprintf("mock-%d", i), Kind: "sched", Seed: seed*811 + uint64(i), N: 8})
	}
	for i := 0; i < nreal; i += 2 {
		cs = append(cs, core.Case{ID: fmt.Sprintf("real-%d", i), Kind: "sched", Seed: seed*821 + uint64(i), N: 2, Params: map[string]interface{}{"real": true}})
	}
	nend := 8
	if tier == "thorough" {
		nend = 200
	}
	for i := 0; i < nend; i += 2 {
		cs = append(cs, core.Case{ID: fmt.Sprintf("endyear-%d", i), Kind: "sched", Seed: seed*829 + uint64(i), N: 2, Params: map[string]interface{}{"real": true, "endyear": true}})
	}
	for i := 0; i < nrace; i += 2 {
		cs = append(cs, core.Case{ID: fmt.Sprintf("race-%d", i), Kind: "sched", Seed: seed*823 + uint64(i), N: 2, Race: true, Params: map[string]interface{}{"real": true}})
	}
	return cs
}

// ---- recording executor / checkpointer ---------------------------------------------------------

type execRec struct {
	id           scheduler.ID
	scheduledFor time.Time
	runAt        time.Time
	nowEntry     time.Time
	seqEntry     int64
	seqExit      int64
}

type ckRec struct {
	id  scheduler.ID
	t   time.Time
	seq int64
}

type world struct {
	mu      sync.Mutex
	cond    *sync.Cond
	seq     int64
	clk     clock.Clock
	execs   []*execRec
	cks     []ckRec
	running map[scheduler.ID]int
	overlap []string
	gate    map[scheduler.ID]bool // true = closed
	fail    map[scheduler.ID]int  // 0 ok, 1 error, 2 panic
	allOpen bool
	// the same occurrence of one id handed to the executor again and again (detected online:
	// such a scheduler never becomes quiet and its executions would fill the memory)
	lastFor  map[scheduler.ID]time.Time
	sameRun  map[scheduler.ID]int
	repeated string
}

func (w *world) next() int64 { return atomic.AddInt64(&w.seq, 1) }

func (w *world) Execute(ctx context.Context, id scheduler.ID, scheduledFor, runAt time.Time) error {
	w.mu.Lock()
	if w.repeated != "" {
		w.mu.Unlock()
		return nil
	}
	if w.lastFor == nil {
		w.lastFor, w.sameRun = map[scheduler.ID]time.Time{}, map[scheduler.ID]int{}
	}
	if w.lastFor[id].Equal(scheduledFor) {
		w.sameRun[id]++
		if w.sameRun[id] >= 200 {
			w.repeated = fmt.Sprintf("id %d: occurrence %s was handed to the executor %d times in a row", id, scheduledFor.UTC().Format("2006-01-02 15:04:05"), w.sameRun[id]+1)
			w.cond.Broadcast()
			w.mu.Unlock()
			return nil
		}
	} else {
		w.lastFor[id], w.sameRun[id] = scheduledFor, 0
	}
	r := &execRec{id: id, scheduledFor: scheduledFor.UTC(), runAt: runAt.UTC(), nowEntry: w.clk.Now().UTC(), seqEntry: w.next()}
	w.execs = append(w.execs, r)
	w.running[id]++
	if w.running[id] > 1 {
		w.overlap = append(w.overlap, fmt.Sprintf("id %d: %d executions at once (entering %v)", id, w.running[id], scheduledFor.UTC()))
	}
	for w.gate[id] && !w.allOpen {
		w.cond.Wait()
	}
	mode := w.fail[id]
	w.running[id]--
	r.seqExit = w.next()
	w.mu.Unlock()
	switch mode {
	case 1:
		return errors.New("executor failure (injected)")
	case 2:
		panic("executor panic (injected)")
	}
	return nil
}

func (w *world) UpdateLastScheduled(ctx context.Context, id scheduler.ID, t time.Time) error {
	w.mu.Lock()
	w.cks = append(w.cks, ckRec{id, t.UTC(), w.next()})
	w.mu.Unlock()
	return nil
}

// ---- schedulables ------------------------------------------------------------------------------

type sched struct {
	id     scheduler.ID
	s      scheduler.Schedule
	offset time.Duration
	last   time.Time
	desc   string
}

func (s sched) ID() scheduler.ID             { return s.id }
func (s sched) Schedule() scheduler.Schedule { return s.s }
func (s sched) Offset() time.Duration        { return s.offset }
func (s sched) LastScheduled() time.Time     { return s.last }

// (the last two end with the year 2020: used with a clock that is shifted to the last seconds of 2020)
var crons = []string{"@every 1s", "@every 7s", "@every 1m", "*/5 * * * * *", "0 * * * * *", "@every 2s", "*/30 * * * * *", "@every 10s", "* * * * * * 2020", "*/2 * * * * * 2020"}

// approximate period of each cron (to bound the number of occurrences a clock jump creates)
var cronPeriod = []time.Duration{time.Second, 7 * time.Second, time.Minute, 5 * time.Second, time.Minute, 2 * time.Second, 30 * time.Second, 10 * time.Second, time.Second, 2 * time.Second}

// shiftClock is the real clock seen through a constant offset (timers run in real time).
type shiftClock struct {
	clock.Clock
	off time.Duration
}

func (c shiftClock) Now() time.Time                  { return c.Clock.Now().Add(c.off) }
func (c shiftClock) Since(t time.Time) time.Duration { return c.Now().Sub(t) }

type epoch struct {
	id        scheduler.ID
	sch       scheduler.Schedulable
	desc      string
	period    time.Duration
	issueSeq  int64 // seq just before the Schedule call was issued
	startSeq  int64 // seq when the Schedule call returned
	endSeq    int64 // seq when the next Schedule/Release call was ISSUED (0 = still open)
	endRetSeq int64 // seq when that call returned
	released  bool
	relTime   time.Time // mock time at which Release returned
}

var base = time.Date(2020, 1, 1, 0, 0, 0, 0, time.UTC)

func (prop) Run(x *core.Ctx) {
	for i := 0; i < x.Case.N; i++ {
		runOne(x, x.Case.Seed+uint64(i), x.Case.PBool("real"))
		if x.NumViolations() > 20 {
			return
		}
	}
}

// runOne: realClock=false -> mock clock driven by ONE sequential actor (the mock deadlocks when
// Add() fires a re-armed timer whose previous tick is still unread while the scheduler calls
// Now(): a property of the test clock, not of the scheduler; concurrent actors are therefore
// run on the real clock, where catch-up after a LastScheduled in the past plays the role of
// the clock jump).
func runOne(x *core.Ctx, seed uint64, realClock bool) {
	r := core.NewRng(seed, 17)
	name := fmt.Sprintf("scheduler run seed=%d realclock=%v", seed, realClock)
	if !x.Announce(name) {
		return
	}
	x.Count("evaluations", 1)
	mock := clock.NewMock()
	mock.Set(base.Add(time.Duration(r.Intn(3600)) * time.Second))
	var clk clock.Clock = mock
	if realClock {
		clk = clock.New()
	}
	endYear := x.Case.PBool("endyear")
	if endYear {
		// the run starts 2-4 s before the schedules that are bounded by the year 2020 run out
		target := time.Date(2020, 12, 31, 23, 59, 56, 0, time.UTC).Add(time.Duration(r.Intn(2000)) * time.Millisecond)
		clk = shiftClock{Clock: clock.New(), off: target.Sub(time.Now())}
		x.Count("runs_over_the_end_of_a_bounded_schedule", 1)
	}
	advance := func(d time.Duration) {
		if realClock {
			if d > 0 {
				if d > 400*time.Millisecond {
					d = 400 * time.Millisecond
				}
				time.Sleep(d)
			}
			return
		}
		mock.Add(d)
	}
	_ = advance
	w := &world{clk: clk, running: map[scheduler.ID]int{}, gate: map[scheduler.ID]bool{}, fail: map[scheduler.ID]int{}}
	w.cond = sync.NewCond(&w.mu)
	workers := r.Range(1, 4)
	s, _, err := scheduler.NewScheduler(w, w, scheduler.WithTime(clk), scheduler.WithMaxConcurrentWorkers(workers))
	if err != nil {
		x.Inconclusive("NewScheduler: " + err.Error())
		return
	}
	stopped := false
	defer func() {
		if !stopped {
			w.mu.Lock()
			w.allOpen = true
			w.cond.Broadcast()
			w.mu.Unlock()
			done := make(chan struct{})
			go func() { s.Stop(); close(done) }()
			select {
			case <-done:
			case <-time.After(20 * time.Second):
			}
		}
	}()

	var maxJumpOcc int64
	ntasks := r.Range(1, 8)
	var emu sync.Mutex
	epochs := map[scheduler.ID][]*epoch{}
	var trace []string
	logf := func(format string, a ...interface{}) {
		emu.Lock()
		if len(trace) < 400 {
			trace = append(trace, fmt.Sprintf(format, a...))
		}
		emu.Unlock()
	}
	var blocked int32
	// call runs an API call with a watchdog
	call := func(what string, f func() error) bool {
		done := make(chan error, 1)
		go func() { done <- f() }()
		select {
		case <-done:
			return true
		case <-time.After(30 * time.Second):
			atomic.StoreInt32(&blocked, 1)
			x.Violatef("scheduler-api-call-blocked", "an API call did not return within 30s: "+strings.Fields(what)[0], name, "%s did not return within 30 s of real time\ntrace: %s", what, strings.Join(trace, " ; "))
			return false
		}
	}
	var resumeErrs []string // guarded by emu where mkSched runs concurrently
	mkSched := func(rr *core.Rng, id scheduler.ID) (scheduler.Schedulable, string, time.Duration, error) {
		ci := rr.Intn(len(crons))
		off := time.Duration(rr.Range(-3, 10)) * time.Second
		if realClock {
			ci = []int{0, 5, 3, 0}[rr.Intn(4)] // @every 1s, @every 2s, */5s
			off = time.Duration(rr.Range(-3, 2)) * time.Second
		}
		if endYear && rr.Chance(0.6) {
			ci = 8 + rr.Intn(2)
			off = time.Duration(rr.Range(-2, 1)) * time.Second
		}
		now := clk.Now().UTC()
		last := []time.Time{now, now.Add(-3 * time.Second), now.Add(-time.Duration(rr.Intn(120)) * time.Second), now.Add(time.Duration(rr.Intn(5)) * time.Second)}[rr.Intn(4)]
		if realClock && rr.Chance(0.3) {
			last = now.Add(-time.Duration(rr.Range(5, 40)) * time.Second) // catch-up over many occurrences
			if occ := int64(now.Sub(last) / cronPeriod[ci]); occ > atomic.LoadInt64(&maxJumpOcc) {
				atomic.StoreInt64(&maxJumpOcc, occ)
			}
		}
		desc := fmt.Sprintf("id=%d cron=%q offset=%v last=%s", id, crons[ci], off, last.Format("15:04:05"))
		if rr.Bool() {
			// the resume point of a stored task is the later of its last-scheduled and
			// last-completed checkpoints (occurrences handed out but not yet completed are not
			// handed out again)
			t := &taskmodel.Task{ID: platform.ID(id), Offset: off, CreatedAt: last.Add(-time.Hour), LatestCompleted: last}
			switch rr.Intn(4) {
			case 0:
				t.CreatedAt = last
			case 1:
				t.LatestScheduled = last
				t.LatestCompleted = last.Add(-time.Duration(rr.Range(1, 8)) * cronPeriod[ci])
			case 2:
				t.LatestScheduled = last.Add(-time.Duration(rr.Range(1, 8)) * cronPeriod[ci])
			}
			desc += fmt.Sprintf(" latestScheduled=%s latestCompleted=%s", t.LatestScheduled.Format("15:04:05"), t.LatestCompleted.Format("15:04:05"))
			if strings.HasPrefix(crons[ci], "@every ") {
				t.Every = strings.TrimPrefix(crons[ci], "@every ")
			} else {
				t.Cron = crons[ci]
			}
			st, err := coordinator.NewSchedulableTask(t)
			if err == nil {
				// the schedulable must resume after the later checkpoint (as scheduler.NewSchedule
				// normalises it), independently of what the scheduler later does with it
				if _, want, e2 := scheduler.NewSchedule(crons[ci], last); e2 == nil && !st.LastScheduled().Equal(want) {
					emu.Lock()
					resumeErrs = append(resumeErrs, fmt.Sprintf("task %s: NewSchedulableTask resumes after %s, the later of its checkpoints gives %s", desc, st.LastScheduled().Format("15:04:05.000"), want.Format("15:04:05.000")))
					emu.Unlock()
				}
			}
			return st, desc + " (coordinator)", cronPeriod[ci], err
		}
		sc, l2, err := scheduler.NewSchedule(crons[ci], last)
		return sched{id: id, s: sc, offset: off, last: l2}, desc, cronPeriod[ci], err
	}

	// actors
	var wg sync.WaitGroup
	nActions := r.Range(60, 150)
	var reschedAfterRun int32
	var actorStep func(ai int, ids []scheduler.ID, rr *core.Rng)
	actor := func(ai int, ids []scheduler.ID) {
		defer wg.Done()
		rr := core.NewRng(seed, 171, uint64(ai))
		// real clock: ~4 s of wall time
		for n := 0; n < 40 && atomic.LoadInt32(&blocked) == 0; n++ {
			actorStep(ai, ids, rr)
			time.Sleep(time.Duration(rr.Range(20, 180)) * time.Millisecond)
		}
	}
	actorStep = func(ai int, ids []scheduler.ID, rr *core.Rng) {
		{
			id := ids[rr.Intn(len(ids))]
			emu.Lock()
			eps := epochs[id]
			var cur *epoch
			if len(eps) > 0 && eps[len(eps)-1].endSeq == 0 {
				cur = eps[len(eps)-1]
			}
			emu.Unlock()
			switch k := rr.Intn(10); {
			case k < 5 || cur == nil: // (re-)schedule
				sc, desc, period, err := mkSched(rr, id)
				if err != nil {
					return
				}
				issue := w.next()
				if cur != nil {
					emu.Lock()
					cur.endSeq = issue
					emu.Unlock()
					w.mu.Lock()
					for _, e := range w.execs {
						if e.id == id {
							atomic.StoreInt32(&reschedAfterRun, 1)
							break
						}
					}
					w.mu.Unlock()
				}
				logf("a%d schedule %s", ai, desc)
				var schedErr error
				if !call("Schedule "+desc, func() error { schedErr = s.Schedule(sc); return schedErr }) {
					return
				}
				if schedErr != nil {
					// refused (the schedule has no occurrence left): the call has no effect, what
					// was scheduled before stays in force
					logf("a%d schedule id=%d refused: %v", ai, id, schedErr)
					x.Count("schedule_calls_refused", 1)
					if cur != nil {
						emu.Lock()
						cur.endSeq = 0
						emu.Unlock()
					}
					return
				}
				ret := w.next()
				emu.Lock()
				if cur != nil {
					cur.endRetSeq = ret
				}
				epochs[id] = append(epochs[id], &epoch{id: id, sch: sc, desc: desc, period: period, issueSeq: issue, startSeq: ret})
				emu.Unlock()
			case k < 7: // release
				issue := w.next()
				emu.Lock()
				cur.endSeq = issue
				emu.Unlock()
				logf("a%d release id=%d", ai, id)
				if !call(fmt.Sprintf("Release id=%d", id), func() error { return s.Release(id) }) {
					return
				}
				emu.Lock()
				cur.endRetSeq = w.next()
				cur.released = true
				cur.relTime = clk.Now().UTC()
				emu.Unlock()
				atomic.StoreInt32(&reschedAfterRun, 1)
			case k < 8: // gate / failure mode
				w.mu.Lock()
				// blocking gates only on the real clock: with a blocked worker the scheduler loop
				// spins without reading its timer channel, and the mock clock then deadlocks in Add()
				w.gate[id] = realClock && !w.gate[id]
				w.fail[id] = []int{0, 0, 1, 2}[rr.Intn(4)]
				w.cond.Broadcast()
				w.mu.Unlock()
				logf("a%d gate id=%d closed=%v", ai, id, w.gate[id])
			default:
				time.Sleep(time.Duration(rr.Intn(300)) * time.Microsecond)
			}
		}
	}
	var idsA, idsB []scheduler.ID
	for i := 1; i <= ntasks; i++ {
		if i%2 == 1 {
			idsA = append(idsA, scheduler.ID(i))
		} else {
			idsB = append(idsB, scheduler.ID(i))
		}
	}
	if len(idsB) == 0 {
		idsB = []scheduler.ID{scheduler.ID(100)}
	}
	clockStep := func(rr *core.Rng) {
		// bound the number of occurrences a jump creates
		emu.Lock()
		minPeriod := time.Hour
		open := 0
		for _, eps := range epochs {
			if len(eps) > 0 && eps[len(eps)-1].endSeq == 0 {
				open++
				if p := eps[len(eps)-1].period; p < minPeriod {
					minPeriod = p
				}
			}
		}
		emu.Unlock()
		d := []time.Duration{time.Second, time.Second, 2 * time.Second, 5 * time.Second, 30 * time.Second, time.Minute, 10 * time.Minute, time.Hour}[rr.Intn(8)]
		for open > 0 && int64(d/minPeriod)*int64(open) > 150 {
			d /= 2
		}
		if d < time.Second {
			d = time.Second
		}
		if occ := int64(d / minPeriod); open > 0 && occ > atomic.LoadInt64(&maxJumpOcc) {
			atomic.StoreInt64(&maxJumpOcc, occ)
		}
		logf("clock +%v", d)
		mock.Add(d)
	}
	settle := func() {
		// sequential mock mode: let the scheduler loop consume the tick before the next step
		last, since := -1, time.Now()
		for time.Since(since) < 2*time.Millisecond {
			time.Sleep(200 * time.Microsecond)
			w.mu.Lock()
			n := len(w.execs)*1000 + len(w.cks)
			w.mu.Unlock()
			if n != last {
				last, since = n, time.Now()
			}
		}
	}
	if realClock {
		wg.Add(2)
		go actor(0, idsA)
		go actor(1, idsB)
	} else {
		wg.Add(1)
		go func() {
			defer wg.Done()
			all := append(append([]scheduler.ID{}, idsA...), idsB...)
			rr := core.NewRng(seed, 172)
			for n := 0; n < nActions && atomic.LoadInt32(&blocked) == 0; n++ {
				if rr.Chance(0.35) {
					clockStep(rr)
				} else {
					actorStep(2, all, rr)
				}
				settle()
			}
		}()
	}
	wg.Wait()
	if atomic.LoadInt32(&blocked) != 0 {
		return
	}
	// ---- quiescence: open everything, nudge the clock, wait for the due occurrences
	w.mu.Lock()
	w.allOpen = true
	for id := range w.fail {
		w.fail[id] = 0
	}
	w.cond.Broadcast()
	w.mu.Unlock()
	for i := 0; i < 8 && !realClock; i++ {
		mock.Add(time.Second)
		time.Sleep(3 * time.Millisecond)
	}
	tEnd := clk.Now().UTC()
	// wait until no new execution has completed for 600 ms (bounded by 40 s)
	nDone := func() int {
		w.mu.Lock()
		defer w.mu.Unlock()
		n := 0
		for _, e := range w.execs {
			if e.seqExit != 0 {
				n++
			}
		}
		return n*1000 + len(w.execs)
	}
	repeatedNow := func() string {
		w.mu.Lock()
		defer w.mu.Unlock()
		return w.repeated
	}
	{
		last, since := nDone(), time.Now()
		deadline := time.Now().Add(40 * time.Second)
		for time.Since(since) < 600*time.Millisecond && time.Now().Before(deadline) && repeatedNow() == "" {
			time.Sleep(5 * time.Millisecond)
			if !realClock {
				mock.Add(0)
			}
			if n := nDone(); n != last {
				last, since = n, time.Now()
			}
		}
	}
	if rep := repeatedNow(); rep != "" {
		x.Violatef("scheduler-duplicate-execution", "one occurrence is executed over and over", name, "%s\ntrace: %s", rep, strings.Join(trace, " ; "))
		// such a scheduler may not stop either: give it 5 s, then leave it behind
		sd := make(chan struct{})
		go func() { s.Stop(); close(sd) }()
		select {
		case <-sd:
		case <-time.After(5 * time.Second):
		}
		stopped = true
		return
	}
	done := make(chan struct{})
	go func() { s.Stop(); close(done) }()
	select {
	case <-done:
		stopped = true
	case <-time.After(30 * time.Second):
		x.Violatef("scheduler-api-call-blocked", "Stop did not return within 30s", name, "trace: %s", strings.Join(trace, " ; "))
		return
	}

	// ---- judge
	w.mu.Lock()
	execs := append([]*execRec{}, w.execs...)
	cks := append([]ckRec{}, w.cks...)
	overlap := append([]string{}, w.overlap...)
	w.mu.Unlock()
	fail := func(kind, key, format string, a ...interface{}) {
		x.Violatef(kind, key, name, format+"\ntrace: %s", append(a, strings.Join(trace, " ; "))...)
	}
	emu.Lock()
	for _, e := range resumeErrs {
		fail("scheduler-resume-point", "a stored task does not resume after the later of its last-scheduled / last-completed checkpoints", "%s", e)
	}
	emu.Unlock()
	for _, o := range overlap {
		fail("scheduler-concurrent-execution", "two executions of one task at once", "%s", o)
	}
	x.Count("executions_checked", int64(len(execs)))
	byID := map[scheduler.ID][]*execRec{}
	for _, e := range execs {
		byID[e.id] = append(byID[e.id], e)
	}
	for id := range byID {
		if len(epochs[id]) == 0 {
			fail("scheduler-wrong-occurrence", "execution of a task that was never scheduled", "id %d", id)
			return
		}
	}
	for id, eps := range epochs {
		list := byID[id]
		sort.Slice(list, func(i, j int) bool { return list[i].seqEntry < list[j].seqEntry })
		// all executions of one id go through one worker in dispatch order: the executions follow
		// the epochs in order; an execution belongs to the current epoch if it is that epoch's
		// next consecutive occurrence, otherwise a later epoch (whose Schedule call had been
		// issued before the execution started) must explain it.
		ei := 0
		prev := eps[0].sch.LastScheduled()
		ran := make([]int, len(eps))
		stragglerUsed := make([]bool, len(eps))
		for n, e := range list {
			for {
				ep := eps[ei]
				want, err := ep.sch.Schedule().Next(prev)
				matches := err == nil && e.scheduledFor.Equal(want.UTC()) && e.runAt.Equal(want.UTC().Add(ep.sch.Offset()))
				if matches && ep.endRetSeq != 0 && e.seqEntry > ep.endRetSeq {
					// the epoch had ended before this execution started: it can only be the ONE
					// item that was already in a worker's hands; a later epoch that explains the
					// execution equally well is preferred (identical occurrence values are not
					// distinguishable from outside)
					// ... and only an idle worker takes an item: all occurrences of one id go to
					// the same worker, so while an execution of this id was in progress when the
					// epoch ended nothing of the old epoch can have been handed over
					busyAtEnd := false
					for _, e2 := range list {
						if e2 != e && e2.seqEntry < ep.endRetSeq && e2.seqExit > ep.endRetSeq {
							busyAtEnd = true
						}
					}
					if stragglerUsed[ei] || busyAtEnd {
						matches = false
					} else {
						for k := ei + 1; k < len(eps) && e.seqExit > eps[k].issueSeq; k++ {
							if nx, err := eps[k].sch.Schedule().Next(eps[k].sch.LastScheduled()); err == nil && e.scheduledFor.Equal(nx.UTC()) && e.runAt.Equal(nx.UTC().Add(eps[k].sch.Offset())) {
								matches = false
							}
						}
						if matches {
							stragglerUsed[ei] = true
							x.Count("stragglers_after_epoch_end", 1)
						}
					}
				}
				if matches {
					due := e.scheduledFor.Add(ep.sch.Offset())
					if e.nowEntry.Before(due) {
						fail("scheduler-ran-early", "execution before occurrence+offset on the scheduler clock", "task %s: occurrence %s (+offset = %s) entered at mock time %s", ep.desc, e.scheduledFor.Format("15:04:05"), due.Format("15:04:05"), e.nowEntry.Format("15:04:05"))
						return
					}
					if !e.runAt.Equal(due) {
						fail("scheduler-wrong-runat", "runAt differs from occurrence+offset", "task %s: scheduledFor %s runAt %s", ep.desc, e.scheduledFor, e.runAt)
						return
					}
					if ep.released && e.seqEntry > ep.endRetSeq && due.After(ep.relTime) {
						fail("scheduler-ran-after-release", "occurrence due after Release returned was executed", "task %s: Release returned at mock time %s (seq %d); occurrence %s due %s entered at seq %d", ep.desc, ep.relTime.Format("15:04:05"), ep.endRetSeq, e.scheduledFor.Format("15:04:05"), due.Format("15:04:05"), e.seqEntry)
						return
					}
					if e.seqEntry < ep.issueSeq {
						fail("scheduler-wrong-occurrence", "execution before its Schedule call was issued", "task %s: execution entered at seq %d, Schedule issued at seq %d", ep.desc, e.seqEntry, ep.issueSeq)
						return
					}
					prev = want.UTC()
					ran[ei]++
					break
				}
				if ei+1 < len(eps) && e.seqExit > eps[ei+1].issueSeq {
					ei++
					prev = eps[ei].sch.LastScheduled()
					continue
				}
				w2 := "?"
				if err == nil {
					w2 = want.UTC().Format("15:04:05")
				}
				kind, key := "scheduler-wrong-occurrence", "execution is not the next consecutive occurrence"
				if ep.released {
					kind, key = "scheduler-ran-after-release", "execution that belongs to no epoch after Release"
				}
				fail(kind, key, "task %s: execution #%d of id %d has scheduledFor=%s; the next consecutive occurrence after %s is %s (entry seq %d, epoch issued %d returned %d ended %d)",
					ep.desc, n, id, e.scheduledFor.Format("15:04:05"), prev.UTC().Format("15:04:05"), w2, e.seqEntry, ep.issueSeq, ep.startSeq, ep.endSeq)
				return
			}
		}
		// bounded progress for the open epoch
		last := eps[len(eps)-1]
		if last.endSeq == 0 {
			nwant := 0
			t := last.sch.LastScheduled()
			var firstMissing time.Time
			for nwant < 100000 {
				nx, err := last.sch.Schedule().Next(t)
				if err != nil || nx.Add(last.sch.Offset()).After(tEnd) {
					break
				}
				nwant++
				if nwant == ran[len(eps)-1]+1 {
					firstMissing = nx.UTC()
				}
				t = nx
			}
			got := 0
			if ei == len(eps)-1 {
				got = ran[ei]
			}
			if got < nwant {
				fail("scheduler-missed-occurrence", "occurrences due by the final mock time never ran", "task %s: %d of %d due occurrences ran (final mock time %s, quiescent for 600ms with all gates open); first missing %s", last.desc, got, nwant, tEnd.Format("15:04:05"), firstMissing.Format("15:04:05"))
			}
		}
	}
	// checkpoints: per id, every checkpoint equals the scheduledFor of an execution of that id, in execution order
	ckBy := map[scheduler.ID][]ckRec{}
	for _, c := range cks {
		ckBy[c.id] = append(ckBy[c.id], c)
	}
	for id, l := range ckBy {
		ex := byID[id]
		if len(l) > len(ex) {
			fail("scheduler-checkpoint", "more checkpoints than executions", "id %d: %d checkpoints, %d executions", id, len(l), len(ex))
			continue
		}
		for i, c := range l {
			if !c.t.Equal(ex[i].scheduledFor) {
				fail("scheduler-checkpoint", "checkpoint differs from the execution it follows", "id %d: checkpoint #%d = %s, execution #%d scheduledFor %s", id, i, c.t.Format("15:04:05"), i, ex[i].scheduledFor.Format("15:04:05"))
				break
			}
		}
	}
	x.Count("epochs", int64(len(epochs)))
	x.Count("checkpoints_checked", int64(len(cks)))
	x.MaxCount("max_occurrences_jumped_in_one_advance", atomic.LoadInt64(&maxJumpOcc))
	if len(execs) >= 10 && atomic.LoadInt32(&reschedAfterRun) == 1 && atomic.LoadInt64(&maxJumpOcc) >= 3 {
		x.Nontrivial(strings.Join(trace, ";"))
	}
	if seed%4 == 0 {
		tr := trace
		if len(tr) > 15 {
			tr = tr[:15]
		}
		x.Sample(map[string]interface{}{"workers": workers, "tasks": ntasks, "actions": len(trace), "executions": len(execs), "trace_prefix": tr})
	}
}

package c19

import (
	"bufio"
	"bytes"
	"fmt"
	"io"
	"sync"
	"time"

	"github.com/influxdata/kapacitor/udf/agent"

	"verifharness/core"
)

// Sub-monitor "agentbusy": the Go agent (udf/agent) answers data and keepalive requests that
// arrive back to back while its output is slow, so that a request is read while a response is
// still being written. Whatever the agent writes must be a sequence of well-framed responses:
// every echoed point in order, every keepalive answered in order.
type slowOut struct {
	mu  sync.Mutex
	buf bytes.Buffer
	r   *core.Rng
}

func (s *slowOut) Write(p []byte) (int, error) {
	// byte-wise hand-over with pauses, like a pipe whose reader is slow
	for i := 0; i < len(p); i++ {
		s.mu.Lock()
		s.buf.WriteByte(p[i])
		pause := s.r.Intn(4) == 0
		s.mu.Unlock()
		if pause {
			time.Sleep(20 * time.Microsecond)
		}
	}
	return len(p), nil
}

func runAgentBusy(x *core.Ctx, r *core.Rng, n int) {
	sub := fmt.Sprintf("agent under back-to-back data and keepalive requests, session %d of seed %d", n, x.Case.Seed)
	if !x.Announce(sub) {
		return
	}
	x.Count("evaluations", 1)
	inR, inW := io.Pipe()
	out := &slowOut{r: core.NewRng(r.Uint64(), 7)}
	a := agent.New(inR, out)
	h := &echoHandler{a: a}
	a.Handler = h
	if err := a.Start(); err != nil {
		x.Inconclusive("agent start: " + err.Error())
		return
	}
	np := r.Range(40, 160)
	var wantPoints []int64
	var wantKeep []int64
	go func() {
		for i := 0; i < np; i++ {
			agent.WriteMessage(&agent.Request{Message: &agent.Request_Point{Point: &agent.Point{Name: "m", Time: int64(i), FieldsDouble: map[string]float64{"v": float64(i)}, FieldsString: map[string]string{"s": hostileStr[i%len(hostileStr)]}}}}, inW)
			if i%2 == 0 || r.Chance(0.3) {
				agent.WriteMessage(&agent.Request{Message: &agent.Request_Keepalive{Keepalive: &agent.KeepaliveRequest{Time: int64(1000 + i)}}}, inW)
			}
		}
		inW.Close()
	}()
	// (the expectation is a function of the same random choices: recompute them)
	done := make(chan error, 1)
	go func() { done <- a.Wait() }()
	select {
	case <-done:
	case <-time.After(60 * time.Second):
		x.Inconclusive("agent did not finish in 60 s")
		return
	}
	out.mu.Lock()
	data := append([]byte{}, out.buf.Bytes()...)
	out.mu.Unlock()
	rd := bufio.NewReader(bytes.NewReader(data))
	var buf []byte
	var gotPoints, gotKeep []int64
	for k := 0; ; k++ {
		resp := &agent.Response{}
		err := agent.ReadMessage(&buf, rd, resp)
		if err == io.EOF {
			break
		}
		if err != nil {
			x.Violatef("udf-framing", "the agent's output is not a sequence of well-framed responses", sub, "response %d of the stream (%d bytes in total) cannot be read: %v", k, len(data), err)
			return
		}
		switch m := resp.Message.(type) {
		case *agent.Response_Point:
			gotPoints = append(gotPoints, m.Point.Time)
			if m.Point.Name != "m" || m.Point.FieldsDouble["v"] != float64(m.Point.Time) || m.Point.FieldsString["s"] != hostileStr[int(m.Point.Time)%len(hostileStr)] {
				x.Violatef("udf-data-changed", "an echoed point came back changed from the agent", sub, "response %d: %v", k, m.Point)
				return
			}
		case *agent.Response_Keepalive:
			gotKeep = append(gotKeep, m.Keepalive.Time)
		default:
			x.Violatef("udf-framing", "the agent wrote a response nobody asked for", sub, "response %d: %T", k, resp.Message)
			return
		}
		x.Count("items_compared", 1)
	}
	for i := 0; i < np; i++ {
		wantPoints = append(wantPoints, int64(i))
	}
	if fmt.Sprint(gotPoints) != fmt.Sprint(wantPoints) {
		x.Violatef("udf-data-changed", "the agent did not echo every point once and in order", sub, "sent %d points, got %v", np, gotPoints)
		return
	}
	for i := 1; i < len(gotKeep); i++ {
		if gotKeep[i] <= gotKeep[i-1] {
			x.Violatef("udf-framing", "keepalive responses out of order or duplicated", sub, "%v", gotKeep)
			return
		}
	}
	_ = wantKeep
	if len(gotKeep) < np/2 {
		x.Violatef("udf-framing", "keepalive requests were not all answered", sub, "%d points with >= %d keepalive requests, %d answers", np, np/2, len(gotKeep))
		return
	}
	x.Count("agent_busy_sessions", 1)
	x.Nontrivial(fmt.Sprintf("agentbusy|%d|%d", np, len(gotKeep)))
}

func (s *slowOut) Close() error { return nil }

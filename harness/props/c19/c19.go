// Package c19: data crosses the UDF boundary unchanged and the protocol is framed safely.
package c19

import (
	"bytes"
	"fmt"
	"io"
	"math"
	"reflect"
	"sort"
	"strings"
	"sync"
	"time"

	"github.com/influxdata/kapacitor"
	"github.com/influxdata/kapacitor/edge"
	"github.com/influxdata/kapacitor/keyvalue"
	"github.com/influxdata/kapacitor/models"
	"github.com/influxdata/kapacitor/pipeline"
	"github.com/influxdata/kapacitor/udf"
	"github.com/influxdata/kapacitor/udf/agent"
	"google.golang.org/protobuf/proto"

	"verifharness/core"
	"verifharness/kit"
)

type prop struct{}

func init() { core.Register(prop{}) }

func (prop) ID() string    { return "C19" }
func (prop) Level() string { return "exploration" }
func (prop) Rule() string {
	return "framing: random and boundary agent.Request/Response messages (0-length, 127/128, 16383/16384 byte bodies) written with WriteMessage, concatenated and read back with ReadMessage through a reader that delivers EVERY 2-way and 3-way split of short streams and seeded fragmentations (1-byte reads included) of long ones; " +
		"echo: udf.Server <-> in-process echo agent (udf/agent) over pipes with fragmenting reader and writer, point and batch sequences over all field types and group shapes (byName, 0-3 dimensions, tags a strict superset of the dimensions), empty batches, keepalives (400 ms timeout, sessions that span several keepalive periods) and Snapshot()/Restore() calls from a second goroutine; node: the same through a UDF node of a real task (TaskMaster.UDFService = harness, kapacitor.NewUDFSocket over in-memory pipes) with sinks before and after; also under the race detector; agentbusy: the Go agent alone, fed 40-160 points and keepalive requests back to back while its output is slow. " +
		"Oracle: output == input (name, db, rp, group id, dimensions, tags, typed fields, UTC-ns time, batch framing, tmax, order), read-back message proto.Equal the written one, snapshot bytes == what the agent supplied, restore delivers them. Non-trivial: a session (content hash) with >= 5 messages echoed and >= 1 keepalive or snapshot interleaved / a stream whose split positions fall inside a varint or a body"
}
func (prop) Assumptions() []string {
	return []string{
		"field values are string/float64/int64/bool (the four kinds the protocol defines); NaN payloads are compared bit-wise",
		"the echo agent is the repo's own Go agent library (udf/agent); other agent implementations (Python) are not exercised",
	}
}
func (prop) MinNontrivial(tier string) int {
	if tier == "thorough" {
		return 4000
	}
	return 150
}
func (prop) RaceAnchorFiles() []string {
	return []string{"udf/server.go", "udf/agent/agent.go", "udf/agent/io.go", "udf.go"}
}
func (prop) CaseTimeoutSec(string) int { return 120 }

func (prop) Cases(tier string, seed uint64) []core.Case {
	var cs []core.Case
	nf, ne, nn, nr := 16, 48, 24, 12
	if tier == "thorough" {
		nf, ne, nn, nr = 320, 1600, 600, 300
	}
	for i := 0; i < nf; i++ {
		cs = append(cs, core.Case{ID: fmt.Sprintf("framing-%d", i), Kind: "framing", Seed: seed*911 + uint64(i), N: 40})
	}
	for i := 0; i < ne; i += 3 {
		cs = append(cs, core.Case{ID: fmt.Sprintf("echo-%d", i), Kind: "echo", Seed: seed*919 + uint64(i), N: 3})
	}
	for i := 0; i < nn; i += 3 {
		cs = append(cs, core.Case{ID: fmt.Sprintf("node-%d", i), Kind: "node", Seed: seed*929 + uint64(i), N: 3})
	}
	nab := 6
	if tier == "thorough" {
		nab = 120
	}
	for i := 0; i < nab; i++ {
		cs = append(cs, core.Case{ID: fmt.Sprintf("agentbusy-%d", i), Kind: "agentbusy", Seed: seed*937 + uint64(i), N: 4, Race: i%3 == 2})
	}
	for i := 0; i < nr; i += 3 {
		k := "echo"
		if i%2 == 1 {
			k = "node"
		}
		cs = append(cs, core.Case{ID: fmt.Sprintf("race-%d", i), Kind: k, Seed: seed*937 + uint64(i), N: 3, Race: true})
	}
	return cs
}

func (prop) Run(x *core.Ctx) {
	r := core.NewRng(x.Case.Seed, 19)
	for i := 0; i < x.Case.N; i++ {
		switch x.Case.Kind {
		case "framing":
			runFraming(x, r, i)
		case "echo":
			runEcho(x, r, i)
		case "node":
			runNode(x, r, i)
		case "agentbusy":
			runAgentBusy(x, r, i)
		}
		if x.NumViolations() > 30 {
			return
		}
	}
}

// ---- fragmenting reader / writer ---------------------------------------------------------------

// FragReader delivers the underlying bytes in chunks that end at the given cut positions
// (absolute offsets) and implements io.ByteReader as well.
type FragReader struct {
	R    io.Reader
	Cuts func() int // returns the max size of the next chunk (>=1)
	mu   sync.Mutex
}

func (f *FragReader) Read(p []byte) (int, error) {
	n := f.Cuts()
	if n < 1 {
		n = 1
	}
	if n > len(p) {
		n = len(p)
	}
	if n == 0 {
		return 0, nil
	}
	return f.R.Read(p[:n])
}
func (f *FragReader) ReadByte() (byte, error) {
	var b [1]byte
	for {
		n, err := f.R.Read(b[:])
		if n == 1 {
			return b[0], nil
		}
		if err != nil {
			return 0, err
		}
	}
}

// FragWriter splits every Write into several smaller writes.
type FragWriter struct {
	W    io.WriteCloser
	Size func() int
}

func (f *FragWriter) Write(p []byte) (int, error) {
	total := 0
	for len(p) > 0 {
		n := f.Size()
		if n < 1 {
			n = 1
		}
		if n > len(p) {
			n = len(p)
		}
		m, err := f.W.Write(p[:n])
		total += m
		if err != nil {
			return total, err
		}
		p = p[n:]
	}
	return total, nil
}
func (f *FragWriter) Close() error { return f.W.Close() }

// ---- message generators --------------------------------------------------------------------------

var hostileStr = []string{"", "a", "é✓", "a b", "x,y=z", "line\nbreak", "\x00nul", strings.Repeat("s", 200)}

func genFields(r *core.Rng) models.Fields {
	f := models.Fields{}
	n := r.Range(0, 4)
	for i := 0; i < n; i++ {
		k := []string{"f", "i", "s", "b", "weird key", "é"}[r.Intn(6)] + fmt.Sprint(i)
		switch r.Intn(4) {
		case 0:
			f[k] = []float64{0, math.Copysign(0, -1), 1.5, -1e308, 5e-324, math.Inf(1), math.NaN(), 3}[r.Intn(8)]
		case 1:
			f[k] = []int64{0, -1, 1<<53 + 1, math.MaxInt64, math.MinInt64, 42}[r.Intn(6)]
		case 2:
			f[k] = hostileStr[r.Intn(len(hostileStr))]
		default:
			f[k] = r.Bool()
		}
	}
	return f
}

func genTagsDims(r *core.Rng) (models.Tags, models.Dimensions) {
	tags := models.Tags{}
	nt := r.Range(0, 4)
	names := []string{"host", "dc", "a b", "é", "k,=v"}
	for i := 0; i < nt; i++ {
		tags[names[i]] = hostileStr[1+r.Intn(len(hostileStr)-2)]
	}
	var dimNames []string
	for k := range tags {
		if r.Bool() {
			dimNames = append(dimNames, k)
		}
	}
	sort.Strings(dimNames)
	return tags, models.Dimensions{ByName: r.Chance(0.3), TagNames: dimNames}
}

var t0 = time.Unix(1500000000, 123456789).UTC()

// keepalive requests go out every timeout/2; a timeout under machine load is a wall-clock
// artefact and is classified inconclusive, never a violation
const keepaliveTimeout = 400 * time.Millisecond

func isKeepaliveTimeout(s string) bool { return strings.Contains(s, "keepalive timedout") }

func genPoint(r *core.Rng, i int) edge.PointMessage {
	tags, dims := genTagsDims(r)
	return edge.NewPointMessage([]string{"m", "cpu load", "é"}[r.Intn(3)], []string{"db", "my db"}[r.Intn(2)], []string{"rp", ""}[r.Intn(2)], dims, genFields(r), tags,
		t0.Add(time.Duration(i)*time.Second+time.Duration(r.Intn(1000))))
}

func genBatch(r *core.Rng, i int) edge.BufferedBatchMessage {
	tags, _ := genTagsDims(r)
	n := r.Range(0, 5)
	var pts []edge.BatchPointMessage
	tm := t0.Add(time.Duration(i) * time.Minute)
	for j := 0; j < n; j++ {
		pt := tags.Copy()
		if r.Chance(0.4) {
			pt["extra"] = "x"
		}
		pts = append(pts, edge.NewBatchPointMessage(genFields(r), pt, tm.Add(time.Duration(j)*time.Second)))
	}
	begin := edge.NewBeginBatchMessage([]string{"m", "cpu load"}[r.Intn(2)], tags, r.Chance(0.3), tm.Add(time.Duration(n)*time.Second), n)
	return edge.NewBufferedBatchMessage(begin, pts, edge.NewEndBatchMessage())
}

func fieldsEq(a, b models.Fields) string {
	if len(a) != len(b) {
		return fmt.Sprintf("field sets differ: sent %v got %v", keys(a), keys(b))
	}
	for k, v := range a {
		w, ok := b[k]
		if !ok {
			return fmt.Sprintf("field %q missing", k)
		}
		if reflect.TypeOf(v) != reflect.TypeOf(w) {
			return fmt.Sprintf("field %q: sent %T(%v) got %T(%v)", k, v, v, w, w)
		}
		if fv, ok := v.(float64); ok {
			if math.Float64bits(fv) != math.Float64bits(w.(float64)) {
				return fmt.Sprintf("field %q: sent float bits %x got %x", k, math.Float64bits(fv), math.Float64bits(w.(float64)))
			}
		} else if v != w {
			return fmt.Sprintf("field %q: sent %v got %v", k, v, w)
		}
	}
	return ""
}
func keys(f models.Fields) []string {
	var l []string
	for k := range f {
		l = append(l, k)
	}
	sort.Strings(l)
	return l
}
func tagsEq(a, b models.Tags) bool {
	if len(a) != len(b) {
		return false
	}
	for k, v := range a {
		if w, ok := b[k]; !ok || w != v {
			return false
		}
	}
	return true
}
func dimsEq(a, b models.Dimensions) bool {
	if a.ByName != b.ByName || len(a.TagNames) != len(b.TagNames) {
		return false
	}
	for i := range a.TagNames {
		if a.TagNames[i] != b.TagNames[i] {
			return false
		}
	}
	return true
}

func pointDiff(a, b edge.PointMessage) string {
	switch {
	case a.Name() != b.Name() || a.Database() != b.Database() || a.RetentionPolicy() != b.RetentionPolicy():
		return fmt.Sprintf("name/db/rp: sent %q/%q/%q got %q/%q/%q", a.Name(), a.Database(), a.RetentionPolicy(), b.Name(), b.Database(), b.RetentionPolicy())
	case a.GroupID() != b.GroupID():
		return fmt.Sprintf("group id: sent %q got %q", a.GroupID(), b.GroupID())
	case !dimsEq(a.Dimensions(), b.Dimensions()):
		return fmt.Sprintf("dimensions: sent %+v got %+v", a.Dimensions(), b.Dimensions())
	case !tagsEq(a.Tags(), b.Tags()):
		return fmt.Sprintf("tags: sent %v got %v", a.Tags(), b.Tags())
	case !a.Time().Equal(b.Time()) || b.Time().Location() != time.UTC:
		return fmt.Sprintf("time: sent %v got %v", a.Time(), b.Time())
	}
	return fieldsEq(a.Fields(), b.Fields())
}

func batchDiff(a, b edge.BufferedBatchMessage) string {
	ab, bb := a.Begin(), b.Begin()
	switch {
	case ab.Name() != bb.Name():
		return fmt.Sprintf("batch name: sent %q got %q", ab.Name(), bb.Name())
	case !tagsEq(ab.Tags(), bb.Tags()):
		return fmt.Sprintf("batch tags: sent %v got %v", ab.Tags(), bb.Tags())
	case ab.Dimensions().ByName != bb.Dimensions().ByName:
		return fmt.Sprintf("batch byName: sent %v got %v", ab.Dimensions().ByName, bb.Dimensions().ByName)
	case ab.GroupID() != bb.GroupID():
		return fmt.Sprintf("batch group id: sent %q got %q", ab.GroupID(), bb.GroupID())
	case !ab.Time().Equal(bb.Time()):
		return fmt.Sprintf("batch tmax: sent %v got %v", ab.Time(), bb.Time())
	case len(a.Points()) != len(b.Points()):
		return fmt.Sprintf("batch size: sent %d points got %d", len(a.Points()), len(b.Points()))
	}
	for i := range a.Points() {
		p, q := a.Points()[i], b.Points()[i]
		if !tagsEq(p.Tags(), q.Tags()) {
			return fmt.Sprintf("batch point %d tags: sent %v got %v", i, p.Tags(), q.Tags())
		}
		if !p.Time().Equal(q.Time()) {
			return fmt.Sprintf("batch point %d time: sent %v got %v", i, p.Time(), q.Time())
		}
		if d := fieldsEq(p.Fields(), q.Fields()); d != "" {
			return fmt.Sprintf("batch point %d: %s", i, d)
		}
	}
	return ""
}

// ---- (a) framing --------------------------------------------------------------------------------

func genProto(r *core.Rng) proto.Message {
	body := func(n int) string { return strings.Repeat("x", n) }
	sizes := []int{0, 1, 100, 119, 120, 121, 16370, 16376, 16380, 16384, 70000}
	switch r.Intn(8) {
	case 0:
		return &agent.Request{Message: &agent.Request_Keepalive{Keepalive: &agent.KeepaliveRequest{Time: int64(r.Uint64() >> 1)}}}
	case 1:
		return &agent.Request{}
	case 2:
		return &agent.Response{Message: &agent.Response_Error{Error: &agent.ErrorResponse{Error: body(sizes[r.Intn(len(sizes))])}}}
	case 3:
		return &agent.Request{Message: &agent.Request_Restore{Restore: &agent.RestoreRequest{Snapshot: []byte(body(sizes[r.Intn(len(sizes))]))}}}
	case 4:
		return &agent.Response{Message: &agent.Response_Snapshot{Snapshot: &agent.SnapshotResponse{Snapshot: []byte(body(r.Intn(300)))}}}
	case 5:
		return &agent.Request{Message: &agent.Request_Point{Point: &agent.Point{Time: int64(r.Uint64() >> 1), Name: body(r.Intn(130)), Tags: map[string]string{"a": body(r.Intn(5))},
			FieldsDouble: map[string]float64{"f": r.NormFloat()}, FieldsInt: map[string]int64{"i": int64(r.Uint64())}, FieldsBool: map[string]bool{"b": r.Bool()}, FieldsString: map[string]string{"s": hostileStr[r.Intn(len(hostileStr))]}}}}
	case 6:
		return &agent.Response{Message: &agent.Response_Begin{Begin: &agent.BeginBatch{Name: "m", Size: int64(r.Intn(1000)), ByName: r.Bool()}}}
	default:
		return &agent.Response{Message: &agent.Response_End{End: &agent.EndBatch{Name: body(r.Intn(10)), Tmax: int64(r.Uint64() >> 1)}}}
	}
}

func readAll(data []byte, cuts []int, msgs []proto.Message) (string, int) {
	// reader that stops at every cut position
	pos := 0
	ci := 0
	br := bytes.NewReader(data)
	fr := &FragReader{R: readerFunc(func(p []byte) (int, error) {
		n, err := br.Read(p)
		pos += n
		return n, err
	}), Cuts: func() int {
		for ci < len(cuts) && cuts[ci] <= pos {
			ci++
		}
		if ci < len(cuts) {
			return cuts[ci] - pos
		}
		return 1 << 20
	}}
	var buf []byte
	for i, want := range msgs {
		got := reflect.New(reflect.TypeOf(want).Elem()).Interface().(proto.Message)
		if err := agent.ReadMessage(&buf, fr, got); err != nil {
			return fmt.Sprintf("message %d: ReadMessage error %v", i, err), i
		}
		if !proto.Equal(want, got) {
			return fmt.Sprintf("message %d read back differs: wrote %v read %v", i, clipS(fmt.Sprint(want), 200), clipS(fmt.Sprint(got), 200)), i
		}
	}
	// the stream must be exhausted
	got := &agent.Request{}
	if err := agent.ReadMessage(&buf, fr, got); err == nil {
		return "an extra message was read after the last one", len(msgs)
	}
	return "", len(msgs)
}

type readerFunc func(p []byte) (int, error)

func (f readerFunc) Read(p []byte) (int, error) { return f(p) }

func clipS(s string, n int) string {
	if len(s) > n {
		return s[:n] + "…"
	}
	return s
}

func runFraming(x *core.Ctx, r *core.Rng, n int) {
	sub := fmt.Sprintf("framing stream %d of seed %d", n, x.Case.Seed)
	if !x.Announce(sub) {
		return
	}
	x.Count("evaluations", 1)
	short := n%2 == 0
	var msgs []proto.Message
	var buf bytes.Buffer
	nm := r.Range(1, 6)
	for i := 0; i < nm; i++ {
		m := genProto(r)
		if short {
			// keep the stream short enough for exhaustive splitting
			m = []proto.Message{&agent.Request{}, &agent.Request{Message: &agent.Request_Keepalive{Keepalive: &agent.KeepaliveRequest{Time: int64(r.Intn(300))}}},
				&agent.Response{Message: &agent.Response_Error{Error: &agent.ErrorResponse{Error: strings.Repeat("e", r.Intn(4))}}}}[r.Intn(3)]
		}
		if err := agent.WriteMessage(m, &buf); err != nil {
			x.Violatef("framing-write-error", "WriteMessage failed", sub, "%v", err)
			return
		}
		msgs = append(msgs, m)
		if short && buf.Len() > 20 {
			break
		}
	}
	data := buf.Bytes()
	L := len(data)
	check := func(cuts []int) bool {
		x.Count("fragmentations_tried", 1)
		if d, _ := readAll(data, cuts, msgs); d != "" {
			x.Violatef("framing-roundtrip", "message stream read back differently under fragmentation", sub, "stream of %d bytes, %d messages, cuts %v: %s\nbytes: %x", L, len(msgs), cuts, d, clipB(data))
			return false
		}
		return true
	}
	if !check(nil) {
		return
	}
	if short && L <= 26 {
		for a := 1; a < L; a++ {
			if !check([]int{a}) {
				return
			}
			for b := a + 1; b < L; b++ {
				if !check([]int{a, b}) {
					return
				}
			}
		}
		x.Count("streams_split_exhaustively", 1)
	}
	// seeded fragmentations incl. all-1-byte
	all1 := make([]int, 0, L)
	for i := 1; i < L && i < 5000; i++ {
		all1 = append(all1, i)
	}
	if !check(all1) {
		return
	}
	for k := 0; k < 6; k++ {
		var cuts []int
		p := 0
		for p < L {
			p += []int{1, 1, 2, 3, 7, 127, 128, 129, 4096, 16383, 16384}[r.Intn(11)]
			if p < L {
				cuts = append(cuts, p)
			}
		}
		if !check(cuts) {
			return
		}
	}
	x.Nontrivial(fmt.Sprintf("%x", data[:min(len(data), 64)]) + fmt.Sprint(L))
	if n == 0 {
		x.Sample(map[string]interface{}{"kind": "framing", "bytes": L, "messages": len(msgs), "first_bytes": fmt.Sprintf("%x", data[:min(L, 24)])})
	}
}

func clipB(b []byte) []byte {
	if len(b) > 80 {
		return b[:80]
	}
	return b
}
func min(a, b int) int {
	if a < b {
		return a
	}
	return b
}

// ---- echo agent -----------------------------------------------------------------------------------

type echoHandler struct {
	a        *agent.Agent
	batch    bool
	mu       sync.Mutex
	snap     []byte
	restored [][]byte
	nsnap    int
}

func (h *echoHandler) Info() (*agent.InfoResponse, error) {
	e := agent.EdgeType_STREAM
	if h.batch {
		e = agent.EdgeType_BATCH
	}
	return &agent.InfoResponse{Wants: e, Provides: e, Options: map[string]*agent.OptionInfo{}}, nil
}
func (h *echoHandler) Init(*agent.InitRequest) (*agent.InitResponse, error) {
	return &agent.InitResponse{Success: true}, nil
}
func (h *echoHandler) Snapshot() (*agent.SnapshotResponse, error) {
	h.mu.Lock()
	defer h.mu.Unlock()
	h.nsnap++
	h.snap = []byte(fmt.Sprintf("snapshot-%d-\x00\xff-%s", h.nsnap, strings.Repeat("z", h.nsnap*37%300)))
	return &agent.SnapshotResponse{Snapshot: h.snap}, nil
}
func (h *echoHandler) Restore(r *agent.RestoreRequest) (*agent.RestoreResponse, error) {
	h.mu.Lock()
	h.restored = append(h.restored, append([]byte{}, r.Snapshot...))
	h.mu.Unlock()
	return &agent.RestoreResponse{Success: true}, nil
}
func (h *echoHandler) BeginBatch(b *agent.BeginBatch) error {
	h.a.Responses <- &agent.Response{Message: &agent.Response_Begin{Begin: b}}
	return nil
}
func (h *echoHandler) Point(p *agent.Point) error {
	h.a.Responses <- &agent.Response{Message: &agent.Response_Point{Point: p}}
	return nil
}
func (h *echoHandler) EndBatch(e *agent.EndBatch) error {
	h.a.Responses <- &agent.Response{Message: &agent.Response_End{End: e}}
	return nil
}
func (h *echoHandler) Stop() { close(h.a.Responses) }

type udfDiag struct {
	mu   sync.Mutex
	errs []string
}

func (d *udfDiag) Error(msg string, err error, ctx ...keyvalue.T) {
	d.mu.Lock()
	d.errs = append(d.errs, msg+": "+fmt.Sprint(err))
	d.mu.Unlock()
}
func (d *udfDiag) UDFLog(msg string) {}

// Link is an in-memory UDF "process": pipes with fragmenting ends and the echo agent.
type Link struct {
	ServerIn  agent.ByteReadReader // what the server reads (agent -> server)
	ServerOut io.WriteCloser       // what the server writes (server -> agent)
	H         *echoHandler
	A         *agent.Agent
	done      chan error
}

// NewEchoLink wires an echo agent to a pair of pipes.
func NewEchoLink(r *core.Rng, batch bool) *Link {
	s2aR, s2aW := io.Pipe() // server -> agent
	a2sR, a2sW := io.Pipe() // agent -> server
	fr := core.NewRng(r.Uint64(), 1)
	fw := core.NewRng(r.Uint64(), 2)
	var fmu sync.Mutex
	size := func(rr *core.Rng) func() int {
		return func() int {
			fmu.Lock()
			defer fmu.Unlock()
			return []int{1, 1, 2, 3, 5, 16, 64, 1 << 16}[rr.Intn(8)]
		}
	}
	a := agent.New(s2aR, &FragWriter{W: a2sW, Size: size(fw)})
	h := &echoHandler{a: a, batch: batch}
	a.Handler = h
	l := &Link{ServerIn: &FragReader{R: a2sR, Cuts: size(fr)}, ServerOut: &FragWriter{W: s2aW, Size: size(core.NewRng(r.Uint64(), 3))}, H: h, A: a, done: make(chan error, 1)}
	a.Start()
	go func() { l.done <- a.Wait() }()
	return l
}

func runEcho(x *core.Ctx, r *core.Rng, n int) {
	batch := r.Chance(0.4)
	sub := fmt.Sprintf("echo session %d of seed %d batch=%v", n, x.Case.Seed, batch)
	if !x.Announce(sub) {
		return
	}
	x.Count("evaluations", 1)
	link := NewEchoLink(r, batch)
	d := &udfDiag{}
	aborted := make(chan struct{}, 1)
	srv := udf.NewServer("task", "node", link.ServerIn, link.ServerOut, d, keepaliveTimeout, func() {
		select {
		case aborted <- struct{}{}:
		default:
		}
	}, func() {})
	if err := srv.Start(); err != nil {
		x.Inconclusive("server start: " + err.Error())
		return
	}
	fail := func(kind, key, format string, a ...interface{}) {
		x.Violatef(kind, key, sub, format, a...)
	}
	info, err := srv.Info()
	if err != nil {
		fail("udf-session-error", "Info failed", "%v", err)
		return
	}
	wantEdge := agent.EdgeType_STREAM
	if batch {
		wantEdge = agent.EdgeType_BATCH
	}
	if info.Wants != wantEdge || info.Provides != wantEdge {
		fail("udf-info", "Info differs from what the agent supplied", "got %+v", info)
	}
	if err := srv.Init(nil); err != nil {
		fail("udf-session-error", "Init failed", "%v", err)
		return
	}
	nmsg := r.Range(5, 60)
	var sentP []edge.PointMessage
	var sentB []edge.BufferedBatchMessage
	var gotP []edge.PointMessage
	var gotB []edge.BufferedBatchMessage
	recvDone := make(chan struct{})
	go func() {
		defer close(recvDone)
		for m := range srv.Out() {
			switch mm := m.(type) {
			case edge.PointMessage:
				gotP = append(gotP, mm)
			case edge.BufferedBatchMessage:
				gotB = append(gotB, mm)
			}
		}
	}()
	// snapshot / restore from a second goroutine
	var snapMu sync.Mutex
	var snapsOK, restores int
	var snapErr string
	stopSnap := make(chan struct{})
	snapDone := make(chan struct{})
	snapSeed := r.Uint64()
	go func() {
		defer close(snapDone)
		sr := core.NewRng(snapSeed, 7)
		for {
			select {
			case <-stopSnap:
				return
			case <-time.After(time.Duration(sr.Range(1, 15)) * time.Millisecond):
			}
			if sr.Bool() {
				b, err := srv.Snapshot()
				link.H.mu.Lock()
				want := append([]byte{}, link.H.snap...)
				link.H.mu.Unlock()
				snapMu.Lock()
				if err != nil {
					snapErr = "Snapshot error: " + err.Error()
				} else if !bytes.Equal(b, want) {
					snapErr = fmt.Sprintf("Snapshot returned %q, the agent supplied %q", clipB(b), clipB(want))
				} else {
					snapsOK++
				}
				snapMu.Unlock()
			} else {
				payload := []byte(fmt.Sprintf("restore-%d-\x00\x01\xfe", sr.Intn(1000)))
				err := srv.Restore(payload)
				link.H.mu.Lock()
				var last []byte
				if len(link.H.restored) > 0 {
					last = link.H.restored[len(link.H.restored)-1]
				}
				link.H.mu.Unlock()
				snapMu.Lock()
				if err != nil {
					snapErr = "Restore error: " + err.Error()
				} else if !bytes.Equal(last, payload) {
					snapErr = fmt.Sprintf("Restore delivered %q, sent %q", clipB(last), clipB(payload))
				} else {
					restores++
				}
				snapMu.Unlock()
			}
		}
	}()
	send := func(m edge.Message) bool {
		select {
		case srv.In() <- m:
			return true
		case <-aborted:
			return false
		case <-time.After(30 * time.Second):
			return false
		}
	}
	ok := true
	for i := 0; i < nmsg && ok; i++ {
		if batch {
			b := genBatch(r, i)
			sentB = append(sentB, b)
			if r.Bool() {
				ok = send(b)
			} else {
				// unbuffered framing: begin, points, end
				ok = send(b.Begin())
				for _, p := range b.Points() {
					ok = ok && send(p)
				}
				ok = ok && send(b.End())
			}
		} else {
			p := genPoint(r, i)
			sentP = append(sentP, p)
			ok = send(p)
		}
		if r.Chance(0.03) {
			time.Sleep(time.Duration(r.Range(210, 320)) * time.Millisecond) // let keepalives happen
			x.Count("keepalive_periods_spanned", 1)
		}
	}
	close(stopSnap)
	<-snapDone
	if !ok && isKeepaliveTimeout(fmt.Sprint(d.errs)) {
		x.Inconclusive("keepalive timeout under load")
		srv.Abort(fmt.Errorf("harness"))
		return
	}
	if !ok {
		fail("udf-session-error", "server stopped accepting data (aborted or blocked)", "after %d messages; diag errors: %v", len(sentP)+len(sentB), d.errs)
		srv.Abort(fmt.Errorf("harness"))
		return
	}
	stopErr := make(chan error, 1)
	go func() { stopErr <- srv.Stop() }()
	select {
	case err := <-stopErr:
		if err != nil && isKeepaliveTimeout(err.Error()) {
			x.Inconclusive("keepalive timeout under load")
			return
		}
		if err != nil {
			fail("udf-session-error", "Stop returned an error", "%v; diag: %v", err, d.errs)
			return
		}
	case <-time.After(30 * time.Second):
		fail("udf-stop-blocked", "Stop did not return within 30s", "diag: %v", d.errs)
		return
	}
	select {
	case <-recvDone:
	case <-time.After(10 * time.Second):
		fail("udf-stop-blocked", "Out() was not closed after Stop", "")
		return
	}
	select {
	case <-aborted:
		fail("udf-session-error", "abort callback fired during a healthy session", "diag: %v", d.errs)
		return
	default:
	}
	if snapErr != "" {
		fail("udf-snapshot", firstWords(snapErr, 3), "%s", snapErr)
	}
	if len(gotP) != len(sentP) || len(gotB) != len(sentB) {
		fail("udf-echo-count", "number of echoed messages differs", "sent %d points %d batches, got %d points %d batches; diag: %v", len(sentP), len(sentB), len(gotP), len(gotB), d.errs)
		return
	}
	for i := range sentP {
		if df := pointDiff(sentP[i], gotP[i]); df != "" {
			fail("udf-echo-point", "echoed point differs: "+firstWords(df, 2), "point %d: %s", i, df)
			return
		}
		x.Count("messages_echoed", 1)
	}
	for i := range sentB {
		if df := batchDiff(sentB[i], gotB[i]); df != "" {
			fail("udf-echo-batch", "echoed batch differs: "+firstWords(df, 3), "batch %d: %s", i, df)
			return
		}
		x.Count("messages_echoed", 1)
	}
	x.Count("snapshots_compared", int64(snapsOK))
	x.Count("restores_compared", int64(restores))
	if len(sentP)+len(sentB) >= 5 && snapsOK+restores >= 1 {
		x.Nontrivial(fmt.Sprintf("%s-%d-%d", sub, len(sentP), len(sentB)))
	}
	if n == 0 {
		x.Sample(map[string]interface{}{"kind": "echo", "batch": batch, "messages": len(sentP) + len(sentB), "snapshots": snapsOK, "restores": restores})
	}
}

func firstWords(s string, n int) string {
	w := strings.Fields(s)
	if len(w) > n {
		w = w[:n]
	}
	return strings.Join(w, " ")
}

// ---- (c) through a UDF node of a real task ------------------------------------------------------------

type memSocket struct {
	r     *core.Rng
	batch bool
	link  *Link
}

func (s *memSocket) Open() error {
	s.link = NewEchoLink(s.r, s.batch)
	return nil
}
func (s *memSocket) Close() error       { return nil }
func (s *memSocket) In() io.WriteCloser { return s.link.ServerOut }
func (s *memSocket) Out() io.Reader     { return s.link.ServerIn }

type udfService struct {
	r     *core.Rng
	batch bool
	mu    sync.Mutex
}

func (u *udfService) List() []string { return []string{"echo"} }
func (u *udfService) Info(name string) (udf.Info, bool) {
	e := agent.EdgeType_STREAM
	if u.batch {
		e = agent.EdgeType_BATCH
	}
	return udf.Info{Wants: e, Provides: e, Options: map[string]*agent.OptionInfo{}}, name == "echo"
}
func (u *udfService) Create(name, taskID, nodeID string, d udf.Diagnostic, abort func()) (udf.Interface, error) {
	u.mu.Lock()
	rr := core.NewRng(u.r.Uint64(), 5)
	u.mu.Unlock()
	return kapacitor.NewUDFSocket(taskID, nodeID, &memSocket{r: rr, batch: u.batch}, d, keepaliveTimeout, abort), nil
}

// NewEchoUDFService is a TaskMaster.UDFService whose only function "echo" is an in-process echo
// agent behind in-memory, fragmenting pipes (used by C07 as an output that must be drained).
func NewEchoUDFService(r *core.Rng, batch bool) kapacitor.UDFService {
	return &udfService{r: r, batch: batch}
}

func runNode(x *core.Ctx, r *core.Rng, n int) {
	batch := r.Chance(0.4)
	sub := fmt.Sprintf("udf node session %d of seed %d batch=%v", n, x.Case.Seed, batch)
	if !x.Announce(sub) {
		return
	}
	x.Count("evaluations", 1)
	rec := kit.NewRecorder()
	tm := kapacitor.NewTaskMaster("udf", kit.ServerInfo(), rec.Diag())
	tm.HTTPDService = kit.NopHTTPD{}
	tm.TaskStore = kit.NopTaskStore{}
	tm.DeadmanService = kit.NopDeadman{}
	tm.UDFService = &udfService{r: core.NewRng(r.Uint64(), 9), batch: batch}
	if err := tm.Open(); err != nil {
		x.Inconclusive(err.Error())
		return
	}
	defer tm.Close()
	script := "stream|from().measurement('m').groupBy('host')|log().prefix('before')@echo()|log().prefix('after')"
	if batch {
		script = "stream|from().measurement('m').groupBy('host')|window().period(3s).every(3s)|log().prefix('before')@echo()|log().prefix('after')"
	}
	task, err := tm.NewTask("u", script, kapacitor.StreamTask, kit.DefaultDBRPs, 0, nil)
	if err != nil {
		x.Inconclusive("define: " + err.Error())
		return
	}
	et, err := tm.StartTask(task)
	if err != nil {
		x.Inconclusive("start: " + err.Error())
		return
	}
	np := r.Range(20, 120)
	for i := 0; i < np; i++ {
		tags := models.Tags{"host": []string{"a", "b", "é x"}[r.Intn(3)]}
		if r.Bool() {
			tags["dc"] = "x,y=z"
		}
		f := genFields(r)
		f["n"] = int64(i)
		p := edge.NewPointMessage("m", "db", "rp", models.Dimensions{}, f, tags, t0.Add(time.Duration(i)*time.Second))
		if err := tm.WriteKapacitorPoint(p); err != nil {
			x.Inconclusive("write: " + err.Error())
			return
		}
		if r.Chance(0.01) {
			time.Sleep(time.Duration(r.Range(210, 320)) * time.Millisecond)
		}
	}
	tm.Drain()
	waitErr := make(chan error, 1)
	go func() { waitErr <- et.Wait() }()
	select {
	case err := <-waitErr:
		if err != nil && isKeepaliveTimeout(err.Error()) {
			x.Inconclusive("keepalive timeout under load")
			return
		}
		if err != nil {
			x.Violatef("udf-session-error", "task with a UDF node ended with an error", sub, "%v", err)
			return
		}
	case <-time.After(40 * time.Second):
		x.Violatef("udf-stop-blocked", "task with a UDF node did not finish after its input was closed", sub, "")
		return
	}
	before, after := rec.Sink("before").Items(), rec.Sink("after").Items()
	if len(before) != len(after) {
		x.Violatef("udf-echo-count", "UDF node: number of messages after the node differs", sub, "before %d after %d; errors %v", len(before), len(after), rec.Errors())
		return
	}
	for i := range before {
		a, b := before[i], after[i]
		var d string
		switch {
		case a.P != nil && b.P != nil:
			d = plainPointDiff(a.P, b.P)
		case a.B != nil && b.B != nil:
			d = plainBatchDiff(a.B, b.B)
		default:
			d = "message kind changed"
		}
		if d != "" {
			x.Violatef("udf-echo-node", "UDF node: message differs after the node: "+firstWords(d, 2), sub, "message %d: %s", i, d)
			return
		}
		x.Count("messages_echoed", 1)
	}
	if len(before) >= 5 {
		x.Nontrivial(fmt.Sprintf("%s-%d", sub, len(before)))
	}
}

func plainPointDiff(a, b *kit.P) string {
	switch {
	case a.Name != b.Name || a.DB != b.DB || a.RP != b.RP:
		return fmt.Sprintf("name/db/rp: %q/%q/%q vs %q/%q/%q", a.Name, a.DB, a.RP, b.Name, b.DB, b.RP)
	case a.Group != b.Group:
		return fmt.Sprintf("group: %q vs %q", a.Group, b.Group)
	case a.ByName != b.ByName || strings.Join(a.Dims, ",") != strings.Join(b.Dims, ","):
		return fmt.Sprintf("dimensions: %v/%v vs %v/%v", a.Dims, a.ByName, b.Dims, b.ByName)
	case !tagsEq(a.Tags, b.Tags):
		return fmt.Sprintf("tags: %v vs %v", a.Tags, b.Tags)
	case !a.Time.Equal(b.Time):
		return fmt.Sprintf("time: %v vs %v", a.Time, b.Time)
	}
	return fieldsEq(a.Fields, b.Fields)
}

func plainBatchDiff(a, b *kit.B) string {
	switch {
	case a.Name != b.Name:
		return fmt.Sprintf("batch name: %q vs %q", a.Name, b.Name)
	case a.Group != b.Group:
		return fmt.Sprintf("batch group: %q vs %q", a.Group, b.Group)
	case a.ByName != b.ByName:
		return fmt.Sprintf("batch byName: %v vs %v", a.ByName, b.ByName)
	case !tagsEq(a.Tags, b.Tags):
		return fmt.Sprintf("batch tags: %v vs %v", a.Tags, b.Tags)
	case !a.TMax.Equal(b.TMax):
		return fmt.Sprintf("batch tmax: %v vs %v", a.TMax, b.TMax)
	case len(a.Points) != len(b.Points):
		return fmt.Sprintf("batch size: %d vs %d", len(a.Points), len(b.Points))
	}
	for i := range a.Points {
		if !tagsEq(a.Points[i].Tags, b.Points[i].Tags) {
			return fmt.Sprintf("batch point %d tags: %v vs %v", i, a.Points[i].Tags, b.Points[i].Tags)
		}
		if !a.Points[i].Time.Equal(b.Points[i].Time) {
			return fmt.Sprintf("batch point %d time", i)
		}
		if d := fieldsEq(a.Points[i].Fields, b.Points[i].Fields); d != "" {
			return fmt.Sprintf("batch point %d: %s", i, d)
		}
	}
	return ""
}

var _ = pipeline.StreamEdge

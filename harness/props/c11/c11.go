// Package c11: aggregations over a window equal their mathematical definition.
package c11

import (
	"fmt"
	"math"
	"sort"
	"strings"
	"time"

	"github.com/influxdata/kapacitor/edge"
	"github.com/influxdata/kapacitor/models"

	"verifharness/core"
	"verifharness/kit"
)

type prop struct{}

func init() { core.Register(prop{}) }

func (prop) ID() string    { return "C11" }
func (prop) Level() string { return "exploration" }
func (prop) Rule() string {
	return "for f in {count,sum,mean,median,mode,min,max,first,last,spread,stddev,distinct,percentile(p),top/bottom(n[,tags]),elapsed(unit),difference,cumulativeSum,movingAverage(n)} x mode in {batch task fed directly, stream|window, stream runs of equal timestamps} x {as, usePointTimes}: 2-3 groups, 6-12 batches per group of size 0..12 (thorough 0..200) with int and float fields, duplicates, negatives, +-1e308, +-MaxInt64, the field kind changing between batches of a group, the field missing or wrongly typed in some points. " +
		"Oracle: direct reference implementations (sort based; InfluxQL nearest-rank percentile; median of an even count = mean of the two middle values; sample stddev; int sums wrap) - exact comparison of value AND Go type, time (batch tmax, or the selected point's time under usePointTimes / for transformations), name, group tags (selectors: the selected point's tags and other fields), field name as(); where the definition leaves a tie open any admissible answer is accepted; mean/stddev/movingAverage compared with relative tolerance 1e-9; empty batches emit nothing except count/sum. " +
		"Non-trivial: a (function, mode, option, input hash) whose batches contained >= 2 distinct values and for which >= 3 outputs were compared"
}
func (prop) Assumptions() []string {
	return []string{
		"stddev of fewer than 2 values, percentile ranks that select nothing, and batches in which every point lacks the field are not judged on value (the definition is silent); only 'no crash, task continues' applies (C05)",
		"in the equal-timestamp stream mode the last run is not flushed at end of input (undocumented): only the runs that were emitted are compared, in order",
		"holtWinters is out of scope (a forecast, not a definition)",
	}
}
func (prop) MinNontrivial(tier string) int {
	if tier == "thorough" {
		return 20000
	}
	return 500
}

type fspec struct {
	name      string
	args      string // extra args after the field, e.g. ", 50.0"
	selector  bool
	batchOut  bool
	transform bool
	emptyOK   bool
}

var funcs = []fspec{
	{name: "count", emptyOK: true}, {name: "sum", emptyOK: true}, {name: "mean"}, {name: "median"}, {name: "mode"}, {name: "spread"}, {name: "stddev"},
	{name: "min", selector: true}, {name: "max", selector: true}, {name: "first", selector: true}, {name: "last", selector: true},
	{name: "percentile", args: ", 50.0", selector: true}, {name: "percentile", args: ", 90.0", selector: true}, {name: "percentile", args: ", 1.0", selector: true}, {name: "percentile", args: ", 100.0", selector: true},
	{name: "distinct", batchOut: true}, {name: "top", batchOut: true}, {name: "bottom", batchOut: true},
	{name: "elapsed", args: ", 1s", transform: true}, {name: "elapsed", args: ", 1ms", transform: true}, {name: "difference", transform: true}, {name: "cumulativeSum", transform: true},
	{name: "movingAverage", args: ", 3", transform: true}, {name: "movingAverage", args: ", 1", transform: true},
}

func (prop) Cases(tier string, seed uint64) []core.Case {
	var cs []core.Case
	reps := 12
	if tier == "thorough" {
		reps = 600
	}
	for fi := range funcs {
		for _, mode := range []string{"batch", "window", "eqtime", "overlap"} {
			for rep := 0; rep < reps; rep++ {
				cs = append(cs, core.Case{ID: fmt.Sprintf("%s%d-%s-%d", funcs[fi].name, fi, mode, rep), Kind: mode, Seed: seed*1301 + uint64(fi*1000+rep), Params: map[string]interface{}{"f": fi, "big": tier == "thorough" && rep%5 == 4}})
			}
		}
	}
	return cs
}

// byPointTime: outputs of the current case carry the selected point's time (selector with
// usePointTimes), otherwise the batch end time. Set per case by Run (workers are single threaded).
var byPointTime bool

type pnt struct {
	t    time.Time
	v    interface{} // int64 / float64 / string (wrong type) / nil (missing)
	w    float64
	host string
}

type batchIn struct {
	group string
	tmax  time.Time
	pts   []pnt
}

var t0 = time.Unix(1500000000, 0).UTC()

func genValues(r *core.Rng, n int, kind int) []interface{} {
	out := make([]interface{}, n)
	style := r.Intn(4)
	for i := range out {
		switch kind {
		case 0: // int
			switch {
			case style == 0:
				out[i] = int64(r.Intn(5)) // many duplicates
			case style == 1 && r.Chance(0.1):
				out[i] = []int64{math.MaxInt64, math.MinInt64, math.MaxInt64 - 1, 1 << 53}[r.Intn(4)]
			default:
				out[i] = int64(r.Intn(2001) - 1000)
			}
		default:
			switch {
			case style == 0:
				out[i] = float64(r.Intn(5)) / 2
			case style == 1 && r.Chance(0.1):
				out[i] = []float64{1e308, -1e308, 5e-324, math.Copysign(0, -1)}[r.Intn(4)]
			default:
				out[i] = float64(r.Intn(20001)-10000) / 8
			}
		}
	}
	return out
}

func (prop) Run(x *core.Ctx) {
	c := x.Case
	f := funcs[c.PInt("f", 0)]
	r := core.NewRng(c.Seed, 11)
	mode := c.Kind
	// overlap: windows of two periods emitted every period - every point is emitted in two
	// consecutive batches (the same message objects), so an aggregation that writes to its input
	// spoils the next window
	overlap := mode == "overlap"
	if overlap {
		mode = "window"
	}
	as := ""
	if r.Chance(0.5) {
		as = []string{"out", "v", "x y"}[r.Intn(3)]
	}
	usePT := r.Chance(0.4)
	if c.Kind == "overlap" {
		// every point lies in two windows: only the batch end time says which window an output
		// belongs to when the reference declines a batch
		usePT = false
	}
	if f.name == "top" || f.name == "bottom" {
		f.args = fmt.Sprintf(", %d", r.Range(1, 4))
	}
	call := ""
	switch f.name {
	case "top", "bottom":
		n := strings.TrimPrefix(f.args, ", ")
		call = fmt.Sprintf("|%s(%s, 'v'", f.name, n)
		if r.Chance(0.5) {
			call += ", 'host'"
			f.args += ",host"
		}
		call += ")"
	default:
		call = fmt.Sprintf("|%s('v'%s)", f.name, f.args)
	}
	if as != "" {
		call += ".as('" + as + "')"
	}
	if usePT {
		call += ".usePointTimes()"
	}
	asName := as
	if asName == "" {
		asName = f.name
	}
	byPointTime = usePT && f.selector
	cfg := fmt.Sprintf("%s%s mode=%s overlap=%v as=%q usePointTimes=%v", f.name, f.args, mode, overlap, as, usePT)
	if !x.Announce(cfg) {
		return
	}
	x.Count("evaluations", 1)
	// ---- input
	maxN := 12
	if c.PBool("big") {
		maxN = 200
	}
	ngroups := r.Range(2, 3)
	var batches []batchIn
	nb := r.Range(6, 12)
	tm := t0
	for b := 0; b < nb; b++ {
		for g := 0; g < ngroups; g++ {
			n := r.Intn(maxN + 1)
			if r.Chance(0.12) {
				n = 0
			}
			if mode != "batch" && n == 0 {
				n = 1
			}
			kind := (g + b/3) % 2 // field kind changes between batches of a group
			vals := genValues(r, n, kind)
			bi := batchIn{group: fmt.Sprintf("g%d", g)}
			runT := tm
			if mode == "eqtime" && !f.transform && b >= 2 && r.Chance(0.15) {
				// a late run: its timestamp lies before the previous run's. It is still a run of its own.
				runT = tm.Add(-15 * time.Second)
			}
			for i := 0; i < n; i++ {
				p := pnt{v: vals[i], w: float64(i), host: []string{"a", "b", "c"}[r.Intn(3)]}
				switch {
				case mode == "eqtime" && !f.transform:
					p.t = runT // all points of the run share the timestamp
				default:
					p.t = tm.Add(time.Duration(i) * 10 * time.Millisecond * time.Duration(1+r.Intn(3)))
					if i > 0 && !p.t.After(bi.pts[i-1].t) {
						if f.transform {
							// InfluxQL series have unique timestamps; the transformations skip a
							// point whose time equals the previous one's
							p.t = bi.pts[i-1].t.Add(time.Millisecond)
						} else {
							p.t = bi.pts[i-1].t
						}
					}
				}
				if r.Chance(0.04) {
					p.v = nil // field missing
				} else if r.Chance(0.03) {
					p.v = "oops" // wrong type
				}
				bi.pts = append(bi.pts, p)
			}
			bi.tmax = tm.Add(9 * time.Second)
			if mode == "batch" && f.transform && b > 0 && r.Chance(0.25) {
				// two consecutive batches of a group with the same end time are still two batches:
				// the previous batch of this group gets this batch's (later) end time
				for k := len(batches) - 1; k >= 0; k-- {
					if batches[k].group == bi.group {
						batches[k].tmax = bi.tmax
						break
					}
				}
			}
			if mode == "window" {
				bi.tmax = tm.Add(10 * time.Second) // the window's end
			}
			if mode == "eqtime" {
				bi.tmax = runT
			}
			batches = append(batches, bi)
		}
		tm = tm.Add(10 * time.Second)
	}
	// ---- run
	env, err := kit.NewEnv(kit.EnvOpts{Scratch: x.Scratch, NoAlert: true})
	if err != nil {
		x.Inconclusive("env: " + err.Error())
		return
	}
	defer env.Close()
	var script string
	mkFields := func(p pnt) models.Fields {
		fl := models.Fields{"w": p.w}
		if p.v != nil {
			fl["v"] = p.v
		}
		return fl
	}
	switch mode {
	case "batch":
		script = "batch|query('SELECT v FROM \"db\".\"rp\".\"m\"').period(10s).every(10s).groupBy('g')" + call + "|log().prefix('out')"
		et, err := env.StartBatch("a", script, nil)
		if err != nil {
			x.Inconclusive("start: " + err.Error() + " " + script)
			return
		}
		col := env.TM.BatchCollectors("a")[0]
		for _, b := range batches {
			var pts []edge.BatchPointMessage
			for _, p := range b.pts {
				pts = append(pts, edge.NewBatchPointMessage(mkFields(p), models.Tags{"g": b.group, "host": p.host}, p.t))
			}
			col.CollectBatch(edge.NewBufferedBatchMessage(edge.NewBeginBatchMessage("m", models.Tags{"g": b.group}, false, b.tmax, len(pts)), pts, edge.NewEndBatchMessage()))
		}
		col.Close()
		if err := et.Wait(); err != nil {
			x.Violatef("task-error", "aggregation task ended with error", cfg, "%v", err)
			return
		}
	default:
		script = "stream|from().measurement('m').groupBy('g')"
		if mode == "window" && overlap {
			script += "|window().period(20s).every(10s).align()"
		} else if mode == "window" {
			script += "|window().period(10s).every(10s).align()"
		}
		script += call + "|log().prefix('out')"
		et, err := env.StartStream("a", script, nil)
		if err != nil {
			x.Inconclusive("start: " + err.Error() + " " + script)
			return
		}
		for _, b := range batches {
			for _, p := range b.pts {
				env.Write(edge.NewPointMessage("m", "db", "rp", models.Dimensions{}, mkFields(p), models.Tags{"g": b.group, "host": p.host}, p.t))
			}
		}
		// a final sentinel round so that the last real window / run of every group is emitted
		for g := 0; g < ngroups; g++ {
			env.Write(edge.NewPointMessage("m", "db", "rp", models.Dimensions{}, models.Fields{"v": 1.0, "w": 0.0}, models.Tags{"g": fmt.Sprintf("g%d", g), "host": "z"}, tm.Add(time.Hour)))
		}
		if err := env.DrainWait(et); err != nil {
			x.Violatef("task-error", "aggregation task ended with error", cfg, "%v", err)
			return
		}
	}
	if overlap {
		// what window k of a group holds: the points of segment k-1 and segment k
		var merged []batchIn
		prev := map[string]*batchIn{}
		for i := range batches {
			b := batches[i]
			m := batchIn{group: b.group, tmax: b.tmax}
			if p := prev[b.group]; p != nil {
				m.pts = append(m.pts, p.pts...)
			}
			m.pts = append(m.pts, b.pts...)
			merged = append(merged, m)
			prev[b.group] = &batches[i]
		}
		batches = merged
	}
	items := env.Rec.Sink("out").Items()
	// outputs per group in order
	type outMsg struct {
		P *kit.P
		B *kit.B
	}
	got := map[string][]outMsg{}
	for _, it := range items {
		if it.P != nil {
			got[it.P.Tags["g"]] = append(got[it.P.Tags["g"]], outMsg{P: it.P})
		} else {
			got[it.B.Tags["g"]] = append(got[it.B.Tags["g"]], outMsg{B: it.B})
		}
	}
	fail := func(kind, key, format string, a ...interface{}) {
		x.Violatef(kind, key+" ["+f.name+" "+mode+"]", cfg, "script: %s\n"+format, append([]interface{}{script}, a...)...)
	}
	compared, distinctVals := 0, map[string]bool{}
	for g := 0; g < ngroups; g++ {
		gname := fmt.Sprintf("g%d", g)
		var ins []batchIn
		for _, b := range batches {
			if b.group == gname {
				ins = append(ins, b)
			}
		}
		outs := got[gname]
		oi := 0
		if f.transform && mode == "eqtime" {
			merged := batchIn{group: gname, tmax: ins[len(ins)-1].tmax}
			for _, b := range ins {
				merged.pts = append(merged.pts, b.pts...)
			}
			// the sentinel point written after the data belongs to the stream as well
			merged.pts = append(merged.pts, pnt{t: tm.Add(time.Hour), v: 1.0, host: "z"})
			ins = []batchIn{merged}
		}
		for bi, b := range ins {
			// usable points: field present with the kind of the first usable point
			exp := expect(f, b, asName, usePT, mode)
			if exp.skip {
				// the reference declines (definition silent): consume what the node emitted for this batch, if anything
				if oi < len(outs) && belongsTo(outs[oi], b, mode) {
					oi++
				}
				x.Count("batches_not_judged", 1)
				continue
			}
			if exp.none {
				if oi < len(outs) && belongsTo(outs[oi], b, mode) && !exp.transform {
					fail("agg-unexpected-output", "output for a batch that should emit nothing", "group %s batch %d (%d points): got %s", gname, bi, len(b.pts), describe(outs[oi]))
					return
				}
				if exp.transform && oi < len(outs) && outs[oi].B != nil && belongsTo(outs[oi], b, mode) {
					// transformations pass the (possibly empty) batch frame through
					if len(outs[oi].B.Points) != 0 {
						fail("agg-unexpected-output", "points in a batch that should be empty", "group %s batch %d: got %s", gname, bi, describe(outs[oi]))
						return
					}
					oi++
				}
				continue
			}
			if mode == "eqtime" && oi >= len(outs) && bi == len(ins)-1 {
				continue
			}
			// transformations on stream edges emit one point per input point
			if exp.transform && mode != "batch" && mode != "window" {
				for _, ep := range exp.points {
					if oi >= len(outs) || outs[oi].P == nil {
						fail("agg-missing-output", "transformation output missing", "group %s batch %d: expected point %v", gname, bi, ep)
						return
					}
					if d := cmpPoint(outs[oi].P, ep, f, asName); d != "" {
						fail("agg-value", d, "group %s batch %d input %s: got %s expected %v", gname, bi, inStr(b), describe(outs[oi]), ep)
						return
					}
					oi++
					compared++
				}
				continue
			}
			if oi >= len(outs) {
				fail("agg-missing-output", "no output for a batch", "group %s batch %d input %s: expected %s", gname, bi, inStr(b), exp.String())
				return
			}
			o := outs[oi]
			oi++
			if exp.batch {
				if o.B == nil {
					fail("agg-shape", "expected a batch, got a point", "group %s batch %d: %s", gname, bi, describe(o))
					return
				}
				if o.B.Name != "m" || len(o.B.Tags) != 1 || o.B.Tags["g"] != gname {
					fail("agg-meta", "batch name/tags wrong", "got name %q tags %v", o.B.Name, o.B.Tags)
					return
				}
				if !o.B.TMax.Equal(b.tmax) {
					fail("agg-time", "batch tmax differs from the input batch's", "group %s batch %d: got %v want %v", gname, bi, o.B.TMax, b.tmax)
					return
				}
				if d := cmpBatchPoints(o.B, exp, f, asName); d != "" {
					fail("agg-value", d, "group %s batch %d input %s: got %s expected %s", gname, bi, inStr(b), describe(o), exp.String())
					return
				}
			} else {
				if o.P == nil {
					fail("agg-shape", "expected a point, got a batch", "group %s batch %d: %s", gname, bi, describe(o))
					return
				}
				ok := false
				var d string
				for _, ep := range exp.points { // any admissible answer
					if d = cmpPoint(o.P, ep, f, asName); d == "" {
						ok = true
						break
					}
				}
				if !ok {
					var all []string
					for _, oo := range outs {
						all = append(all, describe(oo))
					}
					var allIn []string
					for _, bb := range ins {
						allIn = append(allIn, inStr(bb))
					}
					fail("agg-value", d, "group %s batch %d input %s: got %s, admissible: %s\nall inputs of the group: %s\nall outputs of the group: %s", gname, bi, inStr(b), describe(o), exp.String(), strings.Join(allIn, " ; "), strings.Join(all, " ; "))
					return
				}
			}
			compared++
			for _, p := range b.pts {
				distinctVals[fmt.Sprint(p.v)] = true
			}
		}
	}
	x.Count("outputs_compared", int64(compared))
	x.SetAdd("cells", fmt.Sprintf("%s|%s|as=%v|pt=%v", f.name+f.args, mode, as != "", usePT))
	if compared >= 3 && len(distinctVals) >= 2 {
		x.Nontrivial(cfg + fmt.Sprint(c.Seed))
	}
	x.Sample(map[string]interface{}{"script": script, "groups": ngroups, "batches": len(batches), "outputs_compared": compared})
}

func belongsTo(o struct {
	P *kit.P
	B *kit.B
}, b batchIn, mode string) bool {
	if o.B != nil {
		return o.B.TMax.Equal(b.tmax)
	}
	if o.P != nil {
		if !byPointTime && o.P.Time.Equal(b.tmax) {
			return true
		}
		if !byPointTime {
			return false
		}
		for _, p := range b.pts {
			if p.t.Equal(o.P.Time) {
				return true
			}
		}
	}
	return false
}

func describe(o struct {
	P *kit.P
	B *kit.B
}) string {
	if o.P != nil {
		return fmt.Sprintf("point{t=%s tags=%v fields=%v}", o.P.Time.Sub(t0), o.P.Tags, o.P.Fields)
	}
	var ps []string
	for _, p := range o.B.Points {
		ps = append(ps, fmt.Sprintf("{t=%s tags=%v %v}", p.Time.Sub(t0), p.Tags, p.Fields))
	}
	return fmt.Sprintf("batch{tmax=%s %s}", o.B.TMax.Sub(t0), strings.Join(ps, " "))
}

func inStr(b batchIn) string {
	var ps []string
	for _, p := range b.pts {
		ps = append(ps, fmt.Sprintf("%v@%s/%s", p.v, p.t.Sub(t0), p.host))
	}
	if len(ps) > 30 {
		ps = append(ps[:30], "…")
	}
	return "[" + strings.Join(ps, " ") + "] tmax=" + b.tmax.Sub(t0).String()
}

// ---- reference -----------------------------------------------------------------------------------

type epoint struct {
	t      time.Time
	v      interface{}
	tags   map[string]string      // nil: group tags only
	fields map[string]interface{} // selectors: other fields that must be present
	approx bool
}

type expectation struct {
	skip, none bool
	batch      bool
	transform  bool
	points     []epoint // stream out: admissible alternatives; batch out / transform: the expected list
}

func (e expectation) String() string {
	var p []string
	for _, x := range e.points {
		p = append(p, fmt.Sprintf("{v=%v(%T) t=%s}", x.v, x.v, x.t.Sub(t0)))
	}
	if len(p) > 12 {
		p = append(p[:12], "…")
	}
	return strings.Join(p, " | ")
}

type upt struct {
	pnt
	f float64
	i int64
}

func expect(f fspec, b batchIn, as string, usePT bool, mode string) expectation {
	// the reducer kind is chosen from the first point that has the field; points whose field is
	// missing or of another kind are skipped with an error
	kind := ""
	var us []upt
	for _, p := range b.pts {
		switch v := p.v.(type) {
		case int64:
			if kind == "" {
				kind = "int"
			}
			if kind == "int" {
				us = append(us, upt{pnt: p, i: v, f: float64(v)})
			}
		case float64:
			if kind == "" {
				kind = "float"
			}
			if kind == "float" {
				us = append(us, upt{pnt: p, f: v})
			}
		case string:
			if kind == "" {
				// a wrongly typed first point decides the reducer kind: not defined
				return expectation{skip: true}
			}
		}
	}
	e := expectation{batch: f.batchOut, transform: f.transform}
	if mode == "batch" || mode == "window" {
		if f.transform {
			e.batch = true
		}
	}
	n := len(us)
	if len(b.pts) == 0 {
		if f.emptyOK {
			if f.name == "count" {
				e.points = []epoint{{t: b.tmax, v: int64(0)}}
			} else {
				e.points = []epoint{{t: b.tmax, v: float64(0)}}
			}
			return e
		}
		e.none = true
		return e
	}
	if n == 0 {
		return expectation{skip: true} // every point lacks the field
	}
	isInt := kind == "int"
	val := func(u upt) interface{} {
		if isInt {
			return u.i
		}
		return u.f
	}
	sorted := append([]upt{}, us...)
	sort.SliceStable(sorted, func(i, j int) bool {
		if isInt {
			return sorted[i].i < sorted[j].i
		}
		return sorted[i].f < sorted[j].f
	})
	tOf := func(u upt) time.Time {
		if usePT {
			return u.t
		}
		return b.tmax
	}
	sel := func(u upt) epoint {
		ep := epoint{t: tOf(u), v: val(u), tags: map[string]string{"g": b.group, "host": u.host}, fields: map[string]interface{}{"w": u.w}}
		return ep
	}
	agg := func(v interface{}) []epoint { return []epoint{{t: b.tmax, v: v}} }
	switch f.name {
	case "count":
		e.points = agg(int64(n))
	case "sum":
		if isInt {
			var s int64
			for _, u := range us {
				s += u.i
			}
			e.points = agg(s)
		} else {
			s := 0.0
			for _, u := range us {
				s += u.f
			}
			e.points = []epoint{{t: b.tmax, v: s, approx: true}}
		}
	case "mean":
		s := 0.0
		for _, u := range us {
			s += u.f
		}
		e.points = []epoint{{t: b.tmax, v: s / float64(n), approx: true}}
		if isInt && anyHuge(us) {
			return expectation{skip: true}
		}
	case "median":
		var m float64
		if n%2 == 1 {
			m = sorted[n/2].f
		} else {
			m = (sorted[n/2-1].f + sorted[n/2].f) / 2
		}
		if isInt && anyHuge(us) {
			return expectation{skip: true}
		}
		e.points = []epoint{{t: b.tmax, v: m, approx: true}}
	case "mode":
		cnt := map[string]int{}
		best := 0
		for _, u := range us {
			cnt[zkey(val(u))]++ // -0 and +0 are one value
			if cnt[zkey(val(u))] > best {
				best = cnt[zkey(val(u))]
			}
		}
		seen := map[string]bool{}
		for _, u := range us {
			k := zkey(val(u))
			if cnt[k] == best && !seen[k] {
				seen[k] = true
				e.points = append(e.points, epoint{t: b.tmax, v: val(u)})
			}
		}
	case "spread":
		if isInt {
			e.points = agg(sorted[n-1].i - sorted[0].i)
		} else {
			e.points = agg(sorted[n-1].f - sorted[0].f)
		}
	case "stddev":
		if n < 2 {
			return expectation{skip: true}
		}
		if anyHuge(us) {
			return expectation{skip: true}
		}
		m := 0.0
		for _, u := range us {
			m += u.f
		}
		m /= float64(n)
		ss := 0.0
		for _, u := range us {
			ss += (u.f - m) * (u.f - m)
		}
		e.points = []epoint{{t: b.tmax, v: math.Sqrt(ss / float64(n-1)), approx: true}}
	case "min", "max":
		target := sorted[0]
		if f.name == "max" {
			target = sorted[n-1]
		}
		for _, u := range us {
			if val(u) == val(target) {
				e.points = append(e.points, sel(u))
			}
		}
	case "first", "last":
		// earliest / latest time; ties open
		tt := us[0].t
		for _, u := range us {
			if f.name == "first" && u.t.Before(tt) || f.name == "last" && u.t.After(tt) {
				tt = u.t
			}
		}
		for _, u := range us {
			if u.t.Equal(tt) {
				e.points = append(e.points, sel(u))
			}
		}
	case "percentile":
		var p float64
		fmt.Sscanf(strings.TrimPrefix(f.args, ", "), "%g", &p)
		i := int(math.Floor(float64(n)*p/100.0+0.5)) - 1
		if i < 0 || i >= n {
			return expectation{skip: true}
		}
		for _, u := range us {
			if val(u) == val(sorted[i]) {
				e.points = append(e.points, sel(u))
			}
		}
	case "distinct":
		seen := map[string]bool{}
		for _, u := range sorted {
			k := zkey(val(u)) // -0 and +0 are the same value (IEEE equality), whichever sign is reported
			if !seen[k] {
				seen[k] = true
				e.points = append(e.points, epoint{v: val(u)})
			}
		}
	case "top", "bottom":
		var k int
		fmt.Sscanf(strings.TrimPrefix(f.args, ", "), "%d", &k)
		ord := append([]upt{}, us...)
		sort.SliceStable(ord, func(i, j int) bool {
			if ord[i].f != ord[j].f || (isInt && ord[i].i != ord[j].i) {
				if isInt {
					if f.name == "top" {
						return ord[i].i > ord[j].i
					}
					return ord[i].i < ord[j].i
				}
				if f.name == "top" {
					return ord[i].f > ord[j].f
				}
				return ord[i].f < ord[j].f
			}
			return ord[i].t.Before(ord[j].t)
		})
		if k > n {
			k = n
		}
		// ties at the cut are open: record the k-th value, compared as a multiset of values by the caller
		for _, u := range ord[:k] {
			ep := epoint{t: u.t, v: val(u)}
			if strings.HasSuffix(f.args, ",host") {
				ep.fields = map[string]interface{}{"host": u.host}
			}
			e.points = append(e.points, ep)
		}
	case "elapsed":
		unit := time.Second
		if strings.Contains(f.args, "1ms") {
			unit = time.Millisecond
		}
		for i := 1; i < n; i++ {
			e.points = append(e.points, epoint{t: us[i].t, v: int64(us[i].t.Sub(us[i-1].t) / unit)})
		}
	case "difference":
		for i := 1; i < n; i++ {
			if isInt {
				e.points = append(e.points, epoint{t: us[i].t, v: us[i].i - us[i-1].i})
			} else {
				e.points = append(e.points, epoint{t: us[i].t, v: us[i].f - us[i-1].f})
			}
		}
	case "cumulativeSum":
		var si int64
		sf := 0.0
		for _, u := range us {
			if isInt {
				si += u.i
				e.points = append(e.points, epoint{t: u.t, v: si})
			} else {
				sf += u.f
				e.points = append(e.points, epoint{t: u.t, v: sf, approx: true})
			}
		}
	case "movingAverage":
		var k int
		fmt.Sscanf(strings.TrimPrefix(f.args, ", "), "%d", &k)
		if anyHuge(us) {
			return expectation{skip: true}
		}
		for i := k - 1; i < n; i++ {
			s := 0.0
			for j := i - k + 1; j <= i; j++ {
				s += us[j].f
			}
			e.points = append(e.points, epoint{t: us[i].t, v: s / float64(k), approx: true})
		}
	}
	if f.transform && n != len(b.pts) {
		// a skipped point in the middle of a transformation: whether the state continues over
		// it is not defined
		return expectation{skip: true}
	}
	if len(e.points) == 0 && !e.batch {
		e.none = true
	}
	return e
}

func anyHuge(us []upt) bool {
	for _, u := range us {
		if math.Abs(u.f) > 1e300 || math.Abs(u.f) > 1<<52 {
			return true
		}
	}
	return false
}

func sameValue(got, want interface{}, approx bool) bool {
	switch w := want.(type) {
	case int64:
		g, ok := got.(int64)
		return ok && g == w
	case float64:
		g, ok := got.(float64)
		if !ok {
			return false
		}
		if math.IsNaN(g) && math.IsNaN(w) {
			return true
		}
		if approx {
			if g == w {
				return true
			}
			d := math.Abs(g - w)
			return d <= 1e-9*math.Max(math.Abs(g), math.Abs(w)) || d < 1e-300
		}
		return g == w
	}
	return false
}

func cmpPoint(p *kit.P, ep epoint, f fspec, as string) string {
	if p.Name != "m" {
		return "output name"
	}
	v, ok := p.Fields[as]
	if !ok {
		return fmt.Sprintf("output field %q missing (fields %v)", as, keysOf(p.Fields))
	}
	if !sameValue(v, ep.v, ep.approx) {
		if fmt.Sprintf("%T", v) != fmt.Sprintf("%T", ep.v) {
			return "output value type"
		}
		return "output value"
	}
	if !p.Time.Equal(ep.t) {
		return "output time"
	}
	if ep.tags != nil {
		if len(p.Tags) != len(ep.tags) {
			return "selector tags"
		}
		for k, w := range ep.tags {
			if p.Tags[k] != w {
				return "selector tags"
			}
		}
		for k, w := range ep.fields {
			if p.Fields[k] != w {
				return "selector lost the other fields of the selected point"
			}
		}
	} else {
		if len(p.Tags) != 1 || p.Tags["g"] == "" {
			return "group tags"
		}
		if len(p.Fields) != 1 {
			return "extra fields on an aggregate"
		}
	}
	return ""
}

func keysOf(m map[string]interface{}) []string {
	var l []string
	for k := range m {
		l = append(l, k)
	}
	sort.Strings(l)
	return l
}

func cmpBatchPoints(b *kit.B, exp expectation, f fspec, as string) string {
	switch f.name {
	case "distinct":
		if len(b.Points) != len(exp.points) {
			return "number of distinct values"
		}
		gotSet := map[string]bool{}
		for _, p := range b.Points {
			v, ok := p.Fields[as]
			if !ok {
				return fmt.Sprintf("output field %q missing", as)
			}
			gotSet[zkey(v)] = true
			// distinct is no selector: its values carry the time of the batch, with or without usePointTimes
			if !p.Time.Equal(b.TMax) {
				return fmt.Sprintf("distinct value stamped %s, the batch time is %s", p.Time.UTC().Format("15:04:05.000"), b.TMax.UTC().Format("15:04:05.000"))
			}
		}
		for _, ep := range exp.points {
			if !gotSet[zkey(ep.v)] {
				return "distinct value missing"
			}
		}
		return ""
	case "top", "bottom":
		if len(b.Points) != len(exp.points) {
			return "number of top/bottom points"
		}
		// multiset of values must match (ties at the cut may pick other points of equal value)
		var gv, wv []string
		for _, p := range b.Points {
			v, ok := p.Fields[as]
			if !ok {
				return fmt.Sprintf("output field %q missing (fields %v)", as, keysOf(p.Fields))
			}
			gv = append(gv, fmt.Sprintf("%T:%v", v, v))
		}
		for _, ep := range exp.points {
			wv = append(wv, fmt.Sprintf("%T:%v", ep.v, ep.v))
		}
		sort.Strings(gv)
		sort.Strings(wv)
		if strings.Join(gv, ",") != strings.Join(wv, ",") {
			return "top/bottom values"
		}
		return ""
	}
	// transformations
	if len(b.Points) != len(exp.points) {
		return "number of transformed points"
	}
	for i, ep := range exp.points {
		p := b.Points[i]
		v, ok := p.Fields[as]
		if !ok {
			return fmt.Sprintf("output field %q missing", as)
		}
		if !sameValue(v, ep.v, ep.approx) {
			if fmt.Sprintf("%T", v) != fmt.Sprintf("%T", ep.v) {
				return "output value type"
			}
			return "output value"
		}
		if !p.Time.Equal(ep.t) {
			return "output time"
		}
	}
	return ""
}

// zkey: type and value, with -0 folded onto +0 (equal values).
func zkey(v interface{}) string {
	if f, ok := v.(float64); ok && f == 0 {
		v = float64(0)
	}
	return fmt.Sprintf("%T:%v", v, v)
}

package c10

import (
	"fmt"
	"sort"
	"strings"
	"time"

	"github.com/influxdata/kapacitor/tick/ast"
	"github.com/influxdata/kapacitor/tick/stateful"

	"verifharness/kit"
)

// Reference interpreter of the per-point / per-group nodes over plain data. The lambda VALUE
// semantics are delegated to tick/stateful (decided by C04); everything a node adds - scope
// filling, per-group state, field/tag/keep assembly, buffering, regrouping - is re-implemented
// here from the node documentation.

type spec struct {
	kind   string
	text   string // TICKscript fragment, e.g. "|where(lambda: ...)"
	parent int

	lambdaTexts []string
	lambdas     []ast.Node
	refs        [][]string

	as       []string
	tags     []string
	keep     bool
	keepList []string
	quiet    bool

	defFields map[string]interface{}
	defTags   map[string]string
	delFields []string
	delTags   []string

	dur time.Duration
	n   int64

	field  string
	asName string
	unit   time.Duration
	nonNeg bool

	cdFields []string

	on    []string
	delim string
	tol   time.Duration
	drop  bool
	max   int64

	dims    []string
	star    bool
	exclude []string
	byName  bool
	// stickyByName evaluates groupBy the way the code does it (known finding): grouping by
	// measurement, once on, is never removed
	stickyByName bool
}

func (s *spec) parse() error {
	for _, t := range s.lambdaTexts {
		l, err := ast.ParseLambda(t)
		if err != nil {
			return fmt.Errorf("harness: lambda %q: %v", t, err)
		}
		s.lambdas = append(s.lambdas, l.Expression)
		s.refs = append(s.refs, ast.FindReferenceVariables(l.Expression))
	}
	return nil
}

type result struct {
	out []kit.Item
	// optional: items the node may or may not have emitted at end of input (undocumented flush)
	optionalTail []kit.Item
	errs         int
	// unordered: equal-time points inside a batch may come in any order (groupBy sorts unstably)
	unorderedTies bool
	// skip: the reference does not judge this run (reason)
	skip string
	// notes: coverage counters
	notes map[string]int
}

func (r *result) note(k string) {
	if r.notes == nil {
		r.notes = map[string]int{}
	}
	r.notes[k]++
}

func toGroupID(name string, tags map[string]string, dims []string, byName bool) string {
	if len(dims) == 0 {
		if byName {
			return name
		}
		return ""
	}
	var b strings.Builder
	if byName {
		b.WriteString(name)
		b.WriteByte('\n')
	}
	for i, d := range dims {
		if i > 0 {
			b.WriteByte(',')
		}
		b.WriteString(esc(d, true))
		b.WriteByte('=')
		b.WriteString(esc(tags[d], false))
	}
	return b.String()
}

// esc: ',' and '\\' are escaped with a backslash in tag names and values, '=' in names only.
func esc(s string, name bool) string {
	var b strings.Builder
	for _, c := range s {
		if c == ',' || c == '\\' || (name && c == '=') {
			b.WriteByte('\\')
		}
		b.WriteRune(c)
	}
	return b.String()
}

func copyTags(t map[string]string) map[string]string {
	m := make(map[string]string, len(t))
	for k, v := range t {
		m[k] = v
	}
	return m
}
func copyFields(f map[string]interface{}) map[string]interface{} {
	m := make(map[string]interface{}, len(f))
	for k, v := range f {
		m[k] = v
	}
	return m
}
func cloneP(p *kit.P) *kit.P {
	q := *p
	q.Dims = append([]string{}, p.Dims...)
	q.Tags = copyTags(p.Tags)
	q.Fields = copyFields(p.Fields)
	return &q
}
func cloneBHeader(b *kit.B) *kit.B {
	q := *b
	q.Dims = append([]string{}, b.Dims...)
	q.Tags = copyTags(b.Tags)
	q.Points = nil
	return &q
}
func cloneBP(p kit.BP) kit.BP {
	return kit.BP{Tags: copyTags(p.Tags), Fields: copyFields(p.Fields), Time: p.Time}
}
func sortedKeys(m map[string]string) []string {
	ks := make([]string, 0, len(m))
	for k := range m {
		ks = append(ks, k)
	}
	sort.Strings(ks)
	return ks
}

// ---- lambda evaluation on plain data

func fill(sc *stateful.Scope, refs []string, tags map[string]string, fields map[string]interface{}, t time.Time) error {
	for _, name := range refs {
		if name == "time" {
			sc.Set("time", t.Local())
			continue
		}
		fv, isField := fields[name]
		tv, isTag := tags[name]
		switch {
		case isField && isTag:
			return fmt.Errorf("field and tag share the name %q", name)
		case isField:
			sc.Set(name, fv)
		case isTag:
			sc.Set(name, tv)
		default:
			if !sc.Has(name) {
				sc.Set(name, ast.MissingValue)
			}
		}
	}
	return nil
}

func evalPred(e stateful.Expression, refs []string, tags map[string]string, fields map[string]interface{}, t time.Time) (ok bool, err error) {
	defer func() {
		if r := recover(); r != nil {
			err = fmt.Errorf("panic: %v", r)
		}
	}()
	sc := stateful.NewScope()
	if err := fill(sc, refs, tags, fields, t); err != nil {
		return false, err
	}
	if _, err := e.Type(sc); err != nil {
		return false, err
	}
	return e.EvalBool(sc)
}

func compile(n ast.Node) stateful.Expression {
	e, err := stateful.NewExpression(n)
	if err != nil {
		return nil
	}
	return e
}

// ---- reference per node

func apply(s *spec, in []kit.Item) result {
	switch s.kind {
	case "where":
		return refWhere(s, in)
	case "eval":
		return refEval(s, in)
	case "default":
		return refDefault(s, in)
	case "delete":
		return refDelete(s, in)
	case "shift":
		return refShift(s, in)
	case "sample":
		return refSample(s, in)
	case "derivative":
		return refDerivative(s, in)
	case "changeDetect":
		return refChangeDetect(s, in)
	case "stateCount", "stateDuration":
		return refState(s, in)
	case "flatten":
		return refFlatten(s, in)
	case "combine":
		return refCombine(s, in)
	case "groupBy":
		return refGroupBy(s, in)
	}
	return result{skip: "no reference for " + s.kind}
}

// perPoint drives a stateless-per-message transformation with per-group state st (created by mk).
// f returns (keep) after mutating the clone in place; for batches hdr may mutate the header.
func perPoint(in []kit.Item, mk func() interface{}, beginBatch func(st interface{}), hdr func(h *kit.B),
	f func(st interface{}, name string, tags *map[string]string, fields *map[string]interface{}, t *time.Time) bool,
	post func(p *kit.P)) []kit.Item {
	states := map[string]interface{}{}
	get := func(g string) interface{} {
		st, ok := states[g]
		if !ok {
			if mk != nil {
				st = mk()
			}
			states[g] = st
		}
		return st
	}
	var out []kit.Item
	for _, it := range in {
		if it.P != nil {
			st := get(it.P.Group)
			p := cloneP(it.P)
			if f(st, p.Name, &p.Tags, &p.Fields, &p.Time) {
				if post != nil {
					post(p)
				}
				p.Group = toGroupID(p.Name, p.Tags, p.Dims, p.ByName)
				out = append(out, kit.Item{P: p})
			}
			continue
		}
		st := get(it.B.Group)
		if beginBatch != nil {
			beginBatch(st)
		}
		h := cloneBHeader(it.B)
		if hdr != nil {
			hdr(h)
			h.Dims = sortedKeys(h.Tags)
			h.Group = toGroupID(h.Name, h.Tags, h.Dims, h.ByName)
		}
		for _, bp := range it.B.Points {
			q := cloneBP(bp)
			if f(st, h.Name, &q.Tags, &q.Fields, &q.Time) {
				h.Points = append(h.Points, q)
			}
		}
		out = append(out, kit.Item{B: h})
	}
	return out
}

func refWhere(s *spec, in []kit.Item) result {
	var res result
	res.out = perPoint(in, func() interface{} { return compile(s.lambdas[0]) }, nil, nil,
		func(st interface{}, name string, tags *map[string]string, fields *map[string]interface{}, t *time.Time) bool {
			ok, err := evalPred(st.(stateful.Expression), s.refs[0], *tags, *fields, *t)
			if err != nil {
				res.errs++
				return false
			}
			return ok
		}, nil)
	return res
}

func refEval(s *spec, in []kit.Item) result {
	var res result
	isTag := map[string]bool{}
	for _, t := range s.tags {
		isTag[t] = true
	}
	res.out = perPoint(in, func() interface{} {
		var es []stateful.Expression
		for _, l := range s.lambdas {
			es = append(es, compile(l))
		}
		return es
	}, nil, nil,
		func(st interface{}, name string, tags *map[string]string, fields *map[string]interface{}, t *time.Time) (keep bool) {
			defer func() {
				if r := recover(); r != nil {
					res.errs++
					keep = false
				}
			}()
			es := st.([]stateful.Expression)
			sc := stateful.NewScope()
			for i, e := range es {
				if err := fill(sc, s.refs[i], *tags, *fields, *t); err != nil {
					res.errs++
					return false
				}
				v, err := e.Eval(sc)
				if err != nil {
					res.errs++
					return false
				}
				sc.Set(s.as[i], v)
			}
			newTags := *tags
			for _, tg := range s.tags {
				v, err := sc.Get(tg)
				if err != nil {
					res.errs++
					return false
				}
				sv, ok := v.(string)
				if !ok {
					res.errs++
					return false
				}
				newTags[tg] = sv
			}
			nf := map[string]interface{}{}
			switch {
			case s.keep && len(s.keepList) > 0:
				for _, f := range s.keepList {
					if sc.Has(f) {
						v, _ := sc.Get(f)
						nf[f] = v
					} else if v, ok := (*fields)[f]; ok {
						nf[f] = v
					} else {
						res.errs++
						return false
					}
				}
			case s.keep:
				for f, v := range *fields {
					nf[f] = v
				}
				for _, a := range s.as {
					v, err := sc.Get(a)
					if err != nil {
						res.errs++
						return false
					}
					nf[a] = v
				}
			default:
				for _, a := range s.as {
					if isTag[a] {
						continue
					}
					v, err := sc.Get(a)
					if err != nil {
						res.errs++
						return false
					}
					nf[a] = v
				}
			}
			*fields = nf
			*tags = newTags
			return true
		}, nil)
	return res
}

func refDefault(s *spec, in []kit.Item) result {
	setTags := func(tags map[string]string) {
		for k, v := range s.defTags {
			if tags[k] == "" {
				tags[k] = v
			}
		}
	}
	return result{out: perPoint(in, nil, nil, func(h *kit.B) { setTags(h.Tags) },
		func(_ interface{}, name string, tags *map[string]string, fields *map[string]interface{}, t *time.Time) bool {
			for k, v := range s.defFields {
				if (*fields)[k] == nil {
					(*fields)[k] = v
				}
			}
			setTags(*tags)
			return true
		}, nil)}
}

func refDelete(s *spec, in []kit.Item) result {
	del := map[string]bool{}
	for _, t := range s.delTags {
		del[t] = true
	}
	return result{out: perPoint(in, nil, nil, func(h *kit.B) {
		for _, t := range s.delTags {
			delete(h.Tags, t)
		}
	},
		func(_ interface{}, name string, tags *map[string]string, fields *map[string]interface{}, t *time.Time) bool {
			for _, f := range s.delFields {
				delete(*fields, f)
			}
			for _, tg := range s.delTags {
				delete(*tags, tg)
			}
			return true
		}, func(p *kit.P) {
			var nd []string
			for _, d := range p.Dims {
				if !del[d] {
					nd = append(nd, d)
				}
			}
			if nd == nil {
				nd = []string{}
			}
			p.Dims = nd
		})}
}

func refShift(s *spec, in []kit.Item) result {
	var out []kit.Item
	for _, it := range in {
		if it.P != nil {
			p := cloneP(it.P)
			p.Time = p.Time.Add(s.dur)
			out = append(out, kit.Item{P: p})
			continue
		}
		h := cloneBHeader(it.B)
		h.TMax = h.TMax.Add(s.dur)
		for _, bp := range it.B.Points {
			q := cloneBP(bp)
			q.Time = q.Time.Add(s.dur)
			h.Points = append(h.Points, q)
		}
		out = append(out, kit.Item{B: h})
	}
	return result{out: out}
}

func refSample(s *spec, in []kit.Item) result {
	type st struct{ count int64 }
	return result{out: perPoint(in, func() interface{} { return &st{} }, func(x interface{}) { x.(*st).count = 0 }, nil,
		func(x interface{}, name string, tags *map[string]string, fields *map[string]interface{}, t *time.Time) bool {
			c := x.(*st)
			var keep bool
			if s.dur != 0 {
				keep = t.Truncate(s.dur).Equal(*t)
			} else {
				keep = c.count%s.n == 0
			}
			c.count++
			return keep
		}, nil)}
}

func num(v interface{}) (float64, bool) {
	switch n := v.(type) {
	case int64:
		return float64(n), true
	case float64:
		return n, true
	}
	return 0, false
}

func refDerivative(s *spec, in []kit.Item) result {
	type st struct {
		has bool
		v   float64
		t   time.Time
	}
	var res result
	res.out = perPoint(in, func() interface{} { return &st{} }, func(x interface{}) { x.(*st).has = false }, nil,
		func(x interface{}, name string, tags *map[string]string, fields *map[string]interface{}, t *time.Time) bool {
			p := x.(*st)
			cur, ok := num((*fields)[s.field])
			if !ok {
				res.errs++
				return false
			}
			prev := *p
			p.has, p.v, p.t = true, cur, *t
			if !prev.has {
				return false
			}
			el := float64(t.Sub(prev.t))
			if el == 0 {
				res.errs++
				return false
			}
			diff := cur - prev.v
			if s.nonNeg && diff < 0 {
				return false
			}
			(*fields)[s.asName] = diff / (el / float64(s.unit))
			return true
		}, nil)
	return res
}

func refChangeDetect(s *spec, in []kit.Item) result {
	type st struct{ prev map[string]interface{} }
	var res result
	res.out = perPoint(in, func() interface{} { return &st{} }, func(x interface{}) { x.(*st).prev = nil }, nil,
		func(x interface{}, name string, tags *map[string]string, fields *map[string]interface{}, t *time.Time) bool {
			p := x.(*st)
			changed := false
			for _, f := range s.cdFields {
				v, ok := (*fields)[f]
				if !ok {
					res.errs++
					continue
				}
				if p.prev[f] != v {
					changed = true
					break
				}
			}
			if changed {
				p.prev = copyFields(*fields)
			}
			return changed
		}, nil)
	return res
}

func refState(s *spec, in []kit.Item) result {
	type st struct {
		e     stateful.Expression
		count int64
		start time.Time
		in    bool
	}
	var res result
	res.out = perPoint(in, func() interface{} { return &st{e: compile(s.lambdas[0])} }, func(x interface{}) { p := x.(*st); p.count, p.in = 0, false }, nil,
		func(x interface{}, name string, tags *map[string]string, fields *map[string]interface{}, t *time.Time) bool {
			p := x.(*st)
			ok, err := evalPred(p.e, s.refs[0], *tags, *fields, *t)
			if err != nil {
				res.errs++
				return false
			}
			if s.kind == "stateCount" {
				if !ok {
					p.count = 0
					(*fields)[s.asName] = int64(-1)
				} else {
					p.count++
					(*fields)[s.asName] = p.count
				}
				return true
			}
			if !ok {
				p.in = false
				(*fields)[s.asName] = float64(-1)
				return true
			}
			if !p.in {
				p.in = true
				p.start = *t
			}
			(*fields)[s.asName] = float64(t.Sub(p.start)) / float64(s.unit)
			return true
		}, nil)
	return res
}

// ---- flatten

func (s *spec) flattenFields(pts []kit.BP, errs *int) map[string]interface{} {
	fields := map[string]interface{}{}
POINTS:
	for _, p := range pts {
		var prefix []string
		for _, d := range s.on {
			v, ok := p.Tags[d]
			if !ok {
				*errs++
				continue POINTS
			}
			prefix = append(prefix, v)
		}
		pre := strings.Join(prefix, s.delim)
		for fname, v := range p.Fields {
			key := pre
			if !s.drop {
				if len(pre) > 0 {
					key += s.delim
				}
				key += fname
			}
			fields[key] = v
		}
	}
	return fields
}

func refFlatten(s *spec, in []kit.Item) result {
	type st struct {
		name   string
		dims   []string
		byName bool
		gtags  map[string]string
		time   time.Time
		has    bool
		pts    []kit.BP
	}
	var res result
	states := map[string]*st{}
	ambiguous := false
	for _, it := range in {
		if it.P != nil {
			p := it.P
			g := states[p.Group]
			t := p.Time.Round(s.tol)
			if g == nil {
				gt := map[string]string{}
				for _, d := range p.Dims {
					gt[d] = p.Tags[d]
				}
				g = &st{name: p.Name, dims: append([]string{}, p.Dims...), byName: p.ByName, gtags: gt, time: t, has: true}
				states[p.Group] = g
			}
			if !t.Equal(g.time) {
				if len(g.pts) > 0 {
					f := s.flattenFields(g.pts, &res.errs)
					if dupKeys(s, g.pts) {
						ambiguous = true
					}
					if len(f) > 0 {
						np := &kit.P{Name: g.name, Dims: append([]string{}, g.dims...), ByName: g.byName, Tags: copyTags(g.gtags), Fields: f, Time: g.time}
						np.Group = toGroupID(np.Name, np.Tags, np.Dims, np.ByName)
						res.out = append(res.out, kit.Item{P: np})
					}
					g.pts = nil
				}
				g.time = t
			}
			g.pts = append(g.pts, kit.BP{Tags: p.Tags, Fields: p.Fields, Time: t})
			continue
		}
		b := it.B
		h := cloneBHeader(b)
		var cur []kit.BP
		var curT time.Time
		flush := func() {
			if len(cur) == 0 {
				return
			}
			if dupKeys(s, cur) {
				ambiguous = true
			}
			f := s.flattenFields(cur, &res.errs)
			cur = nil
			if len(f) > 0 {
				h.Points = append(h.Points, kit.BP{Tags: copyTags(b.Tags), Fields: f, Time: curT})
			}
		}
		for _, bp := range b.Points {
			t := bp.Time.Round(s.tol)
			if len(cur) > 0 && !t.Equal(curT) {
				flush()
			}
			curT = t
			cur = append(cur, bp)
		}
		flush()
		res.out = append(res.out, kit.Item{B: h})
	}
	// what is still buffered at the end of a stream is not flushed (undocumented either way)
	var gs []string
	for g := range states {
		gs = append(gs, g)
	}
	sort.Strings(gs)
	for _, gk := range gs {
		g := states[gk]
		if len(g.pts) > 0 {
			f := s.flattenFields(g.pts, new(int))
			if len(f) > 0 {
				np := &kit.P{Name: g.name, Dims: append([]string{}, g.dims...), ByName: g.byName, Tags: copyTags(g.gtags), Fields: f, Time: g.time}
				np.Group = toGroupID(np.Name, np.Tags, np.Dims, np.ByName)
				res.optionalTail = append(res.optionalTail, kit.Item{P: np})
			}
		}
	}
	if ambiguous {
		// two fields of one point map to the same flattened field name: which one wins is not defined
		res.skip = "ambiguous flatten (duplicate flattened keys)"
	}
	return res
}

// dupKeys: two fields of ONE point map to the same flattened key with different values (only
// possible with dropOriginalFieldName); between points the later point wins.
func dupKeys(s *spec, pts []kit.BP) bool {
	if !s.drop {
		return false
	}
	for _, p := range pts {
		ok := true
		for _, d := range s.on {
			if _, has := p.Tags[d]; !has {
				ok = false
			}
		}
		if !ok {
			continue
		}
		first := ""
		i := 0
		for _, v := range p.Fields {
			sv := fmt.Sprintf("%T:%v", v, v)
			if i > 0 && sv != first {
				return true
			}
			first = sv
			i++
		}
	}
	return false
}

// ---- combine

func choose(n, k int64) int64 {
	if n < k {
		return -1
	}
	c := int64(1)
	for i := int64(0); i < k; i++ {
		c = c * (n - i) / (i + 1)
	}
	return c
}

func refCombine(s *spec, in []kit.Item) result {
	type st struct {
		name   string
		dims   []string
		byName bool
		es     []stateful.Expression
		time   time.Time
		pts    []kit.BP
	}
	var res result
	states := map[string]*st{}
	k := len(s.lambdas)
	emit := func(g *st, tail bool) {
		if len(g.pts) == 0 {
			return
		}
		n := len(g.pts)
		matches := make([][]bool, k)
		for i := 0; i < k; i++ {
			matches[i] = make([]bool, n)
		}
		for idx, p := range g.pts {
			for i := 0; i < k; i++ {
				ok, err := evalPred(g.es[i], s.refs[i], p.Tags, p.Fields, p.Time)
				if err != nil {
					res.errs++
				}
				matches[i][idx] = ok && err == nil
			}
		}
		cnt := choose(int64(n), int64(k))
		if cnt == -1 {
			return
		}
		if cnt > s.max {
			// documented: an error is logged and the combinations are not calculated
			res.errs++
			return
		}
		isDim := map[string]bool{}
		for _, d := range g.dims {
			isDim[d] = true
		}
		idx := make([]int, k)
		for i := range idx {
			idx[i] = i
		}
		for {
			rem := append([]int{}, idx...)
			set := make([]kit.BP, k)
			valid := true
			for sidx := 0; sidx < k && valid; sidx++ {
				found := false
				for i := range rem {
					if matches[sidx][rem[i]] {
						set[sidx] = g.pts[rem[i]]
						rem = append(rem[:i], rem[i+1:]...)
						found = true
						break
					}
				}
				if !found {
					valid = false
				}
			}
			if valid {
				fields := map[string]interface{}{}
				tags := map[string]string{}
				for i, p := range set {
					for f, v := range p.Fields {
						fields[s.as[i]+s.delim+f] = v
					}
					for tg, v := range p.Tags {
						if isDim[tg] {
							tags[tg] = v
						} else {
							tags[s.as[i]+s.delim+tg] = v
						}
					}
				}
				np := &kit.P{Name: g.name, Dims: append([]string{}, g.dims...), ByName: g.byName, Tags: tags, Fields: fields, Time: set[0].Time.Round(s.tol)}
				np.Group = toGroupID(np.Name, np.Tags, np.Dims, np.ByName)
				if tail {
					res.optionalTail = append(res.optionalTail, kit.Item{P: np})
				} else {
					res.out = append(res.out, kit.Item{P: np})
				}
			}
			// next combination
			i := k - 1
			for ; i >= 0; i-- {
				if idx[i] != i+n-k {
					break
				}
			}
			if i < 0 {
				break
			}
			idx[i]++
			for j := i + 1; j < k; j++ {
				idx[j] = idx[j-1] + 1
			}
		}
	}
	get := func(group, name string, dims []string, byName bool) *st {
		g := states[group]
		if g == nil {
			g = &st{name: name, dims: append([]string{}, dims...), byName: byName}
			for _, l := range s.lambdas {
				g.es = append(g.es, compile(l))
			}
			states[group] = g
		}
		return g
	}
	for _, it := range in {
		if it.P != nil {
			p := it.P
			g := get(p.Group, p.Name, p.Dims, p.ByName)
			t := p.Time.Round(s.tol)
			if len(g.pts) > 0 && !t.Equal(g.time) {
				emit(g, false)
				g.pts = nil
			}
			g.time = t
			g.pts = append(g.pts, kit.BP{Tags: p.Tags, Fields: p.Fields, Time: t})
			continue
		}
		b := it.B
		g := get(b.Group, b.Name, b.Dims, b.ByName)
		g.name = b.Name
		g.pts = nil
		for _, bp := range b.Points {
			t := bp.Time.Round(s.tol)
			if len(g.pts) > 0 && !t.Equal(g.time) {
				emit(g, false)
				g.pts = nil
			}
			g.time = t
			g.pts = append(g.pts, kit.BP{Tags: bp.Tags, Fields: bp.Fields, Time: t})
		}
		emit(g, false)
		g.pts = nil
	}
	var gs []string
	for g := range states {
		gs = append(gs, g)
	}
	sort.Strings(gs)
	for _, gk := range gs {
		emit(states[gk], true)
	}
	return res
}

// ---- groupBy

func (s *spec) groupDims(tags map[string]string) []string {
	ex := map[string]bool{}
	for _, e := range s.exclude {
		ex[e] = true
	}
	var src []string
	if s.star {
		src = sortedKeys(tags)
	} else {
		src = append([]string{}, s.dims...)
		sort.Strings(src)
	}
	out := []string{}
	for _, d := range src {
		if !ex[d] {
			out = append(out, d)
		}
	}
	return out
}

func refGroupBy(s *spec, in []kit.Item) result {
	var res result
	type acc struct {
		b     *kit.B
		order int
	}
	pending := map[string]*acc{}
	var lastT time.Time
	flush := func(tail bool) {
		var as []*acc
		for _, a := range pending {
			as = append(as, a)
		}
		sort.Slice(as, func(i, j int) bool { return as[i].order < as[j].order })
		for _, a := range as {
			if !sort.SliceIsSorted(a.b.Points, func(i, j int) bool { return a.b.Points[i].Time.Before(a.b.Points[j].Time) }) {
				res.note("groupby_regrouped_batches_needing_sort")
			}
			sort.SliceStable(a.b.Points, func(i, j int) bool { return a.b.Points[i].Time.Before(a.b.Points[j].Time) })
			if tail {
				res.optionalTail = append(res.optionalTail, kit.Item{B: a.b})
			} else {
				res.out = append(res.out, kit.Item{B: a.b})
			}
		}
		pending = map[string]*acc{}
	}
	n := 0
	for _, it := range in {
		if it.P != nil {
			p := cloneP(it.P)
			p.ByName = s.byName || (s.stickyByName && it.P.ByName) // documented: a groupBy without byMeasurement() removes the measurement from the group
			p.Dims = s.groupDims(p.Tags)
			p.Group = toGroupID(p.Name, p.Tags, p.Dims, p.ByName)
			res.out = append(res.out, kit.Item{P: p})
			continue
		}
		b := it.B
		if !b.TMax.Equal(lastT) {
			lastT = b.TMax
			flush(false)
		}
		byName := s.byName || (s.stickyByName && b.ByName)
		for _, bp := range b.Points {
			dims := s.groupDims(bp.Tags)
			gid := toGroupID(b.Name, bp.Tags, dims, byName)
			a := pending[gid]
			if a == nil {
				gt := map[string]string{}
				for _, d := range dims {
					gt[d] = bp.Tags[d]
				}
				n++
				a = &acc{order: n, b: &kit.B{Name: b.Name, Group: gid, Dims: dims, ByName: byName, Tags: gt, TMax: b.TMax}}
				pending[gid] = a
			}
			a.b.Points = append(a.b.Points, cloneBP(bp))
		}
	}
	flush(true)
	res.unorderedTies = true
	return res
}

// Package c10: per-point and per-group nodes against a reference interpreter.
//
// A generated task is a TREE of the nodes under test below a source; every node has a
// `|log()` sink as one of its children, so (a) the output of every node is observed, (b) the
// observed output of a node's parent is exactly the input that node consumed, and (c) every
// message is shared between at least two consumers (the sink and the sibling nodes), which is
// the situation in which a missing copy becomes observable. Each node is judged on its own:
// reference(node, observed parent output) must equal the observed node output.
package c10

import (
	"fmt"
	"hash/fnv"
	"sort"
	"strings"
	"time"

	"github.com/influxdata/kapacitor/tick/ast"
	"github.com/influxdata/kapacitor/tick/stateful"

	"verifharness/core"
	"verifharness/kit"
	"verifharness/props/c04"
)

type prop struct{}

func init() { core.Register(prop{}) }

func (prop) ID() string    { return "C10" }
func (prop) Level() string { return "exploration" }
func (prop) Rule() string {
	return "tasks = source (stream|from[.groupBy], or the same followed by a time/count window for the batch form) + a random tree of 2-5 nodes drawn from {where, eval(as/tags/keep/keep(list)/quiet, 1-3 lambdas referencing earlier results), default, delete (also of a group dimension), shift(+/-), sample(n|duration), derivative(as/unit/nonNegative), changeDetect(1-2 fields), stateCount, stateDuration(unit), flatten(on/delimiter/tolerance/dropOriginalFieldName), combine(2-3 lambdas, as/delimiter/tolerance/max), groupBy(tags|*|exclude|byMeasurement)}, every node with a sink as sibling of its children; " +
		"inputs = 40-90 points over 2-4 groups (2 tags, hostile tag values), fields of mixed and drifting type (float/int/string/bool), missing fields, repeated and sub-second timestamps, occasionally a second measurement. " +
		"Oracles: (1) per node, reference(node, observed input) == observed output per output group, in order, exact in name, db/rp (stream), group id, dimensions, tags, field names, values AND Go types, time, batch boundaries/tmax; (2) every message at every sink has group id == serialisation of (name, tags, dimensions); (3) every message object retained at a sink is re-read at the end of the run and must still equal the copy taken at receipt (nobody mutated a shared message or a map it references); (4) the task must not end with an error. " +
		"Non-trivial: a (node kind, edge type, parameter shape) check whose node received >= 5 points and whose output is neither empty nor identical to its input (for filters: kept some and dropped some)"
}
func (prop) Assumptions() []string {
	return []string{
		"the VALUE of a lambda is computed with tick/stateful itself (decided by C04); the reference re-implements everything the nodes add: scope filling, per-group expression state, result naming, field/tag/keep assembly, buffering and regrouping",
		"what flatten/combine/batch-groupBy still buffer when the input ends may or may not be flushed (undocumented): both are accepted",
		"sample(n) on a batch edge samples the points inside each batch (the count restarts per batch), as the code does; the documentation's 'or batch' is ambiguous",
		"when two fields of one point map to the same flattened field name (dropOriginalFieldName) the winner is unspecified: such runs are not judged for that node; between points of a bucket the later point wins",
		"equal-time points inside a regrouped batch may come in any order (groupBy sorts by time only)",
	}
}
func (prop) RaceAnchorFiles() []string {
	return []string{"where.go", "eval.go", "default.go", "delete.go", "shift.go", "sample.go", "derivative.go", "change_detect.go", "state_tracking.go", "flatten.go", "combine.go", "group_by.go", "edge/messages.go", "edge/forwarding.go", "expr.go", "log.go", "window.go", "edge/buffered.go", "models/point.go"}
}
func (prop) MinNontrivial(tier string) int {
	if tier == "thorough" {
		return 3000
	}
	return 150
}

func (prop) Cases(tier string, seed uint64) []core.Case {
	n, per, nrace := 64, 40, 6
	if tier == "thorough" {
		n, per, nrace = 320, 150, 48
	}
	var cs []core.Case
	for i := 0; i < n; i++ {
		mode := "stream"
		if i%2 == 1 {
			mode = "batch"
		}
		cs = append(cs, core.Case{ID: fmt.Sprintf("%s-%d", mode, i), Kind: mode, Seed: seed*7919 + uint64(i), N: per})
	}
	// the same workload under the race detector: a node that writes to a message (or a map it
	// references) it shares with its siblings races with them
	for i := 0; i < nrace; i++ {
		mode := "stream"
		if i%2 == 1 {
			mode = "batch"
		}
		cs = append(cs, core.Case{ID: fmt.Sprintf("race-%s-%d", mode, i), Kind: mode, Seed: seed*7927 + uint64(i), N: 15, Race: true})
	}
	return cs
}

var t0 = time.Unix(1600000000, 0).UTC()

// ---- generator

type gen struct {
	r     *core.Rng
	batch bool
}

var predTemplates = []string{
	`"f1" > 0.5`, `"f1" <= 1.0`, `"f1" <= "f2"`, `"i1" % 2 == 0`, `"i1" > 3`, `"s1" == 'a'`, `"s1" =~ /^a/`, `"b1"`, `!"b1"`,
	`"t2" == 'p'`, `"t1" != 'a'`, `isPresent("f2")`, `sigma("f1") > 0.8`, `count() % 2 == 0`, `"f1" > 0.3 AND "i1" < 6`,
	`"f1" > 1.2 OR "f2" > 0.5`, `TRUE`, `spread("f1") < 1.0`, `"i1" / 0 == 1`, `float("i1") > "f1"`, `strLength("s1") == 1`,
}
var valTemplates = []string{
	`"f1" * 2.0`, `"i1" + 1`, `float("i1") / "f1"`, `string("i1")`, `"s1" + '_x'`, `"t1" + "s1"`, `if("b1", "f1", 0.0)`, `sigma("f1")`, `count()`,
	`spread("f1")`, `"f1" - "f2"`, `"i1" / 0`, `"b1" AND "f1" > 0.5`, `"t2"`, `int("f1" * 10.0) % 3`, `string("f1" > 0.5)`,
}

func (g *gen) pred() string {
	if g.r.Chance(0.2) {
		t := c04.GenLambda(g.r, "bool", g.r.Range(1, 2), g.r.Chance(0.4))
		// only lambdas the compiler accepts (the generator does not model every precedence rule)
		if l, err := ast.ParseLambda(t); err == nil {
			if _, err := stateful.NewExpression(l.Expression); err == nil {
				return t
			}
		}
	}
	return g.r.Pick(predTemplates)
}

func q(ss []string) string {
	var o []string
	for _, s := range ss {
		o = append(o, "'"+s+"'")
	}
	return strings.Join(o, ", ")
}

func durLit(d time.Duration) string {
	if d%time.Second == 0 {
		return fmt.Sprintf("%ds", int64(d/time.Second))
	}
	return fmt.Sprintf("%dms", int64(d/time.Millisecond))
}

// node draws one node spec; mangled = field names are no longer the base schema (after
// flatten/combine), so only schema-agnostic nodes are drawn.
func (g *gen) node(mangled, stream bool) *spec {
	r := g.r
	kinds := []string{"where", "eval", "eval", "default", "delete", "shift", "sample", "derivative", "changeDetect", "stateCount", "stateDuration", "flatten", "combine", "groupBy", "groupBy"}
	if mangled {
		kinds = []string{"default", "delete", "shift", "sample", "groupBy"}
	}
	s := &spec{kind: r.Pick(kinds)}
	switch s.kind {
	case "where":
		s.lambdaTexts = []string{g.pred()}
		s.text = "|where(lambda: " + s.lambdaTexts[0] + ")"
	case "eval":
		n := r.Range(1, 3)
		names := []string{"r1", "r2", "r3"}
		if r.Chance(0.2) {
			names[0] = "f2" // result overrides an existing field
		}
		for i := 0; i < n; i++ {
			t := r.Pick(valTemplates)
			if i > 0 && r.Chance(0.5) {
				// reference an earlier result
				t = r.Pick([]string{`string("%s")`, `"%s" == "%s"`, `isPresent("%s")`})
				t = strings.ReplaceAll(t, "%s", names[r.Intn(i)])
			}
			s.lambdaTexts = append(s.lambdaTexts, t)
			s.as = append(s.as, names[i])
		}
		var ls []string
		for _, t := range s.lambdaTexts {
			ls = append(ls, "lambda: "+t)
		}
		s.text = "|eval(" + strings.Join(ls, ", ") + ").as(" + q(s.as) + ")"
		if r.Chance(0.35) {
			// tag results: prefer string valued ones, sometimes a non-string (error path)
			tg := s.as[r.Intn(n)]
			s.tags = []string{tg}
			s.text += ".tags(" + q(s.tags) + ")"
		}
		switch r.Intn(4) {
		case 0:
			s.keep = true
			s.text += ".keep()"
		case 1:
			s.keep = true
			pool := append([]string{"f1", "i1", "s1", "f2", "nosuch"}, s.as...)
			k := r.Range(1, 3)
			for i := 0; i < k; i++ {
				s.keepList = append(s.keepList, r.Pick(pool))
			}
			s.keepList = uniq(s.keepList)
			s.text += ".keep(" + q(s.keepList) + ")"
		}
		if r.Chance(0.3) {
			s.quiet = true
			s.text += ".quiet()"
		}
	case "default":
		s.defFields = map[string]interface{}{}
		s.defTags = map[string]string{}
		s.text = "|default()"
		if r.Chance(0.8) {
			s.defFields["f2"] = 1.5
			s.text += ".field('f2', 1.5)"
		}
		if r.Chance(0.4) {
			s.defFields["n"] = int64(7)
			s.text += ".field('n', 7)"
		}
		if r.Chance(0.3) {
			s.defFields["s1"] = "dflt"
			s.text += ".field('s1', 'dflt')"
		}
		if r.Chance(0.6) {
			s.defTags["t2"] = "dflt"
			s.text += ".tag('t2', 'dflt')"
		}
		if r.Chance(0.3) {
			s.defTags["t9"] = "z"
			s.text += ".tag('t9', 'z')"
		}
		if r.Chance(0.3) {
			s.defTags["t1"] = "one"
			s.text += ".tag('t1', 'one')"
		}
	case "delete":
		s.text = "|delete()"
		for _, f := range []string{"f2", "s1", "nosuch"} {
			if r.Chance(0.45) {
				s.delFields = append(s.delFields, f)
				s.text += ".field('" + f + "')"
			}
		}
		for _, t := range []string{"t2", "t1", "t9"} {
			if r.Chance(0.4) {
				s.delTags = append(s.delTags, t)
				s.text += ".tag('" + t + "')"
			}
		}
	case "shift":
		s.dur = []time.Duration{5 * time.Second, -3 * time.Second, 250 * time.Millisecond, time.Hour}[r.Intn(4)]
		s.text = "|shift(" + durLit(s.dur) + ")"
	case "sample":
		if r.Chance(0.5) {
			s.n = int64(r.Range(1, 4))
			s.text = fmt.Sprintf("|sample(%d)", s.n)
		} else {
			s.dur = []time.Duration{2 * time.Second, time.Second, 5 * time.Second}[r.Intn(3)]
			s.text = "|sample(" + durLit(s.dur) + ")"
		}
	case "derivative":
		s.field = r.Pick([]string{"f1", "f1", "i1", "f2", "s1"})
		s.asName = s.field
		s.unit = time.Second
		s.text = "|derivative('" + s.field + "')"
		if r.Chance(0.5) {
			s.asName = "d"
			s.text += ".as('d')"
		}
		if r.Chance(0.5) {
			s.unit = []time.Duration{10 * time.Second, time.Minute, 100 * time.Millisecond}[r.Intn(3)]
			s.text += ".unit(" + durLit(s.unit) + ")"
		}
		if r.Chance(0.4) {
			s.nonNeg = true
			s.text += ".nonNegative()"
		}
	case "changeDetect":
		s.cdFields = []string{r.Pick([]string{"s1", "i1", "b1", "f1"})}
		if r.Chance(0.4) {
			s.cdFields = uniq(append(s.cdFields, r.Pick([]string{"s1", "i1", "f2", "nosuch"})))
		}
		s.text = "|changeDetect(" + q(s.cdFields) + ")"
	case "stateCount":
		s.lambdaTexts = []string{g.pred()}
		s.asName = "state_count"
		s.text = "|stateCount(lambda: " + s.lambdaTexts[0] + ")"
		if r.Chance(0.4) {
			s.asName = "sc"
			s.text += ".as('sc')"
		}
	case "stateDuration":
		s.lambdaTexts = []string{g.pred()}
		s.asName = "state_duration"
		s.unit = time.Second
		s.text = "|stateDuration(lambda: " + s.lambdaTexts[0] + ")"
		if r.Chance(0.4) {
			s.asName = "sd"
			s.text += ".as('sd')"
		}
		if r.Chance(0.4) {
			s.unit = []time.Duration{time.Minute, 100 * time.Millisecond}[r.Intn(2)]
			s.text += ".unit(" + durLit(s.unit) + ")"
		}
	case "flatten":
		s.on = []string{"t2"}
		if r.Chance(0.3) {
			s.on = []string{"t2", "t1"}
		}
		if r.Chance(0.15) {
			s.on = []string{"t9"}
		}
		s.delim = "."
		s.text = "|flatten().on(" + q(s.on) + ")"
		if r.Chance(0.4) {
			s.delim = r.Pick([]string{"_", "", "::"})
			s.text += ".delimiter('" + s.delim + "')"
		}
		if r.Chance(0.5) {
			s.tol = []time.Duration{time.Second, 2 * time.Second, 500 * time.Millisecond}[r.Intn(3)]
			s.text += ".tolerance(" + durLit(s.tol) + ")"
		}
		if r.Chance(0.25) {
			s.drop = true
			s.text += ".dropOriginalFieldName()"
		}
	case "combine":
		k := r.Range(2, 3)
		names := []string{"x", "y", "z"}
		var ls []string
		for i := 0; i < k; i++ {
			t := r.Pick([]string{`TRUE`, `TRUE`, `"t2" == 'p'`, `"t2" == 'q'`, `"f1" > 0.5`, `"s1" == 'a'`, `"f2" > 0.0`})
			s.lambdaTexts = append(s.lambdaTexts, t)
			s.as = append(s.as, names[i])
			ls = append(ls, "lambda: "+t)
		}
		s.delim = "."
		s.max = 10000
		s.text = "|combine(" + strings.Join(ls, ", ") + ").as(" + q(s.as) + ")"
		if r.Chance(0.3) {
			s.delim = r.Pick([]string{"_", "::"})
			s.text += ".delimiter('" + s.delim + "')"
		}
		if r.Chance(0.5) {
			s.tol = []time.Duration{time.Second, 2 * time.Second, 500 * time.Millisecond}[r.Intn(3)]
			s.text += ".tolerance(" + durLit(s.tol) + ")"
		}
		if r.Chance(0.25) {
			s.max = int64(r.Range(1, 4))
			s.text += fmt.Sprintf(".max(%d)", s.max)
		}
	case "groupBy":
		switch r.Intn(4) {
		case 0:
			s.dims = []string{"t2"}
			s.text = "|groupBy('t2')"
		case 1:
			s.dims = []string{"t2", "t1"}
			s.text = "|groupBy('t2', 't1')"
		case 2:
			s.star = true
			s.text = "|groupBy(*)"
		default:
			s.text = "|groupBy()"
		}
		if s.star && r.Chance(0.6) {
			s.exclude = []string{r.Pick([]string{"t1", "t2", "t9"})}
			s.text += ".exclude(" + q(s.exclude) + ")"
		}
		if r.Chance(0.25) {
			s.byName = true
			s.text += ".byMeasurement()"
		}
	}
	return s
}

func uniq(ss []string) []string {
	seen := map[string]bool{}
	var o []string
	for _, s := range ss {
		if !seen[s] {
			seen[s] = true
			o = append(o, s)
		}
	}
	return o
}

type inPoint struct {
	name   string
	tags   map[string]string
	fields map[string]interface{}
	t      time.Time
}

func (g *gen) input() []inPoint {
	r := g.r
	n := r.Range(40, 90)
	t1s := []string{"a", "b", "c c", "x,y=z"}[:r.Range(2, 4)]
	t2s := []string{"p", "q", "r"}[:r.Range(2, 3)]
	twoNames := r.Chance(0.15)
	subSecond := r.Chance(0.4)
	drift := r.Pick([]string{"none", "none", "int", "string"})
	tm := t0
	var pts []inPoint
	for i := 0; i < n; i++ {
		switch r.Intn(5) {
		case 0: // same timestamp
		case 1, 2:
			tm = tm.Add(time.Second)
		case 3:
			tm = tm.Add(time.Duration(r.Range(1, 4)) * time.Second)
		default:
			if subSecond {
				tm = tm.Add(time.Duration(r.Range(1, 9)) * 100 * time.Millisecond)
			} else {
				tm = tm.Add(time.Second)
			}
		}
		p := inPoint{name: "m", tags: map[string]string{"t1": r.Pick(t1s)}, fields: map[string]interface{}{}, t: tm}
		if twoNames && r.Chance(0.3) {
			p.name = "n"
		}
		if !r.Chance(0.1) {
			p.tags["t2"] = r.Pick(t2s)
		}
		f1 := float64(r.Intn(9)) / 4
		switch {
		case r.Chance(0.07):
			// missing
		case drift == "int" && i > n/2:
			p.fields["f1"] = int64(f1 * 4)
		case drift == "string" && r.Chance(0.15):
			p.fields["f1"] = "oops"
		default:
			p.fields["f1"] = f1
		}
		if r.Chance(0.6) {
			p.fields["f2"] = float64(r.Intn(5)) / 2
		}
		p.fields["i1"] = int64(r.Intn(10))
		p.fields["s1"] = r.Pick([]string{"a", "a", "ab", "b"})
		p.fields["b1"] = r.Chance(0.6)
		pts = append(pts, p)
	}
	return pts
}

// ---- run

func (prop) Run(x *core.Ctx) {
	r := core.NewRng(x.Case.Seed, 10)
	for i := 0; i < x.Case.N; i++ {
		runOne(x, r, x.Case.Kind == "batch")
		if x.NumViolations() > 400 {
			return
		}
	}
}

func runOne(x *core.Ctx, r *core.Rng, batch bool) {
	g := &gen{r: r, batch: batch}
	src := "stream|from()"
	if r.Chance(0.85) {
		src += ".measurement('m')"
	}
	switch r.Intn(4) {
	case 0:
	case 1:
		src += ".groupBy('t1')"
	case 2:
		src += ".groupBy('t1', 't2')"
	default:
		src += ".groupBy('t1').groupByMeasurement()"
	}
	if batch {
		if r.Chance(0.5) {
			p := r.Range(3, 8)
			src += fmt.Sprintf("|window().period(%ds).every(%ds)", p, p)
			if r.Chance(0.5) {
				src += ".align()"
			}
		} else {
			k := r.Range(3, 7)
			src += fmt.Sprintf("|window().periodCount(%d).everyCount(%d)", k, k)
		}
	}
	nn := r.Range(2, 5)
	profile := ""
	specs := []*spec{nil} // index 0 = source
	isStream := []bool{!batch}
	mangled := []bool{false}
	script := "var n0 = " + src + "\nn0|log().prefix('0')\n"
	for k := 1; k <= nn; k++ {
		parent := r.Intn(k)
		if r.Chance(0.5) {
			parent = k - 1
		}
		s := g.node(mangled[parent], isStream[parent])
		s.parent = parent
		if s.kind == "shift" && specs[parent] != nil && specs[parent].kind == "shift" {
			profile = "[shift-under-shift] "
		}
		if err := s.parse(); err != nil {
			x.Inconclusive(err.Error())
			return
		}
		specs = append(specs, s)
		isStream = append(isStream, isStream[parent] || s.kind == "combine")
		mangled = append(mangled, mangled[parent] || s.kind == "combine" || s.kind == "flatten")
		script += fmt.Sprintf("var n%d = n%d%s\nn%d|log().prefix('%d')\n", k, parent, s.text, k, k)
	}
	if !x.Announce(script) {
		return
	}
	x.Count("evaluations", 1)
	env, err := kit.NewEnv(kit.EnvOpts{Scratch: x.Scratch, NoAlert: true})
	if err != nil {
		x.Inconclusive(err.Error())
		return
	}
	env.Rec.KeepLive = true
	et, err := env.StartStream("T", script, nil)
	if err != nil {
		env.Close()
		x.Violatef("valid-script-rejected", profile+"script rejected: "+firstWords(err.Error(), 6), script, "a generated valid task was rejected: %v\n%s", err, script)
		return
	}
	in := g.input()
	for _, p := range in {
		if err := env.Write(kit.Point(p.name, p.tags, p.fields, p.t)); err != nil {
			break
		}
	}
	x.Count("points_written", int64(len(in)))
	werr := env.DrainWait(et)
	sinks := make([][]kit.Item, len(specs))
	for k := range specs {
		sinks[k] = env.Rec.Sink(fmt.Sprint(k)).Items()
	}
	env.Close()
	mode := "stream"
	if batch {
		mode = "batch"
	}
	if werr != nil {
		x.Violatef("task-died", mode+": "+normErr(werr.Error()), script, "the task ended with an error on valid data: %v\nscript:\n%s", clipS(werr.Error(), 1500), script)
		// the outputs observed before the death are still judged below
	}
	// oracle 2+3 on every sink
	for k := range specs {
		kind := "source"
		if specs[k] != nil {
			kind = specs[k].kind
		}
		for i, it := range sinks[k] {
			if d := it.LiveDiff(); d != "" {
				x.Violatef("shared-message-mutated", fmt.Sprintf("%s/%s output mutated after it was forwarded (siblings: %s)", kind, mode, siblings(specs, k)), script, "message %d emitted by node n%d (%s) changed after the sink had received it: %s\nscript:\n%s", i, k, kind, d, script)
				break
			}
		}
		for i, it := range sinks[k] {
			var got, want string
			if it.P != nil {
				got, want = it.P.Group, toGroupID(it.P.Name, it.P.Tags, it.P.Dims, it.P.ByName)
			} else {
				got, want = it.B.Group, toGroupID(it.B.Name, it.B.Tags, it.B.Dims, it.B.ByName)
			}
			x.Count("group_ids_checked", 1)
			if got != want {
				x.Violatef("group-id-inconsistent", fmt.Sprintf("%s/%s emits a message whose group id does not match its name/tags/dimensions", kind, mode), script, "message %d of n%d (%s): group id %q, but name/tags/dimensions give %q (%s)\nscript:\n%s", i, k, kind, got, want, itemStr(it), script)
				break
			}
		}
	}
	// oracle 1 per node
	for k := 1; k < len(specs); k++ {
		s := specs[k]
		input := sinks[s.parent]
		res := apply(s, input)
		em := "stream"
		if !isStream[s.parent] {
			em = "batch"
		}
		x.Count("node_checks", 1)
		x.Count("node_checks_"+s.kind+"_"+em, 1)
		for k, v := range res.notes {
			x.Count(k, int64(v))
		}
		if res.skip != "" {
			x.Count("node_checks_not_judged", 1)
			continue
		}
		if werr != nil && len(sinks[k]) < len(res.out) {
			// the task died: a truncated output is a consequence, already reported
			continue
		}
		if d := compare(res, sinks[k]); d != "" {
			prof := ""
			if s.kind == "groupBy" && !s.byName && anyByName(input) {
				// exactly the known deviation (measurement grouping is sticky) and nothing else?
				s.stickyByName = true
				d2 := compare(apply(s, input), sinks[k])
				s.stickyByName = false
				if d2 == "" {
					prof = "[groupBy-after-byMeasurement] "
				} else {
					d = d2
				}
			}
			x.Violatef("node-output-mismatch", prof+fmt.Sprintf("%s/%s: %s", s.kind, em, diffClass(d)), script,
				"node n%d = n%d%s on a %s edge: %s\ninput items: %d, expected items: %d (+%d optional), observed: %d\nscript:\n%s", k, s.parent, s.text, em, d, len(input), len(res.out), len(res.optionalTail), len(sinks[k]), script)
			continue
		}
		if np := countPoints(input); np >= 5 {
			outN := countPoints(sinks[k])
			if outN > 0 && !sameItems(input, sinks[k]) {
				x.Nontrivial(fmt.Sprintf("%s|%s|%s|%d", s.kind, em, shape(s), bucket(outN)))
			}
		}
	}
}

func anyByName(items []kit.Item) bool {
	for _, it := range items {
		if (it.P != nil && it.P.ByName) || (it.B != nil && it.B.ByName) {
			return true
		}
	}
	return false
}

func siblings(specs []*spec, k int) string {
	var o []string
	for j := 1; j < len(specs); j++ {
		if specs[j].parent == k {
			o = append(o, specs[j].kind)
		}
	}
	sort.Strings(o)
	return strings.Join(uniq(o), ",")
}

func bucket(n int) int {
	switch {
	case n < 5:
		return 0
	case n < 20:
		return 1
	}
	return 2
}

func shape(s *spec) string {
	h := fnv.New32a()
	// the script text with digits folded: parameter shape
	t := s.text
	h.Write([]byte(t))
	return fmt.Sprintf("%08x", h.Sum32())
}

func countPoints(items []kit.Item) int {
	n := 0
	for _, it := range items {
		if it.P != nil {
			n++
		} else {
			n += len(it.B.Points)
		}
	}
	return n
}

func sameItems(a, b []kit.Item) bool {
	if len(a) != len(b) {
		return false
	}
	for i := range a {
		if itemStr(a[i]) != itemStr(b[i]) {
			return false
		}
	}
	return true
}

func fieldsStr(f map[string]interface{}) string {
	ks := make([]string, 0, len(f))
	for k := range f {
		ks = append(ks, k)
	}
	sort.Strings(ks)
	var o []string
	for _, k := range ks {
		o = append(o, fmt.Sprintf("%s=%T:%v", k, f[k], f[k]))
	}
	return strings.Join(o, " ")
}
func tagsStr(t map[string]string) string {
	var o []string
	for _, k := range sortedKeys(t) {
		o = append(o, fmt.Sprintf("%s=%q", k, t[k]))
	}
	return strings.Join(o, ",")
}

func pStr(p *kit.P) string {
	return fmt.Sprintf("point{%s db=%q rp=%q group=%q dims=%v byName=%v tags[%s] fields[%s] t=%s}", p.Name, p.DB, p.RP, p.Group, p.Dims, p.ByName, tagsStr(p.Tags), fieldsStr(p.Fields), p.Time.UTC().Format("15:04:05.000"))
}
func bpStr(p kit.BP) string {
	return fmt.Sprintf("{tags[%s] fields[%s] t=%s}", tagsStr(p.Tags), fieldsStr(p.Fields), p.Time.UTC().Format("15:04:05.000"))
}
func bHdrStr(b *kit.B) string {
	return fmt.Sprintf("batch{%s group=%q dims=%v byName=%v tags[%s] tmax=%s n=%d}", b.Name, b.Group, b.Dims, b.ByName, tagsStr(b.Tags), b.TMax.UTC().Format("15:04:05.000"), len(b.Points))
}
func itemStr(it kit.Item) string {
	if it.P != nil {
		return pStr(it.P)
	}
	var o []string
	for _, p := range it.B.Points {
		o = append(o, bpStr(p))
	}
	return bHdrStr(it.B) + "[" + strings.Join(o, " ") + "]"
}

func groupOf(it kit.Item) string {
	if it.P != nil {
		return "P:" + it.P.Group
	}
	return "B:" + it.B.Group
}

// compare expected (with optional tail) and observed per output group, in order.
func compare(res result, got []kit.Item) string {
	exp := map[string][]kit.Item{}
	opt := map[string][]kit.Item{}
	obs := map[string][]kit.Item{}
	var order []string
	seen := map[string]bool{}
	add := func(g string) {
		if !seen[g] {
			seen[g] = true
			order = append(order, g)
		}
	}
	for _, it := range res.out {
		exp[groupOf(it)] = append(exp[groupOf(it)], it)
		add(groupOf(it))
	}
	for _, it := range res.optionalTail {
		opt[groupOf(it)] = append(opt[groupOf(it)], it)
		add(groupOf(it))
	}
	for _, it := range got {
		obs[groupOf(it)] = append(obs[groupOf(it)], it)
		add(groupOf(it))
	}
	for _, g := range order {
		e, o := exp[g], obs[g]
		for i := 0; i < len(e) || i < len(o); i++ {
			switch {
			case i >= len(o):
				return fmt.Sprintf("missing output: group %q item %d expected %s, but the node emitted only %d item(s) for that group", g, i, itemStr(e[i]), len(o))
			case i >= len(e):
				// may be the optional tail
				j := i - len(e)
				if j < len(opt[g]) && itemEq(opt[g][j], o[i], res.unorderedTies) == "" {
					continue
				}
				return fmt.Sprintf("unexpected output: group %q item %d %s (expected only %d item(s) for that group)", g, i, itemStr(o[i]), len(e))
			default:
				if d := itemEq(e[i], o[i], res.unorderedTies); d != "" {
					return fmt.Sprintf("wrong output: group %q item %d: %s\n  expected %s\n  observed %s", g, i, d, itemStr(e[i]), itemStr(o[i]))
				}
			}
		}
	}
	return ""
}

func itemEq(e, o kit.Item, unorderedTies bool) string {
	if (e.P != nil) != (o.P != nil) {
		return "message type differs (point vs batch)"
	}
	if e.P != nil {
		a, b := e.P, o.P
		switch {
		case a.Name != b.Name:
			return "name differs"
		case a.DB != b.DB || a.RP != b.RP:
			return "database/retention policy differs"
		case !a.Time.Equal(b.Time):
			return "time differs"
		case fmt.Sprint(a.Dims) != fmt.Sprint(b.Dims) || a.ByName != b.ByName:
			return "dimensions differ"
		case a.Group != b.Group:
			return "group id differs"
		case tagsStr(a.Tags) != tagsStr(b.Tags):
			return "tags differ"
		case fieldsStr(a.Fields) != fieldsStr(b.Fields):
			return "fields differ"
		}
		return ""
	}
	a, b := e.B, o.B
	switch {
	case a.Name != b.Name:
		return "batch name differs"
	case !a.TMax.Equal(b.TMax):
		return "batch tmax differs"
	case fmt.Sprint(a.Dims) != fmt.Sprint(b.Dims) || a.ByName != b.ByName:
		return "batch dimensions differ"
	case a.Group != b.Group:
		return "batch group id differs"
	case tagsStr(a.Tags) != tagsStr(b.Tags):
		return "batch tags differ"
	case len(a.Points) != len(b.Points):
		return fmt.Sprintf("batch point count differs (expected %d, observed %d)", len(a.Points), len(b.Points))
	}
	ap, bp := a.Points, b.Points
	if unorderedTies {
		ap, bp = sortTies(ap), sortTies(bp)
	}
	for i := range ap {
		switch {
		case !ap[i].Time.Equal(bp[i].Time):
			return fmt.Sprintf("batch point %d time differs", i)
		case tagsStr(ap[i].Tags) != tagsStr(bp[i].Tags):
			return fmt.Sprintf("batch point %d tags differ", i)
		case fieldsStr(ap[i].Fields) != fieldsStr(bp[i].Fields):
			return fmt.Sprintf("batch point %d fields differ", i)
		}
	}
	return ""
}

// sortTies orders only the points inside each run of consecutive equal timestamps; the sequence
// of timestamps itself is left as it is.
func sortTies(ps []kit.BP) []kit.BP {
	o := append([]kit.BP{}, ps...)
	for i := 0; i < len(o); {
		j := i + 1
		for j < len(o) && o[j].Time.Equal(o[i].Time) {
			j++
		}
		run := o[i:j]
		sort.SliceStable(run, func(a, b int) bool { return bpStr(run[a]) < bpStr(run[b]) })
		i = j
	}
	return o
}

func diffClass(d string) string {
	// first line, digits and quoted parts folded
	if i := strings.Index(d, "\n"); i >= 0 {
		d = d[:i]
	}
	var b strings.Builder
	inQ := false
	for _, c := range d {
		switch {
		case c == '"':
			inQ = !inQ
			if inQ {
				b.WriteString("\"..\"")
			}
		case inQ:
		case c >= '0' && c <= '9':
			b.WriteByte('#')
		default:
			b.WriteRune(c)
		}
	}
	s := b.String()
	for strings.Contains(s, "##") {
		s = strings.ReplaceAll(s, "##", "#")
	}
	if i := strings.Index(s, " expected "); i > 0 {
		s = s[:i]
	}
	if i := strings.Index(s, " point{"); i > 0 {
		s = s[:i]
	}
	if i := strings.Index(s, " batch{"); i > 0 {
		s = s[:i]
	}
	return clipS(s, 120)
}

func normErr(s string) string {
	if i := strings.Index(s, "Trace:"); i > 0 {
		s = s[:i]
	}
	var b strings.Builder
	for _, c := range s {
		if c >= '0' && c <= '9' {
			b.WriteByte('#')
		} else {
			b.WriteRune(c)
		}
	}
	o := b.String()
	for strings.Contains(o, "##") {
		o = strings.ReplaceAll(o, "##", "#")
	}
	return clipS(o, 140)
}

func clipS(s string, n int) string {
	if len(s) > n {
		return s[:n] + "…"
	}
	return s
}

func firstWords(s string, n int) string {
	w := strings.Fields(s)
	if len(w) > n {
		w = w[:n]
	}
	return strings.Join(w, " ")
}

package c16

import (
	"fmt"
	"strings"
	"time"

	"github.com/influxdata/influxql"
	"github.com/influxdata/kapacitor"

	"verifharness/core"
	"verifharness/kit"
)

// Sub-monitor "dbrp": a task may only query the database/retention policies it declared.
// Tasks with 1-3 query nodes, each reading 1-3 sources drawn from a 3x2 pool of (db, rp) pairs,
// are declared with a random subset of the pool. Oracle: the task yields its queries (historical
// list, and live start) iff EVERY source pair of EVERY query node is declared; and whenever
// queries are handed out, each of them reads declared pairs only.
var dbPool = []string{"telegraf", "metrics", "my db"}
var rpPool = []string{"autogen", "restricted"}

func runDBRP(x *core.Ctx, r *core.Rng, live bool) {
	type pair struct{ db, rp string }
	var pool []pair
	for _, d := range dbPool {
		for _, p := range rpPool {
			pool = append(pool, pair{d, p})
		}
	}
	nd := r.Range(1, 3)
	declared := map[pair]bool{}
	var dbrps []kapacitor.DBRP
	for len(declared) < nd {
		p := pool[r.Intn(len(pool))]
		if !declared[p] {
			declared[p] = true
			dbrps = append(dbrps, kapacitor.DBRP{Database: p.db, RetentionPolicy: p.rp})
		}
	}
	var decl []pair
	for _, d := range dbrps {
		decl = append(decl, pair{d.Database, d.RetentionPolicy})
	}
	nq := r.Range(1, 3)
	allowed := true
	subq := false
	firstBad := ""
	script := ""
	var names []string
	for qi := 0; qi < nq; qi++ {
		ns := r.Range(1, 3)
		var srcs []string
		for si := 0; si < ns; si++ {
			var p pair
			if r.Chance(0.75) {
				p = decl[r.Intn(len(decl))]
			} else {
				p = pool[r.Intn(len(pool))]
			}
			if !declared[p] {
				allowed = false
				if firstBad == "" {
					firstBad = fmt.Sprintf("query %d source %d", qi, si)
				}
			}
			src := fmt.Sprintf("\"%s\".\"%s\".\"%s\"", p.db, p.rp, []string{"cpu", "mem"}[r.Intn(2)])
			if r.Chance(0.15) {
				// the pair is read inside a subquery (whether subqueries are supported at all is
				// not judged; reading an undeclared pair through one must not be possible)
				src = "(SELECT value FROM " + src + ")"
				if r.Chance(0.3) {
					src = "(SELECT value FROM " + src + ")"
				}
				subq = true
			}
			srcs = append(srcs, src)
		}
		every := "10s"
		if live {
			every = "100ms"
		}
		script += fmt.Sprintf("var q%d = batch|query('SELECT value FROM %s').period(10s).every(%s)\n", qi, strings.Join(srcs, ", "), every)
		names = append(names, fmt.Sprintf("q%d", qi))
	}
	if nq > 1 && r.Chance(0.5) {
		script += names[0] + "|union(" + strings.Join(names[1:], ", ") + ")|log()\n"
	} else {
		for _, n := range names {
			script += n + "|log()\n"
		}
	}
	sub := fmt.Sprintf("dbrp declared=%v live=%v\n%s", dbrps, live, script)
	if !x.Announce(sub) {
		return
	}
	x.Count("evaluations", 1)
	x.Count("dbrp_tasks", 1)
	fi := kit.NewFakeInflux()
	tm, _ := newTM(fi)
	if err := tm.Open(); err != nil {
		x.Inconclusive(err.Error())
		return
	}
	defer tm.Close()
	fail := func(kind, key, format string, a ...interface{}) {
		if subq && kind == "batchqueries-error" {
			x.Count("subquery_tasks_rejected_not_judged", 1)
			return
		}
		x.Violatef(kind, key, sub, "declared %v\nscript:\n%s"+format, append([]interface{}{dbrps, script}, a...)...)
	}
	shape := fmt.Sprintf("nq=%d nd=%d allowed=%v live=%v bad=%s", nq, nd, allowed, live, firstBad)
	checkQuery := func(q string) bool {
		st, err := influxql.ParseStatement(q)
		if err != nil {
			fail("query-unparsable", "issued query does not parse", "\nquery: %s\nerror: %v", q, err)
			return false
		}
		sel, ok := st.(*influxql.SelectStatement)
		if !ok {
			return true
		}
		okAll := true
		var walk func(srcs influxql.Sources)
		walk = func(srcs influxql.Sources) {
			for _, s := range srcs {
				switch m := s.(type) {
				case *influxql.Measurement:
					if okAll && !declared[pair{m.Database, m.RetentionPolicy}] {
						fail("query-undeclared-dbrp", "a query reading an undeclared db/rp was handed out", "\nquery: %s reads %q.%q", q, m.Database, m.RetentionPolicy)
						okAll = false
					}
				case *influxql.SubQuery:
					walk(m.Statement.Sources)
				}
			}
		}
		walk(sel.Sources)
		return okAll
	}
	task, err := tm.NewTask("b", script, kapacitor.BatchTask, dbrps, 0, nil)
	if err != nil {
		if allowed {
			fail("batchqueries-error", "a task reading only declared db/rps was rejected", "\nNewTask: %v", err)
		} else {
			x.Count("undeclared_dbrp_rejected", 1)
			x.Nontrivial("dbrp|" + shape)
		}
		return
	}
	if !live {
		et, err := kapacitor.NewExecutingTask(tm, task)
		if err != nil {
			if allowed {
				fail("batchqueries-error", "a task reading only declared db/rps was rejected", "\nNewExecutingTask: %v", err)
			} else {
				x.Count("undeclared_dbrp_rejected", 1)
			}
			return
		}
		start := time.Date(2020, 3, 10, 12, 0, 0, 0, time.UTC)
		bqs, err := et.BatchQueries(start, start.Add(35*time.Second))
		if !allowed {
			if err == nil {
				n := 0
				for _, l := range bqs {
					n += len(l.Queries)
				}
				fail("query-undeclared-dbrp", "BatchQueries succeeded for a task reading an undeclared db/rp", "\n%s is not declared; %d queries were returned", firstBad, n)
			} else {
				x.Count("undeclared_dbrp_rejected", 1)
				x.Nontrivial("dbrp|" + shape)
			}
			return
		}
		if err != nil {
			fail("batchqueries-error", "a task reading only declared db/rps was rejected", "\nBatchQueries: %v", err)
			return
		}
		n := 0
		for _, l := range bqs {
			for _, q := range l.Queries {
				n++
				if !checkQuery(q.String()) {
					return
				}
			}
		}
		if len(bqs) != nq || n == 0 {
			fail("batchqueries-error", "unexpected number of query lists", "\n%d lists, %d queries for %d query nodes", len(bqs), n, nq)
			return
		}
		x.Count("declared_dbrp_queries_checked", int64(n))
		x.Nontrivial("dbrp|" + shape)
		return
	}
	et, err := tm.StartTask(task)
	if err != nil {
		if allowed {
			fail("batchqueries-error", "a task reading only declared db/rps was rejected", "\nStartTask: %v", err)
		} else {
			x.Count("undeclared_dbrp_rejected", 1)
		}
		return
	}
	err = et.StartBatching()
	time.Sleep(350 * time.Millisecond)
	tm.StopTask("b")
	qs, _ := fi.Snapshot()
	if !allowed {
		if err == nil || len(qs) > 0 {
			fail("query-undeclared-dbrp", "a task reading an undeclared db/rp was started / issued queries", "\n%s is not declared; StartBatching err=%v, %d queries reached the client", firstBad, err, len(qs))
		} else {
			x.Count("undeclared_dbrp_rejected", 1)
			x.Nontrivial("dbrp|" + shape)
		}
		return
	}
	if err != nil {
		fail("batchqueries-error", "a task reading only declared db/rps was rejected", "\nStartBatching: %v", err)
		return
	}
	for _, q := range qs {
		if !checkQuery(q) {
			return
		}
	}
	x.Count("declared_dbrp_queries_checked", int64(len(qs)))
	if len(qs) > 0 {
		x.Nontrivial("dbrp|" + shape)
	}
}

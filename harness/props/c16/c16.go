// Package c16: batch queries cover exactly their scheduled, bounded time range.
package c16

import (
	"fmt"
	"regexp"
	"strings"
	"time"

	"github.com/gorhill/cronexpr"
	"github.com/influxdata/influxql"
	"github.com/influxdata/kapacitor"

	"verifharness/core"
	"verifharness/kit"
)

type prop struct{}

func init() { core.Register(prop{}) }

func (prop) ID() string    { return "C16" }
func (prop) Level() string { return "exploration" }
func (prop) Rule() string {
	return "hist: generated batch tasks (InfluxQL SELECT with 1-3 fields/functions, FROM with and without db/rp, WHERE trees of depth <=3 over AND/OR, parentheses, comparisons, regex matches and the user's own time predicates; period/every/offset/align or cron, groupBy(time(d[,o]), tags, *), fill, alignGroup) are asked for ExecutingTask.BatchQueries(start, stop) with start phases covering every residue class of 'every' at 1/8 resolution; live: batch tasks with every=60-150 ms (aligned and not) run for ~1 s against a fake InfluxDB client that records Query.Command. " +
		"Oracle: every issued query string is re-parsed with influxql and (1) SEMANTIC truth table: over a grid of rows (field values from the literals of the condition +-1, tag values, times {start-1ns,start,mid,stop-1ns,stop,far past,far future}) issued(row) == user(row) AND start<=t<stop, decided by an independent 60-line evaluator; (2) stop-start == period, stop == tick-offset; (3) fields, sources, group-by dimensions and fill survive; (4) the historical list equals the reference tick list (unaligned start+k*every; aligned: the multiples of every in (start, stop]; cron: cronexpr occurrences); live: stops strictly increasing, stop+offset a multiple of every under align; (5) a query naming an undeclared db/rp yields an error and no query reaches the client; dbrp: tasks with 1-3 query nodes x 1-3 FROM sources over a 3x2 pool of (db, rp) pairs, declared with a random subset: queries are handed out (historical list / live start) iff every source of every query node is declared, and every handed-out query reads declared pairs only. " +
		"Non-trivial: a task (script hash) with a WHERE clause containing >= 1 AND/OR whose queries were evaluated on >= 20 rows with both truth values observed"
}
func (prop) Assumptions() []string {
	return []string{
		"GROUP BY written inside the query string is replaced by the groupBy property (documented); dimensions are generated only through the property",
		"live tick spacing and dropped ticker events under load are recorded, never judged (wall clock)",
		"the influxql parser is trusted to re-parse the issued string; the truth-table evaluator is independent of how the product builds or prints the condition",
	}
}
func (prop) MinNontrivial(tier string) int {
	if tier == "thorough" {
		return 8000
	}
	return 250
}
func (prop) CaseTimeoutSec(string) int { return 120 }

func (prop) Cases(tier string, seed uint64) []core.Case {
	var cs []core.Case
	nh, nl := 100, 16
	if tier == "thorough" {
		nh, nl = 1600, 120
	}
	for i := 0; i < nh; i++ {
		cs = append(cs, core.Case{ID: fmt.Sprintf("hist-%d", i), Kind: "hist", Seed: seed*1201 + uint64(i), N: 15})
	}
	for i := 0; i < nl; i++ {
		cs = append(cs, core.Case{ID: fmt.Sprintf("live-%d", i), Kind: "live", Seed: seed*1213 + uint64(i), N: 1})
	}
	for i := 0; i < nl; i++ {
		cs = append(cs, core.Case{ID: fmt.Sprintf("dbrp-%d", i), Kind: "dbrp", Seed: seed*1217 + uint64(i), N: 40})
	}
	return cs
}

// ---- statement generator ----------------------------------------------------------------------

type stmtGen struct {
	r      *core.Rng
	nlogic int
}

var fieldNames = []string{"usage", "idle", "value"}
var tagNames = []string{"host", "dc"}

func (g *stmtGen) cond(depth int) string {
	r := g.r
	if depth <= 0 || r.Chance(0.3) {
		switch r.Intn(8) {
		case 0, 1, 2:
			return fmt.Sprintf("\"%s\" %s %d", fieldNames[r.Intn(3)], []string{"=", "!=", "<", "<=", ">", ">="}[r.Intn(6)], r.Intn(5)*10)
		case 3:
			return fmt.Sprintf("\"%s\" %s %d.5", fieldNames[r.Intn(3)], []string{"<", ">"}[r.Intn(2)], r.Intn(5)*10)
		case 4:
			return fmt.Sprintf("\"%s\" %s '%s'", tagNames[r.Intn(2)], []string{"=", "!="}[r.Intn(2)], []string{"a", "b", "server01"}[r.Intn(3)])
		case 5:
			return fmt.Sprintf("\"%s\" %s /%s/", tagNames[r.Intn(2)], []string{"=~", "!~"}[r.Intn(2)], []string{"^a", "b$", "server.*"}[r.Intn(3)])
		case 6:
			// the user's own time predicate (relative)
			return fmt.Sprintf("time %s now() - %d%s", []string{">", ">=", "<"}[r.Intn(3)], r.Range(1, 48), []string{"h", "m", "d"}[r.Intn(3)])
		default:
			return fmt.Sprintf("time %s '%s'", []string{">", "<", ">=", "<="}[r.Intn(4)], []string{"2019-06-01T00:00:00Z", "2020-01-01T12:00:00Z", "2021-01-01T00:00:00Z"}[r.Intn(3)])
		}
	}
	op := []string{"AND", "OR"}[r.Intn(2)]
	g.nlogic++
	l, rr := g.cond(depth-1), g.cond(depth-1)
	s := l + " " + op + " " + rr
	if r.Chance(0.4) {
		s = "(" + s + ")"
	}
	return s
}

type genTask struct {
	script  string
	query   string
	cond    string
	fields  string
	source  string
	period  time.Duration
	every   time.Duration
	offset  time.Duration
	align   bool
	cron    string
	dims    []string // rendered dimension expectations
	fill    string
	dbrps   []kapacitor.DBRP
	badDBRP bool
	nlogic  int
}

func durLit(d time.Duration) string {
	if d%time.Second == 0 {
		return fmt.Sprintf("%ds", int64(d/time.Second))
	}
	return fmt.Sprintf("%dms", int64(d/time.Millisecond))
}

func (g *stmtGen) task(live bool) genTask {
	r := g.r
	t := genTask{}
	nf := r.Range(1, 3)
	var fs []string
	for i := 0; i < nf; i++ {
		f := fieldNames[r.Intn(3)]
		switch r.Intn(4) {
		case 0:
			fs = append(fs, fmt.Sprintf("mean(\"%s\")", f))
		case 1:
			fs = append(fs, fmt.Sprintf("max(\"%s\") AS \"m%d\"", f, i))
		default:
			fs = append(fs, "\""+f+"\"")
		}
	}
	t.fields = strings.Join(fs, ", ")
	switch r.Intn(4) {
	case 0:
		t.source = "\"telegraf\".\"autogen\".\"cpu\""
		t.dbrps = []kapacitor.DBRP{{Database: "telegraf", RetentionPolicy: "autogen"}}
	case 1:
		t.source = "\"my db\".\"r p\".\"c,pu\""
		t.dbrps = []kapacitor.DBRP{{Database: "my db", RetentionPolicy: "r p"}}
	case 2:
		t.source = "\"telegraf\".\"autogen\".cpu"
		t.dbrps = []kapacitor.DBRP{{Database: "telegraf", RetentionPolicy: "autogen"}, {Database: "x", RetentionPolicy: "y"}}
	default:
		t.source = "\"telegraf\".\"autogen\".\"cpu\", \"telegraf\".\"autogen\".\"mem\""
		t.dbrps = []kapacitor.DBRP{{Database: "telegraf", RetentionPolicy: "autogen"}}
	}
	if r.Chance(0.08) {
		t.badDBRP = true
		t.dbrps = []kapacitor.DBRP{{Database: "telegraf", RetentionPolicy: "other"}}
	}
	t.query = "SELECT " + t.fields + " FROM " + t.source
	if r.Chance(0.85) {
		t.cond = g.cond(r.Range(0, 3))
		t.query += " WHERE " + t.cond
	}
	t.nlogic = g.nlogic
	everyPool := []time.Duration{10 * time.Second, time.Minute, 5 * time.Minute, time.Hour, 90 * time.Second, 7 * time.Second}
	if live {
		everyPool = []time.Duration{60 * time.Millisecond, 100 * time.Millisecond, 150 * time.Millisecond}
	}
	t.every = everyPool[r.Intn(len(everyPool))]
	t.period = []time.Duration{t.every, 2 * t.every, t.every / 2, 10 * time.Minute, 3 * time.Second}[r.Intn(5)]
	if r.Chance(0.4) {
		t.offset = []time.Duration{time.Second, 30 * time.Second, 2 * time.Hour, 150 * time.Millisecond}[r.Intn(4)]
	}
	t.align = r.Chance(0.4)
	q := strings.Replace(t.query, "'", "\\'", -1)
	s := "batch|query('" + q + "').period(" + durLit(t.period) + ")"
	if !live && r.Chance(0.2) {
		t.cron = []string{"*/5 * * * *", "0 * * * *", "15 3 * * *", "*/10 * * * * * *"}[r.Intn(4)]
		t.align = false
		s += ".cron('" + t.cron + "')"
	} else {
		s += ".every(" + durLit(t.every) + ")"
		if t.align {
			s += ".align()"
		}
	}
	if t.offset != 0 {
		s += ".offset(" + durLit(t.offset) + ")"
	}
	if r.Chance(0.5) {
		var ds []string
		if r.Chance(0.6) {
			gd := []time.Duration{time.Second, 10 * time.Second, time.Minute}[r.Intn(3)]
			if r.Chance(0.3) {
				ds = append(ds, fmt.Sprintf("time(%s, %s)", durLit(gd), durLit(gd/2)))
			} else {
				ds = append(ds, "time("+durLit(gd)+")")
			}
			t.dims = append(t.dims, "time(")
			if r.Chance(0.3) {
				s += ".alignGroup()"
			}
		}
		if r.Chance(0.5) {
			ds = append(ds, "'host'")
			t.dims = append(t.dims, "host")
		}
		if r.Chance(0.2) {
			ds = append(ds, "*")
			t.dims = append(t.dims, "*")
		}
		if len(ds) > 0 {
			s += ".groupBy(" + strings.Join(ds, ", ") + ")"
		}
	}
	if r.Chance(0.3) {
		t.fill = []string{"'null'", "'none'", "'previous'", "0", "1.5"}[r.Intn(5)]
		s += ".fill(" + t.fill + ")"
	}
	s += "|log()"
	t.script = s
	return t
}

// ---- truth-table evaluator ----------------------------------------------------------------------

type row struct {
	fields map[string]float64
	tags   map[string]string
	t      time.Time
	now    time.Time
}

type evalErr struct{ s string }

func (e evalErr) Error() string { return e.s }

func evalTime(e influxql.Expr, rw row) (time.Time, bool) {
	switch x := e.(type) {
	case *influxql.ParenExpr:
		return evalTime(x.Expr, rw)
	case *influxql.TimeLiteral:
		return x.Val, true
	case *influxql.StringLiteral:
		for _, layout := range []string{time.RFC3339Nano, "2006-01-02 15:04:05.999999999", "2006-01-02"} {
			if t, err := time.Parse(layout, x.Val); err == nil {
				return t, true
			}
		}
		return time.Time{}, false
	case *influxql.Call:
		if x.Name == "now" {
			return rw.now, true
		}
	case *influxql.BinaryExpr:
		l, ok := evalTime(x.LHS, rw)
		if !ok {
			return time.Time{}, false
		}
		if d, ok := x.RHS.(*influxql.DurationLiteral); ok {
			if x.Op == influxql.SUB {
				return l.Add(-d.Val), true
			}
			if x.Op == influxql.ADD {
				return l.Add(d.Val), true
			}
		}
	}
	return time.Time{}, false
}

func cmp(op influxql.Token, c int) bool {
	switch op {
	case influxql.EQ:
		return c == 0
	case influxql.NEQ:
		return c != 0
	case influxql.LT:
		return c < 0
	case influxql.LTE:
		return c <= 0
	case influxql.GT:
		return c > 0
	case influxql.GTE:
		return c >= 0
	}
	return false
}

// evalCond decides the condition on a row with InfluxQL's precedence as given by the PARSED tree.
func evalCond(e influxql.Expr, rw row) (bool, error) {
	switch x := e.(type) {
	case *influxql.ParenExpr:
		return evalCond(x.Expr, rw)
	case *influxql.BooleanLiteral:
		return x.Val, nil
	case *influxql.BinaryExpr:
		switch x.Op {
		case influxql.AND:
			l, err := evalCond(x.LHS, rw)
			if err != nil {
				return false, err
			}
			r, err := evalCond(x.RHS, rw)
			return l && r, err
		case influxql.OR:
			l, err := evalCond(x.LHS, rw)
			if err != nil {
				return false, err
			}
			r, err := evalCond(x.RHS, rw)
			return l || r, err
		}
		ref, ok := x.LHS.(*influxql.VarRef)
		if !ok {
			return false, evalErr{"unsupported lhs " + x.LHS.String()}
		}
		if strings.ToLower(ref.Val) == "time" {
			t, ok := evalTime(x.RHS, rw)
			if !ok {
				return false, evalErr{"unsupported time operand " + x.RHS.String()}
			}
			c := 0
			if rw.t.Before(t) {
				c = -1
			} else if rw.t.After(t) {
				c = 1
			}
			return cmp(x.Op, c), nil
		}
		switch rhs := x.RHS.(type) {
		case *influxql.IntegerLiteral, *influxql.NumberLiteral:
			var v float64
			if il, ok := rhs.(*influxql.IntegerLiteral); ok {
				v = float64(il.Val)
			} else {
				v = rhs.(*influxql.NumberLiteral).Val
			}
			f := rw.fields[ref.Val]
			c := 0
			if f < v {
				c = -1
			} else if f > v {
				c = 1
			}
			return cmp(x.Op, c), nil
		case *influxql.StringLiteral:
			return cmp(x.Op, strings.Compare(rw.tags[ref.Val], rhs.Val)), nil
		case *influxql.RegexLiteral:
			m := rhs.Val.MatchString(rw.tags[ref.Val])
			if x.Op == influxql.EQREGEX {
				return m, nil
			}
			return !m, nil
		}
		return false, evalErr{"unsupported rhs " + x.RHS.String()}
	}
	return false, evalErr{fmt.Sprintf("unsupported expr %T", e)}
}

func parseSelect(q string) (*influxql.SelectStatement, error) {
	p, err := influxql.ParseQuery(q)
	if err != nil {
		return nil, err
	}
	if len(p.Statements) != 1 {
		return nil, fmt.Errorf("%d statements", len(p.Statements))
	}
	s, ok := p.Statements[0].(*influxql.SelectStatement)
	if !ok {
		return nil, fmt.Errorf("not a select")
	}
	return s, nil
}

var reBounds = regexp.MustCompile(`time >= '([^']+)' AND time < '([^']+)'\)?\s*(GROUP BY|fill\(|$)`)

// judgeQuery checks one issued query string against the user's statement and the expected range.
// wantStart/wantStop zero = unknown (live): they are taken from the query's own injected bounds.
func judgeQuery(x *core.Ctx, t genTask, issued string, wantStart, wantStop time.Time, now time.Time, sub string) (ok bool, sawTrue, sawFalse bool, rows int) {
	fail := func(kind, key, format string, a ...interface{}) {
		x.Violatef(kind, key, sub, "script: %s\nissued: %s\n"+format, append([]interface{}{t.script, issued}, a...)...)
	}
	is, err := parseSelect(issued)
	if err != nil {
		fail("query-unparsable", "issued query does not parse", "%v", err)
		return false, false, false, 0
	}
	us, err := parseSelect(t.query)
	if err != nil {
		return true, false, false, 0
	}
	if wantStart.IsZero() {
		m := reBounds.FindStringSubmatch(issued)
		if m == nil {
			fail("query-bounds-missing", "no injected time bounds found at the end of the condition", "")
			return false, false, false, 0
		}
		wantStart, _ = time.Parse(time.RFC3339Nano, m[1])
		wantStop, _ = time.Parse(time.RFC3339Nano, m[2])
		if wantStop.Sub(wantStart) != t.period {
			fail("query-range-length", "stop - start differs from the period", "start %v stop %v period %v", wantStart, wantStop, t.period)
			return false, false, false, 0
		}
	}
	// (3) fields / sources / dims / fill
	if is.Fields.String() != us.Fields.String() {
		fail("query-fields-changed", "fields of the issued query differ from the user's", "user %s issued %s", us.Fields.String(), is.Fields.String())
		return false, false, false, 0
	}
	if is.Sources.String() != us.Sources.String() {
		fail("query-sources-changed", "sources of the issued query differ from the user's", "user %s issued %s", us.Sources.String(), is.Sources.String())
		return false, false, false, 0
	}
	dimStr := is.Dimensions.String()
	for _, d := range t.dims {
		want := d
		if d == "host" {
			want = "host"
		}
		if !strings.Contains(dimStr, want) {
			fail("query-dimension-missing", "a groupBy dimension is missing from the issued query", "want %q in GROUP BY %s", d, dimStr)
			return false, false, false, 0
		}
	}
	if len(t.dims) != len(is.Dimensions) {
		fail("query-dimension-missing", "number of GROUP BY dimensions differs from the groupBy property", "property %v, issued GROUP BY %s", t.dims, dimStr)
		return false, false, false, 0
	}
	switch t.fill {
	case "":
	case "'null'":
		// null is influxql's default and is not printed
	case "'none'", "'previous'":
		if !strings.Contains(issued, "fill("+strings.Trim(t.fill, "'")+")") {
			fail("query-fill-missing", "fill option missing from the issued query", "want fill(%s)", t.fill)
			return false, false, false, 0
		}
	default:
		if !strings.Contains(issued, "fill(") {
			fail("query-fill-missing", "fill value missing from the issued query", "want fill(%s)", t.fill)
			return false, false, false, 0
		}
	}
	// (1) truth table
	mid := wantStart.Add(wantStop.Sub(wantStart) / 2)
	times := []time.Time{wantStart.Add(-1), wantStart, mid, wantStop.Add(-1), wantStop, wantStart.Add(-400 * 24 * time.Hour), wantStop.Add(400 * 24 * time.Hour),
		time.Date(2019, 6, 1, 0, 0, 0, 0, time.UTC), time.Date(2020, 1, 1, 12, 0, 0, 0, time.UTC), time.Date(2021, 1, 1, 0, 0, 0, 1, time.UTC), now.Add(-time.Hour), now.Add(-24 * time.Hour)}
	vals := []float64{-1, 0, 0.5, 1, 9, 10, 10.5, 11, 20, 20.5, 21, 30, 31, 40, 40.5, 41}
	tagv := []string{"a", "b", "server01", "ab", ""}
	r := core.NewRng(uint64(len(issued)), 3)
	for _, tm := range times {
		for k := 0; k < 12; k++ {
			rw := row{fields: map[string]float64{}, tags: map[string]string{}, t: tm, now: now}
			for _, f := range fieldNames {
				rw.fields[f] = vals[r.Intn(len(vals))]
			}
			for _, tg := range tagNames {
				rw.tags[tg] = tagv[r.Intn(len(tagv))]
			}
			user := true
			if us.Condition != nil {
				var err error
				user, err = evalCond(us.Condition, rw)
				if err != nil {
					return true, sawTrue, sawFalse, rows // generator produced something the evaluator does not model
				}
			}
			want := user && !tm.Before(wantStart) && tm.Before(wantStop)
			got, err := evalCond(is.Condition, rw)
			if err != nil {
				fail("query-condition-unsupported", "issued condition contains an expression the user did not write: "+err.Error(), "")
				return false, sawTrue, sawFalse, rows
			}
			rows++
			if want {
				sawTrue = true
			} else {
				sawFalse = true
			}
			if got != want {
				shape := "row outside the range selected"
				if want {
					shape = "row inside the range not selected"
				}
				if user && tm.Before(wantStart) || user && !tm.Before(wantStop) {
					shape = "time bound not enforced: row outside [start,stop) selected"
				}
				fail("query-range-semantics", shape, "row time=%s fields=%v tags=%v: issued condition selects=%v, user condition=%v, in [start %s, stop %s)=%v\nuser WHERE: %s\nissued WHERE: %s",
					tm.Format(time.RFC3339Nano), rw.fields, rw.tags, got, user, wantStart.Format(time.RFC3339Nano), wantStop.Format(time.RFC3339Nano), !tm.Before(wantStart) && tm.Before(wantStop), t.cond, is.Condition.String())
				return false, sawTrue, sawFalse, rows
			}
		}
	}
	return true, sawTrue, sawFalse, rows
}

// ---- hist -------------------------------------------------------------------------------------------

func newTM(fi *kit.FakeInflux) (*kapacitor.TaskMaster, *kit.Recorder) {
	rec := kit.NewRecorder()
	tm := kapacitor.NewTaskMaster("c16", kit.ServerInfo(), rec.Diag())
	tm.HTTPDService = kit.NopHTTPD{}
	tm.TaskStore = kit.NopTaskStore{}
	tm.DeadmanService = kit.NopDeadman{}
	tm.InfluxDBService = fi
	return tm, rec
}

func (prop) Run(x *core.Ctx) {
	r := core.NewRng(x.Case.Seed, 16)
	for i := 0; i < x.Case.N; i++ {
		switch x.Case.Kind {
		case "hist":
			runHist(x, r, i)
		case "dbrp":
			runDBRP(x, r, i%8 == 7)
		default:
			runLive(x, r, i)
		}
		if x.NumViolations() > 40 {
			return
		}
	}
}

func runHist(x *core.Ctx, r *core.Rng, n int) {
	g := &stmtGen{r: r}
	t := g.task(false)
	sub := t.script
	if !x.Announce(sub) {
		return
	}
	x.Count("evaluations", 1)
	fi := kit.NewFakeInflux()
	tm, _ := newTM(fi)
	if err := tm.Open(); err != nil {
		x.Inconclusive(err.Error())
		return
	}
	defer tm.Close()
	task, err := tm.NewTask("b", t.script, kapacitor.BatchTask, t.dbrps, 0, nil)
	if err != nil {
		x.Count("rejected_by_front_end", 1)
		x.SetAdd("rejections", clip(err.Error(), 60))
		return
	}
	et, err := kapacitor.NewExecutingTask(tm, task)
	if err != nil {
		x.Count("rejected_by_front_end", 1)
		x.SetAdd("rejections", clip(err.Error(), 60))
		return
	}
	fail := func(kind, key, format string, a ...interface{}) {
		x.Violatef(kind, key, sub, "script: %s\n"+format, append([]interface{}{t.script}, a...)...)
	}
	base := time.Date(2020, 3, 10, 12, 0, 0, 0, time.UTC)
	sawT, sawF := false, false
	rows := 0
	for phase := 0; phase < 8; phase++ {
		start := base.Add(time.Duration(phase) * t.every / 8)
		if t.cron != "" {
			start = base.Add(time.Duration(phase) * 7 * time.Minute / 8)
		}
		span := 6*t.every + t.every/3
		if t.cron != "" {
			span = 3 * time.Hour
		}
		stop := start.Add(span)
		bqs, err := et.BatchQueries(start, stop)
		if t.badDBRP {
			if err == nil {
				fail("query-undeclared-dbrp", "BatchQueries succeeded for a query on an undeclared db/rp", "dbrps %v", t.dbrps)
			}
			x.Count("undeclared_dbrp_rejected", 1)
			return
		}
		if err != nil {
			fail("batchqueries-error", "BatchQueries failed: "+clip(err.Error(), 60), "%v", err)
			return
		}
		if len(bqs) != 1 {
			fail("batchqueries-error", "unexpected number of query nodes", "%d", len(bqs))
			return
		}
		// reference tick list
		var ticks []time.Time
		switch {
		case t.cron != "":
			ex := cronexpr.MustParse(t.cron)
			cur := start.Local()
			for {
				cur = ex.Next(cur)
				if cur.IsZero() || cur.After(stop) {
					break
				}
				ticks = append(ticks, cur)
			}
		case t.align:
			// the multiples of every in (start, stop]
			first := start.Truncate(t.every).Add(t.every)
			for tk := first; !tk.After(stop); tk = tk.Add(t.every) {
				ticks = append(ticks, tk)
			}
		default:
			for tk := start.Add(t.every); !tk.After(stop); tk = tk.Add(t.every) {
				ticks = append(ticks, tk)
			}
		}
		qs := bqs[0].Queries
		x.Count("historical_spans", 1)
		x.SetAdd("phases", fmt.Sprintf("%d/8 align=%v cron=%v", phase, t.align, t.cron != ""))
		if len(qs) != len(ticks) {
			fail("query-tick-list", tickKey(t)+": number of historical queries differs from the ticks in the span", "start %s stop %s every %v align %v cron %q: got %d queries (stops %s), reference ticks %d (%s)",
				start.Format("15:04:05.000"), stop.Format("15:04:05.000"), t.every, t.align, t.cron, len(qs), stopsOf(qs, 8), len(ticks), timesStr(ticks, 8))
			return
		}
		for i, q := range qs {
			wantStop := ticks[i].Add(-t.offset)
			wantStart := wantStop.Add(-t.period)
			if !q.StopTime().Equal(wantStop) || !q.StartTime().Equal(wantStart) {
				fail("query-tick-list", tickKey(t)+": historical query range differs from tick - offset - period", "query %d: range [%s, %s), reference tick %s -> [%s, %s)", i,
					q.StartTime().UTC().Format(time.RFC3339Nano), q.StopTime().UTC().Format(time.RFC3339Nano), ticks[i].UTC().Format(time.RFC3339Nano), wantStart.UTC().Format(time.RFC3339Nano), wantStop.UTC().Format(time.RFC3339Nano))
				return
			}
			if i < 3 || i == len(qs)-1 {
				ok, st, sf, nr := judgeQuery(x, t, q.String(), wantStart.UTC(), wantStop.UTC(), base.Add(5*time.Hour), sub)
				if !ok {
					return
				}
				sawT, sawF, rows = sawT || st, sawF || sf, rows+nr
				x.Count("queries_judged", 1)
			}
		}
	}
	x.Count("rows_evaluated", int64(rows))
	if n == 0 {
		x.Sample(map[string]interface{}{"script": t.script, "user_query": t.query})
	}
	x.SetAdd("condition_shapes", condShape(t.cond))
	if t.nlogic >= 1 && rows >= 20 && sawT && sawF {
		x.Nontrivial(t.script)
	}
}

func tickKey(t genTask) string {
	switch {
	case t.cron != "":
		return "cron"
	case t.align:
		return "aligned every"
	}
	return "every"
}

func condShape(c string) string {
	re := regexp.MustCompile(`"[^"]*"|'[^']*'|/[^/]*/|[0-9.]+[smhd]?`)
	s := re.ReplaceAllString(c, "_")
	if len(s) > 60 {
		s = s[:60]
	}
	return s
}

func stopsOf(qs []*kapacitor.Query, n int) string {
	var p []string
	for i, q := range qs {
		if i >= n {
			p = append(p, "…")
			break
		}
		p = append(p, q.StopTime().UTC().Format("15:04:05.000"))
	}
	return strings.Join(p, " ")
}
func timesStr(ts []time.Time, n int) string {
	var p []string
	for i, t := range ts {
		if i >= n {
			p = append(p, "…")
			break
		}
		p = append(p, t.UTC().Format("15:04:05.000"))
	}
	return strings.Join(p, " ")
}

func clip(s string, n int) string {
	if len(s) > n {
		return s[:n] + "…"
	}
	return s
}

// ---- live ---------------------------------------------------------------------------------------------

func runLive(x *core.Ctx, r *core.Rng, n int) {
	g := &stmtGen{r: r}
	t := g.task(true)
	sub := "live: " + t.script
	if !x.Announce(sub) {
		return
	}
	x.Count("evaluations", 1)
	fi := kit.NewFakeInflux()
	tm, _ := newTM(fi)
	if err := tm.Open(); err != nil {
		x.Inconclusive(err.Error())
		return
	}
	defer tm.Close()
	task, err := tm.NewTask("b", t.script, kapacitor.BatchTask, t.dbrps, 0, nil)
	if err != nil {
		x.Count("rejected_by_front_end", 1)
		return
	}
	et, err := tm.StartTask(task)
	if err != nil {
		x.Count("rejected_by_front_end", 1)
		return
	}
	fail := func(kind, key, format string, a ...interface{}) {
		x.Violatef(kind, key, sub, "script: %s\n"+format, append([]interface{}{t.script}, a...)...)
	}
	err = et.StartBatching()
	if t.badDBRP {
		time.Sleep(400 * time.Millisecond)
		qs, _ := fi.Snapshot()
		if err == nil || len(qs) > 0 {
			fail("query-undeclared-dbrp", "a task querying an undeclared db/rp was started / issued queries", "StartBatching err=%v, %d queries reached the client", err, len(qs))
		}
		x.Count("undeclared_dbrp_rejected", 1)
		return
	}
	if err != nil {
		fail("batchqueries-error", "StartBatching failed: "+clip(err.Error(), 60), "%v", err)
		return
	}
	time.Sleep(1100 * time.Millisecond)
	tm.StopTask("b")
	qs, _ := fi.Snapshot()
	x.Count("live_queries_observed", int64(len(qs)))
	if len(qs) < 2 {
		x.Inconclusive(fmt.Sprintf("only %d live queries observed in 1.1 s (every %v)", len(qs), t.every))
		return
	}
	var prevStop time.Time
	sawT, sawF, rows := false, false, 0
	for i, q := range qs {
		m := reBounds.FindStringSubmatch(q)
		if m == nil {
			fail("query-bounds-missing", "no injected time bounds found at the end of the condition", "query: %s", q)
			return
		}
		stop, _ := time.Parse(time.RFC3339Nano, m[2])
		if i > 0 && !stop.After(prevStop) {
			fail("query-live-stops", "live query stops are not strictly increasing", "query %d stop %s after %s", i, stop, prevStop)
			return
		}
		prevStop = stop
		if t.align {
			tick := stop.Add(t.offset)
			if !tick.Truncate(t.every).Equal(tick) {
				fail("query-live-align", "aligned live tick is not a multiple of every", "query %d: stop %s + offset %v = %s, every %v", i, stop.Format(time.RFC3339Nano), t.offset, tick.Format(time.RFC3339Nano), t.every)
				return
			}
		}
		ok, st, sf, nr := judgeQuery(x, t, q, time.Time{}, time.Time{}, time.Now(), sub)
		if !ok {
			return
		}
		sawT, sawF, rows = sawT || st, sawF || sf, rows+nr
	}
	x.Count("rows_evaluated", int64(rows))
	if rows >= 20 && sawT && sawF {
		x.Nontrivial(sub)
	}
	if n == 0 {
		x.Sample(map[string]interface{}{"script": t.script, "live_queries": len(qs), "first": qs[0]})
	}
}

// Package c18: replaying a recording reproduces the recorded data.
package c18

import (
	"bytes"
	"fmt"
	"io"
	"math"
	"reflect"
	"sort"
	"strings"
	"sync"
	"time"

	"github.com/influxdata/kapacitor"
	"github.com/influxdata/kapacitor/clock"
	"github.com/influxdata/kapacitor/edge"
	"github.com/influxdata/kapacitor/models"

	"verifharness/core"
)

type prop struct{}

func init() { core.Register(prop{}) }

func (prop) ID() string    { return "C18" }
func (prop) Level() string { return "exploration" }
func (prop) Rule() string {
	return "stream: generated point sequences (every field type incl. +-0, 1e+-308, ints beyond 2^53 and +-MaxInt64, strings with quotes/backslashes/commas/spaces/=/newline/tab/non-ASCII/70kB, tags and measurement with ', = space', empty tag set, 1-50 groups, equal timestamps) -> WritePointForRecording -> bytes -> ReplayStreamFromIO (both clock modes) -> recording StreamCollector; batch: the same through WriteBatchForRecording/ReplayBatchFromIO/BatchCollector. " +
		"Oracle: delivered sequence == recorded sequence (db, rp, name, tags, field names, values AND Go types, group, order); times identical (recorded-time mode) or all - points and batch tmax - shifted by one constant; collector closed after the last item, error channel yields nil. Non-trivial: a recording (by content hash) with >=2 items and >=2 distinct field types"
}
func (prop) Assumptions() []string {
	return []string{
		"tag values are non-empty and field sets non-empty (line protocol cannot express otherwise); NaN/Inf floats are not recorded (neither format can express them, the writer reports an error)",
		"measurement names and tag values do not end with a backslash: InfluxDB's own line-protocol encoder (a dependency) cannot express them",
		"the replay service is driven through its HTTP API with the fast clock only; the real-time clock would make a replay last as long as the recording",
	}
}
func (prop) MinNontrivial(tier string) int {
	if tier == "thorough" {
		return 20000
	}
	return 800
}

func (prop) Cases(tier string, seed uint64) []core.Case {
	var cs []core.Case
	ns, nb := 64, 32
	per := 20
	if tier == "thorough" {
		ns, nb, per = 1600, 800, 25
	}
	for i := 0; i < ns; i++ {
		cs = append(cs, core.Case{ID: fmt.Sprintf("stream-%d", i), Kind: "stream", Seed: seed*7001 + uint64(i), N: per})
	}
	for i := 0; i < nb; i++ {
		cs = append(cs, core.Case{ID: fmt.Sprintf("batch-%d", i), Kind: "batch", Seed: seed*9001 + uint64(i), N: per})
	}
	nsv, persv := 8, 6
	if tier == "thorough" {
		nsv, persv = 120, 10
	}
	for i := 0; i < nsv; i++ {
		for _, mode := range []string{"stream", "batch", "query"} {
			cs = append(cs, core.Case{ID: fmt.Sprintf("service-%s-%d", mode, i), Kind: "service", Seed: seed*9007 + uint64(i)*3 + uint64(len(mode)), N: persv, Params: map[string]interface{}{"mode": mode}})
		}
	}
	return cs
}

// Base pools: hostile for an escaping bug, but nothing that needs a special capability of the
// format. Each recording additionally gets at most ONE extra hostile feature (its "profile"),
// so that a failure can be attributed.
var hostileStrings = []string{"plain", "with \"quotes\"", "back\\slash", "comma,sep", "sp ace", "eq=uals", "tab\there", "héllo wörld ✓", " lead", "trail ", "a,b=c d", "'single'", "{\"json\":1}", "\\n", "x\\\"y"}
var hostileNames = []string{"m", "cpu load", "a,b", "x=y", "mé", "m,=x y"}
var hostileTagVals = []string{"v", "a b", "a,b", "a=b", "é", "x,y=z w", "1"}
var dbs = []string{"db", "my db", "d,b"}
var rps = []string{"rp", "auto gen"}

var profiles = []string{"base", "base", "base", "newline-in-string", "crlf-in-string", "70kB-string", "empty-string", "empty-rp", "string-trailing-backslash", "string-only-backslash-quote"}

func profileString(profile string) (string, bool) {
	switch profile {
	case "newline-in-string":
		return "new\nline", true
	case "crlf-in-string":
		return "a\r\nb", true
	case "70kB-string":
		return strings.Repeat("x", 70000), true
	case "empty-string":
		return "", true
	case "string-trailing-backslash":
		return "trailing\\", true
	case "string-only-backslash-quote":
		return "\\\"", true
	}
	return "", false
}

func genFields(r *core.Rng, profile string) models.Fields {
	f := genFieldsBase(r)
	if hs, ok := profileString(profile); ok && r.Chance(0.5) {
		f["hs"] = hs
	}
	return f
}

func genFieldsBase(r *core.Rng) models.Fields {
	f := models.Fields{}
	n := r.Range(1, 4)
	for i := 0; i < n; i++ {
		name := []string{"f", "i", "s", "b", "fl oat", "x,y", "a=b", "ü"}[r.Intn(8)] + fmt.Sprint(i)
		switch r.Intn(6) {
		case 0:
			f[name] = []float64{0, math.Copysign(0, -1), 1.5, -2.25, 1e308, -1e308, 1e-308, 5e-324, 123456789.123456789, 3}[r.Intn(10)]
		case 1:
			f[name] = []int64{0, 1, -1, 1<<53 + 1, -(1<<53 + 1), math.MaxInt64, math.MinInt64, 42}[r.Intn(8)]
		case 2:
			f[name] = r.Bool()
		case 3:
			f[name] = hostileStrings[r.Intn(len(hostileStrings))]
		case 4:
			f[name] = hostileStrings[r.Intn(len(hostileStrings))] + hostileStrings[r.Intn(len(hostileStrings))]
		default:
			f[name] = float64(r.Intn(1000)) / 8
		}
	}
	return f
}

func genTags(r *core.Rng, groups int, profile string) models.Tags {
	t := genTagsBase(r, groups)
	if profile == "tagvalue-trailing-backslash" && r.Chance(0.5) {
		t["tb"] = "v\\"
	}
	return t
}

func genTagsBase(r *core.Rng, groups int) models.Tags {
	t := models.Tags{}
	if r.Chance(0.15) {
		return t
	}
	t["g"] = fmt.Sprintf("grp%d", r.Intn(groups))
	if r.Chance(0.5) {
		t[[]string{"host", "ta g", "t,k", "t=k", "ké"}[r.Intn(5)]] = hostileTagVals[r.Intn(len(hostileTagVals))]
	}
	return t
}

type streamRec struct {
	mu         sync.Mutex
	pts        []edge.PointMessage
	closed     int
	afterClose int
}

func (s *streamRec) CollectPoint(p edge.PointMessage) error {
	s.mu.Lock()
	if s.closed > 0 {
		s.afterClose++
	}
	s.pts = append(s.pts, p)
	s.mu.Unlock()
	return nil
}
func (s *streamRec) Close() error { s.mu.Lock(); s.closed++; s.mu.Unlock(); return nil }

type batchRec struct {
	mu         sync.Mutex
	bs         []edge.BufferedBatchMessage
	closed     int
	afterClose int
}

func (s *batchRec) CollectBatch(b edge.BufferedBatchMessage) error {
	s.mu.Lock()
	if s.closed > 0 {
		s.afterClose++
	}
	s.bs = append(s.bs, b)
	s.mu.Unlock()
	return nil
}
func (s *batchRec) Close() error { s.mu.Lock(); s.closed++; s.mu.Unlock(); return nil }

func (prop) Run(x *core.Ctx) {
	r := core.NewRng(x.Case.Seed, 18)
	for i := 0; i < x.Case.N; i++ {
		switch x.Case.Kind {
		case "stream":
			runStream(x, r, i)
		case "service":
			runService(x, r, i)
		default:
			runBatch(x, r, i)
		}
		if x.NumViolations() > 100 {
			return
		}
	}
}

func fieldsDiff(a, b models.Fields) string {
	if len(a) != len(b) {
		return fmt.Sprintf("field sets differ: recorded %v, replayed %v", fieldNames(a), fieldNames(b))
	}
	for k, v := range a {
		w, ok := b[k]
		if !ok {
			return fmt.Sprintf("field %q missing after replay (have %v)", k, fieldNames(b))
		}
		if reflect.TypeOf(v) != reflect.TypeOf(w) {
			return fmt.Sprintf("field %q: recorded %T(%v), replayed %T(%v)", k, v, clipV(v), w, clipV(w))
		}
		switch vv := v.(type) {
		case float64:
			if math.Float64bits(vv) != math.Float64bits(w.(float64)) {
				return fmt.Sprintf("field %q: recorded float %v (bits %x), replayed %v (bits %x)", k, vv, math.Float64bits(vv), w, math.Float64bits(w.(float64)))
			}
		default:
			if v != w {
				return fmt.Sprintf("field %q: recorded %v, replayed %v", k, clipV(v), clipV(w))
			}
		}
	}
	return ""
}

func clipV(v interface{}) string {
	s := fmt.Sprintf("%q", fmt.Sprint(v))
	if len(s) > 80 {
		return s[:80] + "…"
	}
	return s
}

func fieldNames(f models.Fields) []string {
	var l []string
	for k := range f {
		l = append(l, k)
	}
	sort.Strings(l)
	return l
}

func tagsEq(a, b models.Tags) bool {
	if len(a) != len(b) {
		return false
	}
	for k, v := range a {
		if b[k] != v {
			return false
		}
	}
	return true
}

var base = time.Unix(1400000000, 123456789).UTC()

func classOfFields(f models.Fields) string {
	var c []string
	for _, v := range f {
		switch vv := v.(type) {
		case string:
			k := "string"
			if strings.ContainsAny(vv, "\n\r") {
				k += "+newline"
			}
			if strings.ContainsAny(vv, "\"\\") {
				k += "+quote/backslash"
			}
			if len(vv) > 65536 {
				k += "+70kB"
			}
			c = append(c, k)
		case int64:
			if vv > 1<<53 || vv < -(1<<53) {
				c = append(c, "int>2^53")
			} else {
				c = append(c, "int")
			}
		default:
			c = append(c, fmt.Sprintf("%T", v))
		}
	}
	sort.Strings(c)
	return strings.Join(c, ",")
}

func runStream(x *core.Ctx, r *core.Rng, n int) {
	sub := fmt.Sprintf("stream recording #%d of case seed %d", n, x.Case.Seed)
	if !x.Announce(sub) {
		return
	}
	x.Count("evaluations", 1)
	groups := r.Range(1, 50)
	np := r.Range(1, 40)
	recTime := r.Bool()
	profile := profiles[r.Intn(len(profiles))]
	if n%10 == 9 {
		// a long recording: many times the reader's buffer, so that records straddle its refills
		np, profile = r.Range(400, 2500), "base"
		x.Count("long_stream_recordings", 1)
	}
	sub += " profile=" + profile
	x.SetAdd("profiles", "stream:"+profile)
	var pts []edge.PointMessage
	t := base.Add(time.Duration(r.Intn(1000)) * time.Hour)
	types := map[string]bool{}
	var canon strings.Builder
	for i := 0; i < np; i++ {
		f := genFields(r, profile)
		name, rp := hostileNames[r.Intn(len(hostileNames))], rps[r.Intn(len(rps))]
		if profile == "name-trailing-backslash" && r.Chance(0.5) {
			name = "m\\"
		}
		if profile == "empty-rp" && r.Chance(0.5) {
			rp = ""
		}
		pt := t
		if i > 0 && r.Chance(0.08) {
			// a late arrival: older than anything recorded so far (also than the first point)
			pt = pts[0].Time().Add(-time.Duration(r.Range(1, 90)) * time.Second)
		}
		p := edge.NewPointMessage(name, dbs[r.Intn(len(dbs))], rp, models.Dimensions{}, f, genTags(r, groups, profile), pt)
		pts = append(pts, p)
		if !r.Chance(0.2) {
			t = t.Add(time.Duration(r.Intn(5000)) * time.Millisecond).Add(time.Duration(r.Intn(3)))
		}
		for _, v := range f {
			types[fmt.Sprintf("%T", v)] = true
		}
		x.SetAdd("field_classes", classOfFields(f))
		fmt.Fprintf(&canon, "%s|%v|%v;", p.Name(), p.Tags(), fieldNames(f))
	}
	var buf bytes.Buffer
	for _, p := range pts {
		if err := kapacitor.WritePointForRecording(&buf, p, "n"); err != nil {
			x.Violatef("record-error", "WritePointForRecording error: "+err.Error(), sub, "%v", err)
			return
		}
	}
	col := &streamRec{}
	errC := kapacitor.ReplayStreamFromIO(clock.Fast(), io.NopCloser(bytes.NewReader(buf.Bytes())), col, recTime, "n")
	var err error
	select {
	case err = <-errC:
	case <-time.After(60 * time.Second):
		x.Inconclusive("replay did not finish in 60s")
		return
	}
	describe := func() string {
		var sb strings.Builder
		for i, p := range pts {
			if i > 6 {
				sb.WriteString("…")
				break
			}
			fmt.Fprintf(&sb, "%s/%s %s %v %s @%d; ", p.Database(), p.RetentionPolicy(), p.Name(), p.Tags(), clipV(p.Fields()), p.Time().UnixNano())
		}
		return sb.String()
	}
	_ = classOfFields
	if err != nil {
		x.Violatef("replay-error", "stream replay failed ["+profile+"]: "+errClass(err), sub, "replay of %d recorded points failed: %v\nrecorded: %s", len(pts), err, describe())
		return
	}
	col.mu.Lock()
	got := col.pts
	closed, after := col.closed, col.afterClose
	col.mu.Unlock()
	if closed != 1 || after != 0 {
		x.Violatef("replay-close", fmt.Sprintf("collector closed %d times, %d items after close", closed, after), sub, "recorded: %s", describe())
	}
	if len(got) != len(pts) {
		x.Violatef("replay-count", "stream ["+profile+"]: number of points changed", sub, "recorded: %s", describe())
		return
	}
	var shift time.Duration
	for i := range pts {
		a, b := pts[i], got[i]
		if a.Database() != b.Database() || a.RetentionPolicy() != b.RetentionPolicy() || a.Name() != b.Name() {
			x.Violatef("replay-meta", "stream ["+profile+"]: db/rp/name changed", sub, "point %d: recorded %q/%q/%q replayed %q/%q/%q", i, a.Database(), a.RetentionPolicy(), a.Name(), b.Database(), b.RetentionPolicy(), b.Name())
			return
		}
		if !tagsEq(a.Tags(), b.Tags()) {
			x.Violatef("replay-tags", "stream ["+profile+"]: tags changed", sub, "point %d: recorded %v replayed %v", i, a.Tags(), b.Tags())
			return
		}
		if d := fieldsDiff(a.Fields(), b.Fields()); d != "" {
			x.Violatef("replay-fields", "stream ["+profile+"]: "+fieldDiffClass(d), sub, "point %d: %s", i, d)
			return
		}
		if a.GroupID() != b.GroupID() {
			x.Violatef("replay-group", "stream: group changed", sub, "point %d: recorded group %q replayed %q", i, a.GroupID(), b.GroupID())
			return
		}
		d := b.Time().Sub(a.Time())
		if recTime && d != 0 {
			x.Violatef("replay-time", "stream recorded-time mode: time changed", sub, "point %d: recorded %v replayed %v", i, a.Time(), b.Time())
			return
		}
		if i == 0 {
			shift = d
		} else if d != shift {
			x.Violatef("replay-time", "stream: points shifted by different offsets", sub, "point 0 shifted by %v, point %d by %v", shift, i, d)
			return
		}
		x.Count("items_compared", 1)
	}
	if len(pts) >= 2 && len(types) >= 2 {
		x.Nontrivial(canon.String())
	}
	if n == 0 {
		x.Sample(map[string]interface{}{"kind": "stream", "points": len(pts), "recorded_time_mode": recTime, "first_bytes": clipS(buf.String(), 300)})
	}
}

func clipS(s string, n int) string {
	if len(s) > n {
		return s[:n] + "…"
	}
	return s
}

func firstWords(s string, n int) string {
	w := strings.Fields(s)
	if len(w) > n {
		w = w[:n]
	}
	return strings.Join(w, " ")
}

func runBatch(x *core.Ctx, r *core.Rng, n int) {
	sub := fmt.Sprintf("batch recording #%d of case seed %d", n, x.Case.Seed)
	if !x.Announce(sub) {
		return
	}
	x.Count("evaluations", 1)
	nb := r.Range(1, 12)
	recTime := r.Bool()
	profile := profiles[r.Intn(len(profiles))]
	sub += " profile=" + profile
	x.SetAdd("profiles", "batch:"+profile)
	var bs []edge.BufferedBatchMessage
	t := base.Add(time.Duration(r.Intn(1000)) * time.Hour)
	types := map[string]bool{}
	var canon strings.Builder
	type plainB struct {
		name   string
		tags   models.Tags
		byName bool
		tmax   time.Time
		group  models.GroupID
		pts    []struct {
			f  models.Fields
			t  models.Tags
			tm time.Time
		}
	}
	var want []plainB
	for i := 0; i < nb; i++ {
		gt := models.Tags{}
		if !r.Chance(0.2) {
			gt["g"] = fmt.Sprintf("grp%d", r.Intn(5))
		}
		byName := r.Chance(0.3)
		name := hostileNames[r.Intn(len(hostileNames))]
		if profile == "name-trailing-backslash" && r.Chance(0.5) {
			name = "m\\"
		}
		np := r.Range(1, 6)
		var pts []edge.BatchPointMessage
		pb := plainB{name: name, tags: gt, byName: byName}
		for j := 0; j < np; j++ {
			f := genFields(r, profile)
			pt := gt.Copy()
			if r.Chance(0.4) {
				pt["host"] = hostileTagVals[r.Intn(len(hostileTagVals))]
			}
			pts = append(pts, edge.NewBatchPointMessage(f, pt, t))
			pb.pts = append(pb.pts, struct {
				f  models.Fields
				t  models.Tags
				tm time.Time
			}{f.Copy(), pt.Copy(), t})
			for _, v := range f {
				types[fmt.Sprintf("%T", v)] = true
			}
			x.SetAdd("field_classes", classOfFields(f))
			if !r.Chance(0.2) {
				t = t.Add(time.Duration(r.Intn(5000)) * time.Millisecond)
			}
		}
		tmax := t.Add(time.Duration(r.Intn(3)) * time.Second)
		pb.tmax = tmax
		begin := edge.NewBeginBatchMessage(name, gt, byName, tmax, len(pts))
		pb.group = begin.GroupID()
		bs = append(bs, edge.NewBufferedBatchMessage(begin, pts, edge.NewEndBatchMessage()))
		want = append(want, pb)
		fmt.Fprintf(&canon, "%s|%v|%d;", name, gt, np)
		t = t.Add(time.Duration(r.Intn(10)) * time.Second)
	}
	var buf bytes.Buffer
	for _, b := range bs {
		if err := kapacitor.WriteBatchForRecording(&buf, b); err != nil {
			x.Violatef("record-error", "WriteBatchForRecording error ["+profile+"]: "+errClass(err), sub, "%v", err)
			return
		}
	}
	col := &batchRec{}
	errC := kapacitor.ReplayBatchFromIO(clock.Fast(), []io.ReadCloser{io.NopCloser(bytes.NewReader(buf.Bytes()))}, []kapacitor.BatchCollector{col}, recTime)
	var err error
	select {
	case err = <-errC:
	case <-time.After(60 * time.Second):
		x.Inconclusive("replay did not finish in 60s")
		return
	}
	if err != nil {
		x.Violatef("replay-error", "batch replay failed ["+profile+"]: "+errClass(err), sub, "%v", err)
		return
	}
	col.mu.Lock()
	got := col.bs
	closed, after := col.closed, col.afterClose
	col.mu.Unlock()
	if closed != 1 || after != 0 {
		x.Violatef("replay-close", fmt.Sprintf("batch collector closed %d times, %d items after close", closed, after), sub, "")
	}
	if len(got) != len(want) {
		x.Violatef("replay-count", fmt.Sprintf("batch: recorded %d batches, replayed %d", len(want), len(got)), sub, "")
		return
	}
	var shift time.Duration
	first := true
	intAsFloat := false
	for i := range want {
		a, b := want[i], got[i]
		bg := b.Begin()
		if a.name != bg.Name() || !tagsEq(a.tags, bg.Tags()) || a.byName != bg.Dimensions().ByName {
			x.Violatef("replay-meta", "batch ["+profile+"]: name/tags/byName changed", sub, "batch %d: recorded name=%q tags=%v byName=%v, replayed name=%q tags=%v byName=%v", i, a.name, a.tags, a.byName, bg.Name(), bg.Tags(), bg.Dimensions().ByName)
			return
		}
		if a.group != bg.GroupID() {
			x.Violatef("replay-group", "batch ["+profile+"]: group id changed", sub, "batch %d (name %q tags %v byName %v): recorded group %q, replayed %q", i, a.name, a.tags, a.byName, a.group, bg.GroupID())
			return
		}
		if len(a.pts) != len(b.Points()) {
			x.Violatef("replay-count", "batch: number of points in a batch changed", sub, "batch %d: recorded %d points, replayed %d", i, len(a.pts), len(b.Points()))
			return
		}
		for j, ap := range a.pts {
			bp := b.Points()[j]
			if !tagsEq(ap.t, bp.Tags()) {
				x.Violatef("replay-tags", "batch ["+profile+"]: point tags changed", sub, "batch %d point %d: recorded %v replayed %v", i, j, ap.t, bp.Tags())
				return
			}
			// an int64 that comes back as the float64 of the same value is reported (once per
			// recording) but does not stop the comparison of everything else
			cmp := models.Fields{}
			for k, v := range bp.Fields() {
				cmp[k] = v
				if iv, ok := ap.f[k].(int64); ok {
					if fv, ok := v.(float64); ok && fv == float64(iv) {
						cmp[k] = iv
						if !intAsFloat {
							intAsFloat = true
							x.Violatef("replay-fields", "batch: int64 field replayed as float64", sub, "batch %d point %d field %q: recorded int64(%d), replayed float64(%v)", i, j, k, iv, fv)
						}
					}
				}
			}
			if d := fieldsDiff(ap.f, cmp); d != "" {
				x.Violatef("replay-fields", "batch ["+profile+"]: "+fieldDiffClass(d), sub, "batch %d point %d: %s", i, j, d)
				return
			}
			d := bp.Time().Sub(ap.tm)
			if recTime && d != 0 {
				x.Violatef("replay-time", "batch recorded-time mode: point time changed", sub, "batch %d point %d: recorded %v replayed %v", i, j, ap.tm, bp.Time())
				return
			}
			if first {
				shift, first = d, false
			} else if d != shift {
				x.Violatef("replay-time", "batch: points shifted by different offsets", sub, "first point shifted by %v, batch %d point %d by %v", shift, i, j, d)
				return
			}
			x.Count("items_compared", 1)
		}
		if d := bg.Time().Sub(a.tmax); d != shift {
			mode := "live-time"
			if recTime {
				mode = "recorded-time"
			}
			x.Violatef("replay-tmax", "batch "+mode+" mode: tmax not shifted like the points", sub, "batch %d: points shifted by %v but tmax by %v (recorded tmax %v, last point %v; replayed tmax %v, last point %v)", i, shift, d, a.tmax, a.pts[len(a.pts)-1].tm, bg.Time(), b.Points()[len(a.pts)-1].Time())
			return
		}
	}
	if len(want) >= 2 && len(types) >= 2 {
		x.Nontrivial(canon.String())
	}
	if n == 0 {
		x.Sample(map[string]interface{}{"kind": "batch", "batches": len(want), "recorded_time_mode": recTime, "first_bytes": clipS(buf.String(), 300)})
	}
}

// fieldDiffClass reduces a field diff to its class for the violation key.
func fieldDiffClass(d string) string {
	switch {
	case strings.Contains(d, "recorded int64") && strings.Contains(d, "replayed float64"):
		return "int64 field replayed as float64"
	case strings.Contains(d, "recorded float"):
		return "float value changed"
	}
	return firstWords(d, 4)
}

func errClass(err error) string {
	e := err.Error()
	switch {
	case strings.Contains(e, "unable to parse"):
		return "unable to parse a recorded line"
	case strings.Contains(e, "expected another line"):
		return "invalid replay file format, expected another line"
	case strings.Contains(e, "token too long"):
		return "line longer than the scanner buffer (token too long)"
	}
	return firstWords(e, 5)
}

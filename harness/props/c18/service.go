package c18

// Sub-monitor "service": the same round-trip law, but through the replay service itself
// (services/replay/service.go): recordings are made by the service's own recorders (fork of the
// write stream, batch queries of a task against a programmable InfluxDB, an ad-hoc query),
// stored in the service's recording files, and replayed by the service into a fresh copy of
// the task. The oracle compares what the task's log() sink saw with what was written to the
// fork / returned by the fake InfluxDB.

import (
	"bytes"
	"encoding/json"
	"expvar"
	"fmt"
	"net/http/httptest"
	"os"
	"path/filepath"
	"regexp"
	"sort"
	"strings"
	"sync"
	"time"

	imodels "github.com/influxdata/influxdb/models"
	"github.com/influxdata/kapacitor"
	"github.com/influxdata/kapacitor/edge"
	"github.com/influxdata/kapacitor/influxdb"
	"github.com/influxdata/kapacitor/models"
	"github.com/influxdata/kapacitor/services/httpd"
	"github.com/influxdata/kapacitor/services/replay"
	"github.com/influxdata/kapacitor/services/task_store"

	"verifharness/core"
	"verifharness/kit"
)

type rdaemon struct {
	st  *kit.BoltStorage
	tm  *kapacitor.TaskMaster
	ts  *task_store.Service
	rs  *replay.Service
	h   *httpd.Handler
	rec *kit.Recorder
	fi  *kit.FakeInflux
	dir string
}

func openReplayDaemon(scratch string) (*rdaemon, error) {
	dir, err := os.MkdirTemp(scratch, "c18svc")
	if err != nil {
		return nil, err
	}
	var cur int32
	st, err := kit.OpenBoltStorage(filepath.Join(dir, "kapacitor.db"), "", &cur)
	if err != nil {
		return nil, err
	}
	d := &rdaemon{st: st, dir: dir, rec: kit.NewRecorder(), fi: kit.NewFakeInflux()}
	tm := kapacitor.NewTaskMaster(kapacitor.MainTaskMaster, kit.ServerInfo(), d.rec.Diag())
	tm.HTTPDService = kit.NopHTTPD{}
	tm.DeadmanService = kit.NopDeadman{}
	tm.InfluxDBService = d.fi
	if err := tm.Open(); err != nil {
		st.CloseBolt()
		return nil, err
	}
	d.tm = tm
	lookup := kapacitor.NewTaskMasterLookup()
	lookup.Set(tm)
	d.h = httpd.NewHandler(false, false, false, false, false, new(expvar.Map).Init(), kit.DiagService().NewHTTPDHandler(), "")
	conf := task_store.NewConfig()
	conf.Dir = filepath.Join(dir, "no-old-tasks")
	ts := task_store.NewService(conf, kit.DiagService().NewTaskStoreHandler())
	ts.StorageService = st
	ts.HTTPDService = d.h
	ts.TaskMasterLookup = lookup
	tm.TaskStore = ts
	d.ts = ts
	if err := ts.Open(); err != nil {
		tm.Close()
		st.CloseBolt()
		return nil, err
	}
	rc := replay.NewConfig()
	rc.Dir = filepath.Join(dir, "replay")
	rs := replay.NewService(rc, kit.DiagService().NewReplayHandler())
	rs.StorageService = st
	rs.TaskStore = ts
	rs.HTTPDService = d.h
	rs.InfluxDBService = d.fi
	rs.TaskMaster = tm
	rs.TaskMasterLookup = lookup
	d.rs = rs
	if err := rs.Open(); err != nil {
		ts.Close()
		tm.Close()
		st.CloseBolt()
		return nil, err
	}
	return d, nil
}

func (d *rdaemon) close() {
	d.rs.Close()
	d.ts.Close()
	d.tm.Drain()
	d.tm.StopTasks()
	d.tm.Close()
	d.st.CloseBolt()
	os.RemoveAll(d.dir)
}

func (d *rdaemon) do(method, path string, body interface{}) (int, []byte) {
	rd := bytes.NewReader(nil)
	if body != nil {
		b, _ := json.Marshal(body)
		rd = bytes.NewReader(b)
	}
	req := httptest.NewRequest(method, httpd.BasePath+path, rd)
	w := httptest.NewRecorder()
	d.h.ServeHTTP(w, req)
	return w.Code, w.Body.Bytes()
}

// waitDone polls a recording or replay until the service reports it as no longer running.
// The wall-clock bound is a watchdog only (inconclusive when it fires).
func (d *rdaemon) waitDone(path string) (status, errMsg string, ok bool) {
	deadline := time.Now().Add(60 * time.Second)
	for time.Now().Before(deadline) {
		code, body := d.do("GET", path, nil)
		if code == 200 {
			var r struct {
				Status string `json:"status"`
				Error  string `json:"error"`
			}
			json.Unmarshal(body, &r)
			return r.Status, r.Error, true
		}
		if code != 202 {
			return fmt.Sprintf("http %d", code), string(body), true
		}
		time.Sleep(500 * time.Microsecond)
	}
	return "", "", false
}

func (d *rdaemon) defineTask(x *core.Ctx, sub, id, typ, script string, dbrps []map[string]string) bool {
	code, body := d.do("POST", "/tasks", map[string]interface{}{"id": id, "type": typ, "dbrps": dbrps, "script": script, "status": "disabled"})
	if code != 200 {
		x.Inconclusive(fmt.Sprintf("task definition refused (%d): %s :: %s", code, clipS(string(body), 200), clipS(script, 200)))
		return false
	}
	return true
}

var svcProfiles = []string{"base", "base", "empty-string", "string-trailing-backslash", "string-only-backslash-quote", "70kB-string"}

func runService(x *core.Ctx, r *core.Rng, n int) {
	switch x.Case.PStr("mode", "stream") {
	case "stream":
		runSvcStream(x, r, n)
	case "batch":
		runSvcBatch(x, r, n)
	case "query":
		runSvcQuery(x, r, n)
	}
}

// ---------------------------------------------------------------- stream recording of a task

func runSvcStream(x *core.Ctx, r *core.Rng, n int) {
	sub := fmt.Sprintf("service stream recording #%d of case seed %d", n, x.Case.Seed)
	if !x.Announce(sub) {
		return
	}
	x.Count("evaluations", 1)
	d, err := openReplayDaemon(x.Scratch)
	if err != nil {
		x.Inconclusive("daemon: " + err.Error())
		return
	}
	defer d.close()
	recTime := r.Bool()
	profile := svcProfiles[r.Intn(len(svcProfiles))]
	onlyM := r.Chance(0.5)
	twoDBRP := r.Chance(0.3)
	from := "from()"
	if onlyM {
		from = "from().measurement('m1')"
	}
	dbrps := []map[string]string{{"db": "db", "rp": "rp"}}
	if twoDBRP {
		dbrps = append(dbrps, map[string]string{"db": "db2", "rp": "rp2"})
	}
	script := "stream|" + from + "|log().prefix('S')"
	sub += fmt.Sprintf(" profile=%s recTime=%v script=%s dbrps=%d", profile, recTime, script, len(dbrps))
	if !d.defineTask(x, sub, "T", "stream", script, dbrps) {
		return
	}
	t := base.Add(time.Duration(r.Intn(1000)) * time.Hour)
	np := r.Range(2, 40)
	type wp struct {
		db, rp, name string
		tags         models.Tags
		fields       models.Fields
		tm           time.Time
	}
	var all []wp
	for i := 0; i < np; i++ {
		p := wp{db: "db", rp: "rp", name: "m1", tags: genTags(r, 3, profile), fields: genFields(r, profile), tm: t}
		switch r.Intn(8) {
		case 0:
			p.name = "m2"
		case 1:
			p.db, p.rp = "db2", "rp2"
		case 2:
			p.db, p.rp = "other", "rp"
		}
		all = append(all, p)
		if !r.Chance(0.25) {
			t = t.Add(time.Duration(1+r.Intn(3000)) * time.Millisecond)
		}
	}
	stop := t
	rid := fmt.Sprintf("rec-%d", n)
	code, body := d.do("POST", "/recordings/stream", map[string]interface{}{"id": rid, "task": "T", "stop": stop})
	if code != 201 {
		x.Violatef("service-error", "stream recording refused", sub, "%d %s", code, body)
		return
	}
	// the recording file is created after the fork of the write stream exists
	file := filepath.Join(d.dir, "replay", rid+".srpl")
	deadline := time.Now().Add(30 * time.Second)
	for {
		if _, err := os.Stat(file); err == nil {
			break
		}
		if time.Now().After(deadline) {
			x.Inconclusive("recording did not start in 30s")
			return
		}
		time.Sleep(200 * time.Microsecond)
	}
	var want []wp
	for _, p := range all {
		d.tm.WriteKapacitorPoint(edge.NewPointMessage(p.name, p.db, p.rp, models.Dimensions{}, p.fields.Copy(), p.tags.Copy(), p.tm))
		okDB := (p.db == "db" && p.rp == "rp") || (twoDBRP && p.db == "db2")
		if okDB && (!onlyM || p.name == "m1") {
			want = append(want, p)
		}
	}
	// the first point after the stop time ends the recording; later points are not part of it
	for i := 1; i <= 3; i++ {
		d.tm.WriteKapacitorPoint(edge.NewPointMessage("m1", "db", "rp", models.Dimensions{}, models.Fields{"after": float64(i)}, models.Tags{}, stop.Add(time.Duration(i)*time.Second)))
	}
	st, emsg, ok := d.waitDone("/recordings/" + rid)
	if !ok {
		x.Inconclusive("recording did not finish in 60s")
		return
	}
	if st != "finished" || emsg != "" {
		x.Violatef("service-error", "stream recording failed ["+profile+"]: "+firstWords(emsg, 6), sub, "status %s error %s", st, emsg)
		return
	}
	pid := fmt.Sprintf("rpl-%d", n)
	code, body = d.do("POST", "/replays", map[string]interface{}{"id": pid, "task": "T", "recording": rid, "recording-time": recTime, "clock": "fast"})
	if code != 201 {
		x.Violatef("service-error", "replay refused", sub, "%d %s", code, body)
		return
	}
	st, emsg, ok = d.waitDone("/replays/" + pid)
	if !ok {
		x.Inconclusive("replay did not finish in 60s")
		return
	}
	if st != "finished" || emsg != "" {
		x.Violatef("service-error", "stream replay of a service recording failed ["+profile+"]: "+firstWords(emsg, 6), sub, "status %s error %s", st, emsg)
		return
	}
	got := d.rec.Sink("S").Points()
	if len(got) != len(want) {
		x.Violatef("service-count", fmt.Sprintf("stream: service replay delivered a different number of points [onlyM=%v twoDBRP=%v]", onlyM, twoDBRP), sub, "recorded %d points (of %d written), replayed %d", len(want), len(all), len(got))
		return
	}
	var shift time.Duration
	for i, a := range want {
		b := got[i]
		if a.name != b.Name || a.db != b.DB || a.rp != b.RP || !tagsEq(a.tags, models.Tags(b.Tags)) {
			x.Violatef("service-meta", "stream: db/rp/measurement/tags changed through the service", sub, "point %d: recorded %s.%s.%s %v, replayed %s.%s.%s %v", i, a.db, a.rp, a.name, a.tags, b.DB, b.RP, b.Name, b.Tags)
			return
		}
		if dd := fieldsDiff(a.fields, models.Fields(b.Fields)); dd != "" {
			x.Violatef("service-fields", "stream ["+profile+"]: "+fieldDiffClass(dd), sub, "point %d: %s", i, dd)
			return
		}
		dt := b.Time.Sub(a.tm)
		if recTime && dt != 0 {
			x.Violatef("service-time", "stream recorded-time mode: time changed through the service", sub, "point %d: recorded %v replayed %v", i, a.tm, b.Time)
			return
		}
		if i == 0 {
			shift = dt
		} else if dt != shift {
			x.Violatef("service-time", "stream: points shifted by different offsets through the service", sub, "first point shifted by %v, point %d by %v", shift, i, dt)
			return
		}
		x.Count("items_compared", 1)
	}
	x.Count("service_stream_roundtrips", 1)
	if len(want) >= 2 {
		x.Nontrivial(fmt.Sprintf("svc-stream|%s|%v|%v|%v|%d", profile, recTime, onlyM, twoDBRP, len(want)))
	}
}

// ---------------------------------------------------------------- batch recording of a task

type bseries struct {
	name   string
	tags   map[string]string
	points []bpoint
}
type bpoint struct {
	tm     time.Time
	fields map[string]interface{} // nil values are absent
}

// fakeSeries builds the InfluxDB rows of one series and their plain reference form.
func fakeSeries(r *core.Rng, name string, tags map[string]string, start time.Time, span time.Duration, np int, profile string) (imodels.Row, bseries) {
	row := imodels.Row{Name: name, Tags: tags, Columns: []string{"time", "v", "s", "b"}}
	ref := bseries{name: name, tags: tags}
	tm := start.Add(time.Duration(r.Intn(1000)) * time.Millisecond)
	step := span / time.Duration(np+1)
	for i := 0; i < np; i++ {
		f := map[string]interface{}{}
		vals := []interface{}{tm.Format(time.RFC3339Nano), nil, nil, nil}
		if !r.Chance(0.15) {
			v := float64(r.Intn(2000)-1000) / 8
			if r.Chance(0.1) {
				v = float64(int64(1)<<53 + int64(r.Intn(1000)))
			}
			vals[1] = json.Number(fmt.Sprintf("%v", v))
			if strings.ContainsAny(fmt.Sprintf("%v", v), "e") {
				vals[1] = json.Number(fmt.Sprintf("%.1f", v))
			}
			f["v"] = v
		}
		if r.Chance(0.5) {
			s, special := profileString(profile)
			if !special || r.Chance(0.5) {
				s = hostileStrings[r.Intn(len(hostileStrings))]
			}
			vals[2] = s
			f["s"] = s
		}
		if r.Chance(0.3) {
			b := r.Bool()
			vals[3] = b
			f["b"] = b
		}
		row.Values = append(row.Values, vals)
		if len(f) > 0 {
			ref.points = append(ref.points, bpoint{tm: tm.UTC(), fields: f})
		}
		tm = tm.Add(step/2 + time.Duration(r.Intn(int(step/2)+1)))
	}
	return row, ref
}

var reFrom = regexp.MustCompile(`FROM "?db"?\."?rp"?\."?(m\d+)"?`)
var reTimes = regexp.MustCompile(`time >= '([^']+)' AND time < '([^']+)'`)

type wantBatch struct {
	name   string
	tags   map[string]string
	byName bool
	tmax   time.Time
	points []bpoint
}

func runSvcBatch(x *core.Ctx, r *core.Rng, n int) {
	sub := fmt.Sprintf("service batch recording #%d of case seed %d", n, x.Case.Seed)
	if !x.Announce(sub) {
		return
	}
	x.Count("evaluations", 1)
	d, err := openReplayDaemon(x.Scratch)
	if err != nil {
		x.Inconclusive("daemon: " + err.Error())
		return
	}
	defer d.close()
	profile := svcProfiles[r.Intn(len(svcProfiles))]
	k := []int{1, 2, 3, 5, 10, 11, 12, 13, 23}[r.Intn(9)]
	nq := r.Range(1, 4)
	var sb strings.Builder
	byName := make([]bool, k)
	grouped := make([]bool, k)
	for i := 0; i < k; i++ {
		byName[i] = r.Chance(0.25)
		grouped[i] = r.Chance(0.6)
		fmt.Fprintf(&sb, "batch|query('SELECT v, s, b FROM \"db\".\"rp\".\"m%d\"').period(10s).every(10s)", i)
		if grouped[i] && byName[i] {
			sb.WriteString(".groupBy('g').groupByMeasurement()")
		} else if grouped[i] {
			sb.WriteString(".groupBy('g')")
		} else if byName[i] {
			sb.WriteString(".groupByMeasurement()")
		}
		fmt.Fprintf(&sb, "|log().prefix('B%d')\n", i)
	}
	script := sb.String()
	sub += fmt.Sprintf(" profile=%s sources=%d queries-per-source=%d", profile, k, nq)
	if !d.defineTask(x, sub, "T", "batch", script, []map[string]string{{"db": "db", "rp": "rp"}}) {
		return
	}
	start := base.Add(time.Duration(r.Intn(1000)) * time.Hour).Truncate(10 * time.Second)
	stop := start.Add(time.Duration(nq) * 10 * time.Second)
	// the answers of the fake InfluxDB: a function of (measurement, query start), generated
	// once and remembered so that a second run of the same queries (live replay) sees the same data
	var mu sync.Mutex
	answers := map[string]*influxdb.Response{}
	refs := map[string][]bseries{}
	stops := map[string]time.Time{}
	order := map[string][]string{} // measurement -> keys in first-asked order
	seedBase := r.Uint64()
	d.fi.Respond = func(q string) (*influxdb.Response, error) {
		m := reFrom.FindStringSubmatch(q)
		tmm := reTimes.FindStringSubmatch(q)
		if m == nil || tmm == nil {
			return nil, fmt.Errorf("fake influx: unexpected query %q", q)
		}
		key := m[1] + "@" + tmm[1]
		mu.Lock()
		defer mu.Unlock()
		if a, ok := answers[key]; ok {
			return a, nil
		}
		qstart, err1 := time.Parse(time.RFC3339Nano, tmm[1])
		qstop, err2 := time.Parse(time.RFC3339Nano, tmm[2])
		if err1 != nil || err2 != nil {
			return nil, fmt.Errorf("fake influx: unexpected times in %q", q)
		}
		var idx int
		fmt.Sscanf(m[1], "m%d", &idx)
		rr := core.NewRng(seedBase^uint64(idx)*7919^uint64(qstart.Unix()), 181)
		var res influxdb.Result
		var ref []bseries
		ns := 1
		if grouped[idx] {
			ns = rr.Range(1, 3)
		}
		for s := 0; s < ns; s++ {
			tags := map[string]string{}
			if grouped[idx] {
				tags["g"] = fmt.Sprintf("g%d", s)
			}
			np := rr.Range(1, 5)
			if rr.Chance(0.1) {
				np = 0
			}
			row, bs := fakeSeries(rr, m[1], tags, qstart, qstop.Sub(qstart), np, profile)
			res.Series = append(res.Series, row)
			ref = append(ref, bs)
		}
		a := &influxdb.Response{Results: []influxdb.Result{res}}
		answers[key] = a
		refs[key] = ref
		stops[key] = qstop.UTC()
		order[m[1]] = append(order[m[1]], key)
		return a, nil
	}
	rid := fmt.Sprintf("rec-%d", n)
	code, body := d.do("POST", "/recordings/batch", map[string]interface{}{"id": rid, "task": "T", "start": start, "stop": stop})
	if code != 201 {
		x.Violatef("service-error", "batch recording refused", sub, "%d %s", code, body)
		return
	}
	st, emsg, ok := d.waitDone("/recordings/" + rid)
	if !ok {
		x.Inconclusive("recording did not finish in 60s")
		return
	}
	if st != "finished" || emsg != "" {
		x.Violatef("service-error", "batch recording failed ["+profile+"]: "+firstWords(emsg, 6), sub, "status %s error %s", st, emsg)
		return
	}
	// reference: per source, the batches of its queries in order
	want := make([][]wantBatch, k)
	mu.Lock()
	total := 0
	for i := 0; i < k; i++ {
		for _, key := range order[fmt.Sprintf("m%d", i)] {
			for _, s := range refs[key] {
				want[i] = append(want[i], wantBatch{name: s.name, tags: s.tags, byName: byName[i], tmax: stops[key], points: s.points})
				total++
			}
		}
	}
	mu.Unlock()
	if total == 0 {
		x.Inconclusive("the fake InfluxDB was not asked anything")
		return
	}
	type run struct {
		label   string
		recTime bool
		path    string
		body    map[string]interface{}
	}
	runs := []run{
		{"recording", true, "/replays", map[string]interface{}{"task": "T", "recording": rid, "recording-time": true, "clock": "fast"}},
		{"recording", false, "/replays", map[string]interface{}{"task": "T", "recording": rid, "recording-time": false, "clock": "fast"}},
		{"live", true, "/replays/batch", map[string]interface{}{"task": "T", "start": start, "stop": stop, "recording-time": true, "clock": "fast"}},
		{"live", false, "/replays/batch", map[string]interface{}{"task": "T", "start": start, "stop": stop, "recording-time": false, "clock": "fast"}},
	}
	done := 0
	for ri, ru := range runs {
		lens := make([]int, k)
		for i := 0; i < k; i++ {
			lens[i] = d.rec.Sink(fmt.Sprintf("B%d", i)).Len()
		}
		pid := fmt.Sprintf("rpl-%d-%d", n, ri)
		ru.body["id"] = pid
		code, body = d.do("POST", ru.path, ru.body)
		if code != 201 {
			x.Violatef("service-error", "batch replay refused ("+ru.label+")", sub, "%d %s", code, body)
			return
		}
		st, emsg, ok = d.waitDone("/replays/" + pid)
		if !ok {
			x.Inconclusive("replay did not finish in 60s")
			return
		}
		mode := fmt.Sprintf("%s replay recTime=%v", ru.label, ru.recTime)
		if st != "finished" || emsg != "" {
			x.Violatef("service-error", "batch replay through the service failed ("+ru.label+") ["+profile+"]: "+firstWords(emsg, 6), sub+" "+mode, "status %s error %s", st, emsg)
			return
		}
		var shift time.Duration
		haveShift := false
		for i := 0; i < k; i++ {
			got := d.rec.Sink(fmt.Sprintf("B%d", i)).Batches()[lens[i]:]
			if !compareSource(x, sub+" "+mode, mode, i, k, want[i], got, ru.recTime, &shift, &haveShift) {
				return
			}
		}
		done++
	}
	x.Count("service_batch_roundtrips", int64(done))
	if total >= 2 {
		x.Nontrivial(fmt.Sprintf("svc-batch|%s|%d|%d|%d", profile, k, nq, total))
	}
	x.MaxCount("max_batch_sources", int64(k))
}

// compareSource compares what one query node's child saw with the reference of that source.
func compareSource(x *core.Ctx, sub, mode string, i, k int, want []wantBatch, got []*kit.B, recTime bool, shift *time.Duration, haveShift *bool) bool {
	if len(got) != len(want) {
		x.Violatef("service-count", "batch: a query node received a different number of batches than its source recorded", sub, "%s: source %d of %d: recorded %d batches, replayed %d%s", mode, i, k, len(want), len(got), firstNames(want, got))
		return false
	}
	var pendingTmax [][2]time.Time
	for j, a := range want {
		b := got[j]
		if a.name != b.Name || !tagsEq(models.Tags(a.tags), models.Tags(b.Tags)) || a.byName != b.ByName {
			x.Violatef("service-meta", "batch: a query node received the batches of another source or changed name/tags/byName", sub, "%s: source %d batch %d: recorded name=%q tags=%v byName=%v, replayed name=%q tags=%v byName=%v", mode, i, j, a.name, a.tags, a.byName, b.Name, b.Tags, b.ByName)
			return false
		}
		if len(a.points) != len(b.Points) {
			x.Violatef("service-count", "batch: number of points in a batch changed through the service", sub, "%s: source %d batch %d: recorded %d points, replayed %d", mode, i, j, len(a.points), len(b.Points))
			return false
		}
		for p, ap := range a.points {
			bp := b.Points[p]
			if !tagsEq(models.Tags(a.tags), models.Tags(bp.Tags)) {
				x.Violatef("service-meta", "batch: point tags changed through the service", sub, "%s: source %d batch %d point %d: recorded %v replayed %v", mode, i, j, p, a.tags, bp.Tags)
				return false
			}
			if dd := fieldsDiff(models.Fields(ap.fields), models.Fields(bp.Fields)); dd != "" {
				x.Violatef("service-fields", "batch: "+fieldDiffClass(dd), sub, "%s: source %d batch %d point %d: %s", mode, i, j, p, dd)
				return false
			}
			dt := bp.Time.Sub(ap.tm)
			if recTime && dt != 0 {
				x.Violatef("service-time", "batch recorded-time mode: point time changed through the service", sub, "%s: source %d batch %d point %d: recorded %v replayed %v", mode, i, j, p, ap.tm, bp.Time)
				return false
			}
			if !*haveShift {
				*shift, *haveShift = dt, true
			} else if dt != *shift {
				x.Violatef("service-time", "batch: sources or points shifted by different offsets", sub, "%s: first point of the replay shifted by %v, source %d batch %d point %d by %v", mode, *shift, i, j, p, dt)
				return false
			}
			x.Count("items_compared", 1)
		}
		// (the end time of an empty batch moves with the rest of the replay; when nothing has
		// fixed the offset yet it is judged against the first point that follows)
		if a.tmax.IsZero() {
			// an empty query result without any earlier batch has no time at all
			if !b.TMax.IsZero() {
				x.Violatef("service-tmax", "batch: an empty batch without end time got one", sub, "%s: source %d batch %d: replayed tmax %v", mode, i, j, b.TMax)
				return false
			}
			continue
		}
		if !*haveShift {
			pendingTmax = append(pendingTmax, [2]time.Time{a.tmax, b.TMax})
		} else {
			for _, pt := range pendingTmax {
				if dt := pt[1].Sub(pt[0]); dt != *shift {
					x.Violatef("service-tmax", "batch: tmax of an empty batch not shifted like the points", sub, "%s: source %d: points shifted by %v, tmax of a leading empty batch by %v", mode, i, *shift, dt)
					return false
				}
			}
			pendingTmax = nil
			if dt := b.TMax.Sub(a.tmax); dt != *shift {
				if len(a.points) == 0 {
					x.Violatef("service-tmax", "batch: tmax of an empty batch not shifted like the points", sub, "%s: source %d batch %d: points shifted by %v, tmax of the empty batch by %v", mode, i, j, *shift, dt)
					return false
				}
				x.Violatef("service-tmax", "batch: tmax not shifted like the points through the service", sub, "%s: source %d batch %d: points shifted by %v, tmax by %v (query stop %v, replayed tmax %v)", mode, i, j, *shift, dt, a.tmax, b.TMax)
				return false
			}
		}
	}
	return true
}

func firstNames(want []wantBatch, got []*kit.B) string {
	var w, g []string
	for _, a := range want {
		w = append(w, fmt.Sprintf("%s%v(%d)", a.name, a.tags, len(a.points)))
	}
	for _, b := range got {
		g = append(g, fmt.Sprintf("%s%v(%d)", b.Name, b.Tags, len(b.Points)))
	}
	if len(w) > 8 {
		w = w[:8]
	}
	if len(g) > 8 {
		g = g[:8]
	}
	return fmt.Sprintf(" (recorded %v, replayed %v)", w, g)
}

// ---------------------------------------------------------------- recording of an ad-hoc query

func runSvcQuery(x *core.Ctx, r *core.Rng, n int) {
	sub := fmt.Sprintf("service query recording #%d of case seed %d", n, x.Case.Seed)
	if !x.Announce(sub) {
		return
	}
	x.Count("evaluations", 1)
	d, err := openReplayDaemon(x.Scratch)
	if err != nil {
		x.Inconclusive("daemon: " + err.Error())
		return
	}
	defer d.close()
	profile := svcProfiles[r.Intn(len(svcProfiles))]
	typ := []string{"stream", "batch"}[r.Intn(2)]
	script := "stream|from()|log().prefix('Q')"
	if typ == "batch" {
		script = "batch|query('SELECT v, s, b FROM \"db\".\"rp\".\"m0\"').period(10s).every(10s).groupBy('g')|log().prefix('Q')"
	}
	sub += " profile=" + profile + " type=" + typ
	if !d.defineTask(x, sub, "T", typ, script, []map[string]string{{"db": "db", "rp": "rp"}}) {
		return
	}
	start := base.Add(time.Duration(r.Intn(1000)) * time.Hour)
	ns := r.Range(1, 4)
	var res influxdb.Result
	var ref []bseries
	for s := 0; s < ns; s++ {
		np := r.Range(1, 6)
		row, bs := fakeSeries(r, "m0", map[string]string{"g": fmt.Sprintf("g%d", s)}, start, 20*time.Second, np, profile)
		res.Series = append(res.Series, row)
		ref = append(ref, bs)
	}
	resp := &influxdb.Response{Results: []influxdb.Result{res}}
	d.fi.Respond = func(q string) (*influxdb.Response, error) { return resp, nil }
	query := `SELECT v, s, b FROM "db"."rp"."m0" GROUP BY g`
	rid := fmt.Sprintf("rec-%d", n)
	code, body := d.do("POST", "/recordings/query", map[string]interface{}{"id": rid, "type": typ, "query": query})
	if code != 201 {
		x.Violatef("service-error", "query recording refused", sub, "%d %s", code, body)
		return
	}
	st, emsg, ok := d.waitDone("/recordings/" + rid)
	if !ok {
		x.Inconclusive("recording did not finish in 60s")
		return
	}
	if st != "finished" || emsg != "" {
		x.Violatef("service-error", "query recording failed ["+profile+"]: "+firstWords(emsg, 6), sub, "status %s error %s", st, emsg)
		return
	}
	// stream reference: all points in time order, ties in series order
	type sp struct {
		s  int
		pt bpoint
	}
	var merged []sp
	for s, bs := range ref {
		for _, p := range bs.points {
			merged = append(merged, sp{s, p})
		}
	}
	sort.SliceStable(merged, func(i, j int) bool { return merged[i].pt.tm.Before(merged[j].pt.tm) })
	for ri, ru := range []struct {
		label   string
		recTime bool
		path    string
		body    map[string]interface{}
	}{
		{"recording", true, "/replays", map[string]interface{}{"task": "T", "recording": rid, "recording-time": true, "clock": "fast"}},
		{"recording", false, "/replays", map[string]interface{}{"task": "T", "recording": rid, "recording-time": false, "clock": "fast"}},
		{"live", true, "/replays/query", map[string]interface{}{"task": "T", "query": query, "recording-time": true, "clock": "fast"}},
		{"live", false, "/replays/query", map[string]interface{}{"task": "T", "query": query, "recording-time": false, "clock": "fast"}},
	} {
		before := d.rec.Sink("Q").Len()
		pid := fmt.Sprintf("rpl-%d-%d", n, ri)
		ru.body["id"] = pid
		code, body = d.do("POST", ru.path, ru.body)
		if code != 201 {
			x.Violatef("service-error", "query replay refused ("+ru.label+")", sub, "%d %s", code, body)
			return
		}
		st, emsg, ok = d.waitDone("/replays/" + pid)
		if !ok {
			x.Inconclusive("replay did not finish in 60s")
			return
		}
		mode := fmt.Sprintf("%s replay recTime=%v", ru.label, ru.recTime)
		if st != "finished" || emsg != "" {
			x.Violatef("service-error", "query replay through the service failed ("+ru.label+") ["+profile+"]: "+firstWords(emsg, 6), sub+" "+mode, "status %s error %s", st, emsg)
			return
		}
		if typ == "batch" {
			var want []wantBatch
			for _, s := range ref {
				// the end time of a query result is its last point; an empty one inherits the previous end time
				tmax := time.Time{}
				if len(s.points) > 0 {
					tmax = s.points[len(s.points)-1].tm
				} else if len(want) > 0 {
					tmax = want[len(want)-1].tmax
				}
				want = append(want, wantBatch{name: s.name, tags: s.tags, tmax: tmax, points: s.points})
			}
			var shift time.Duration
			haveShift := false
			got := d.rec.Sink("Q").Batches()[before:]
			if !compareSource(x, sub+" "+mode, mode, 0, 1, want, got, ru.recTime, &shift, &haveShift) {
				return
			}
			continue
		}
		got := d.rec.Sink("Q").Points()[before:]
		if len(got) != len(merged) {
			x.Violatef("service-count", "stream query: replay delivered a different number of points than the query returned", sub+" "+mode, "query returned %d points with fields, replayed %d", len(merged), len(got))
			return
		}
		var shift time.Duration
		for i, a := range merged {
			b := got[i]
			tags := ref[a.s].tags
			if b.Name != "m0" || b.DB != "db" || b.RP != "rp" || !tagsEq(models.Tags(tags), models.Tags(b.Tags)) {
				x.Violatef("service-meta", "stream query: db/rp/measurement/tags or order changed", sub+" "+mode, "point %d: expected db.rp.m0 %v at %v, replayed %s.%s.%s %v at %v", i, tags, a.pt.tm, b.DB, b.RP, b.Name, b.Tags, b.Time)
				return
			}
			if dd := fieldsDiff(models.Fields(a.pt.fields), models.Fields(b.Fields)); dd != "" {
				x.Violatef("service-fields", "stream query: "+fieldDiffClass(dd), sub+" "+mode, "point %d: %s", i, dd)
				return
			}
			dt := b.Time.Sub(a.pt.tm)
			if ru.recTime && dt != 0 {
				x.Violatef("service-time", "stream query recorded-time mode: time changed", sub+" "+mode, "point %d: %v -> %v", i, a.pt.tm, b.Time)
				return
			}
			if i == 0 {
				shift = dt
			} else if dt != shift {
				x.Violatef("service-time", "stream query: points shifted by different offsets", sub+" "+mode, "first %v, point %d %v", shift, i, dt)
				return
			}
			x.Count("items_compared", 1)
		}
	}
	x.Count("service_query_roundtrips", 4)
	if len(merged) >= 2 {
		x.Nontrivial(fmt.Sprintf("svc-query|%s|%s|%d|%d", profile, typ, ns, len(merged)))
	}
}

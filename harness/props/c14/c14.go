// Package c14: task definitions and their running state persist and stay in step.
//
// A mini-daemon is assembled from the real services (task_store on a harness-owned storage
// service over a real Bolt file, a real TaskMaster named "main", the real httpd.Handler with the
// task_store routes) - server/server.go itself cannot be linked here. It is driven through the
// HTTP routes; after every request the complete catalogue is read back through the API and
// compared with what the request and its response allow.
package c14

import (
	"bytes"
	"encoding/json"
	"expvar"
	"fmt"
	"net/http/httptest"
	"os"
	"path/filepath"
	"sort"
	"strings"
	"time"

	"github.com/influxdata/kapacitor"
	"github.com/influxdata/kapacitor/services/httpd"
	"github.com/influxdata/kapacitor/services/task_store"

	"verifharness/core"
	"verifharness/kit"
)

type prop struct{}

func init() { core.Register(prop{}) }

func (prop) ID() string    { return "C14" }
func (prop) Level() string { return "exploration" }
func (prop) Rule() string {
	return "histories of 25-60 requests against the real task_store HTTP routes of a mini-daemon (real TaskMaster, storage on a real Bolt file): create / update (script, dbrps, vars, status, id, template-id) / enable / disable / delete task, create / update (script, id) / delete template, over a small universe of ids (incl. 'a.b', '.', invalid ones), valid stream and batch scripts, scripts with dbrp statements, syntactically and semantically broken scripts, a batch script whose start fails (query outside its dbrps), templates with optional and required vars, wrong var types; clean restarts (shutdown sequence, reopen the same file) at random steps and, for selected requests, a crash at every storage commit inside the request (restart on a copy of the file as of that commit). " +
		"Oracle after EVERY request, from the catalogue read back through the API (all tasks with script, dbrps, vars, status, executing, template-id; all templates): 4xx -> catalogue unchanged; 2xx -> catalogue == previous catalogue with exactly the requested change (templated tasks carry their template's script; a template update changes the script of ALL its tasks); 5xx -> unchanged, or the requested change with the touched tasks not executing, and for template updates ALL associated tasks and the template on the old script or ALL on the new one; always: executing => enabled, enabled and startable => executing; known-valid requests must be accepted and known-invalid ones rejected; after a restart the catalogue is the same and every enabled startable task is executing again; crash inside a request: the catalogue after restart is the one before or the one after the request (template updates: all or none), and enabled startable tasks execute. " +
		"Non-trivial: a history with >= 3 accepted and >= 2 rejected requests, >= 1 template update touching >= 2 tasks or a rename, and >= 1 restart"
}
func (prop) Assumptions() []string {
	return []string{
		"server/server.go is not executed: the wiring task_store <-> TaskMaster <-> storage <-> httpd is reproduced by the harness",
		"which error code a rejected request gets is not judged, only its class (4xx/5xx) and its effect",
		"created/modified/last-enabled timestamps, dot and stats are not compared",
	}
}
func (prop) MinNontrivial(tier string) int {
	if tier == "thorough" {
		return 200
	}
	return 15
}
func (prop) CaseTimeoutSec(string) int { return 300 }

func (prop) Cases(tier string, seed uint64) []core.Case {
	n := 80
	if tier == "thorough" {
		n = 1600
	}
	var cs []core.Case
	for i := 0; i < n; i++ {
		cs = append(cs, core.Case{ID: fmt.Sprintf("hist-%d", i), Kind: "history", Seed: seed*1409 + uint64(i), N: 1, Params: map[string]interface{}{"crash": i%4 == 0}})
	}
	// catalogues larger than one listing page of the store (100)
	np := 2
	if tier == "thorough" {
		np = 12
	}
	for i := 0; i < np; i++ {
		cs = append(cs, core.Case{ID: fmt.Sprintf("many-%d", i), Kind: "many", Seed: seed*1423 + uint64(i), N: 1})
	}
	return cs
}

// ---- universe -------------------------------------------------------------------------------

type scriptInfo struct {
	text      string
	valid     bool   // must be accepted (with a fitting dbrp declaration)
	hasDBRP   bool   // carries its own dbrp statement
	startable bool   // an enabled task with it starts (given dbrps db1.rp1)
	typ       string // stream | batch
}

var scripts = map[string]scriptInfo{
	"S1": {"stream\n    |from()\n        .measurement('m1')\n    |log()\n", true, false, true, "stream"},
	"S2": {"stream\n    |from()\n        .measurement('m2')\n    |window()\n        .period(10s)\n        .every(10s)\n    |count('v')\n    |log()\n", true, false, true, "stream"},
	"S3": {"dbrp \"db1\".\"rp1\"\n\nstream\n    |from()\n        .measurement('m3')\n    |log()\n", true, true, true, "stream"},
	"B1": {"batch\n    |query('SELECT v FROM \"db1\".\"rp1\".m')\n        .period(10s)\n        .every(1h)\n    |log()\n", true, false, true, "batch"},
	"BF": {"batch\n    |query('SELECT v FROM \"db9\".\"rp9\".m')\n        .period(10s)\n        .every(1h)\n    |log()\n", true, false, false, "batch"},
	"XS": {"stream|from(", false, false, false, "stream"},
	"XN": {"stream\n    |nosuchnode()\n", false, false, false, "stream"},
}

type tmplInfo struct {
	text     string
	required []string // vars a task must supply
}

var tmpls = map[string]tmplInfo{
	"P1": {"var m = 'm1'\n\nvar p = 10s\n\nstream\n    |from()\n        .measurement(m)\n    |window()\n        .period(p)\n        .every(p)\n    |count('v')\n    |log()\n", nil},
	"P2": {"var m = 'm1'\n\nvar p = 20s\n\nstream\n    |from()\n        .measurement(m)\n    |window()\n        .period(p)\n        .every(p)\n    |sum('v')\n    |log()\n", nil},
	"P3": {"var m string\n\nvar k string\n\nstream\n    |from()\n        .measurement(m)\n        .where(lambda: \"k\" == k)\n    |log()\n", []string{"m", "k"}},
	"PX": {"var m string\nstream|from(", nil},
}

var taskIDs = []string{"a", "b", "c", "d", "a.b", ".", ".."}
var badTaskIDs = []string{"bad/id", "sp ace", ""}
// (two of the template ids are in a prefix relation)
var tmplIDs = []string{"t1", "t2", "t1_x"}

type varsKind int

const (
	vNone    varsKind = iota
	vM                // m string
	vMK               // m, k strings
	vBadType          // m int (wrong type)
)

func varsJSON(k varsKind) map[string]interface{} {
	switch k {
	case vM:
		return map[string]interface{}{"m": map[string]interface{}{"type": "string", "value": "m9"}}
	case vMK:
		return map[string]interface{}{"m": map[string]interface{}{"type": "string", "value": "m9"}, "k": map[string]interface{}{"type": "string", "value": "x"}}
	case vBadType:
		return map[string]interface{}{"m": map[string]interface{}{"type": "int", "value": 5}}
	}
	return nil
}

// ---- catalogue as seen through the API ------------------------------------------------------------

type taskView struct {
	Type, Status, Script, TemplateID, DBRPs, Vars string
	Executing                                     bool
}
type catalogue struct {
	Tasks     map[string]taskView
	Templates map[string]string // id -> type|script
	// Assoc (model only, not visible through the API): template id + "/" + task id for every task
	// that was created from / moved to the template as it exists now. Deleting a template drops
	// its associations; a template of the same id created later does not inherit them.
	Assoc map[string]bool
}

func (c catalogue) clone() catalogue {
	n := catalogue{Tasks: map[string]taskView{}, Templates: map[string]string{}, Assoc: map[string]bool{}}
	for k := range c.Assoc {
		n.Assoc[k] = true
	}
	for k, v := range c.Tasks {
		n.Tasks[k] = v
	}
	for k, v := range c.Templates {
		n.Templates[k] = v
	}
	return n
}

func diffCat(want, got catalogue, ignoreExecuting map[string]bool) string {
	var ds []string
	for id, w := range want.Tasks {
		g, ok := got.Tasks[id]
		if !ok {
			ds = append(ds, fmt.Sprintf("task %q is missing", id))
			continue
		}
		if ignoreExecuting[id] {
			g.Executing = w.Executing
		}
		if g != w {
			ds = append(ds, fmt.Sprintf("task %q is %s, expected %s", id, tv(g), tv(w)))
		}
	}
	for id := range got.Tasks {
		if _, ok := want.Tasks[id]; !ok {
			ds = append(ds, fmt.Sprintf("unexpected task %q (%s)", id, tv(got.Tasks[id])))
		}
	}
	for id, w := range want.Templates {
		if g, ok := got.Templates[id]; !ok {
			ds = append(ds, fmt.Sprintf("template %q is missing", id))
		} else if g != w {
			ds = append(ds, fmt.Sprintf("template %q is %q, expected %q", id, clip(g, 60), clip(w, 60)))
		}
	}
	for id := range got.Templates {
		if _, ok := want.Templates[id]; !ok {
			ds = append(ds, fmt.Sprintf("unexpected template %q", id))
		}
	}
	sort.Strings(ds)
	return strings.Join(ds, "; ")
}

func tv(t taskView) string {
	return fmt.Sprintf("{%s %s executing=%v template=%q dbrps=%s vars=%s script=%s}", t.Type, t.Status, t.Executing, t.TemplateID, t.DBRPs, t.Vars, scriptName(t.Script))
}

func scriptName(s string) string {
	for k, v := range scripts {
		if v.text == s {
			return k
		}
	}
	for k, v := range tmpls {
		if v.text == s {
			return k
		}
	}
	return fmt.Sprintf("%q", clip(s, 40))
}

// ---- the mini daemon -----------------------------------------------------------------------------

type daemon struct {
	dir     string
	st      *kit.BoltStorage
	tm      *kapacitor.TaskMaster
	ts      *task_store.Service
	h       *httpd.Handler
	cur     *int32
	snapDir string
}

func openDaemon(dbPath, snapDir string, cur *int32) (*daemon, error) {
	st, err := kit.OpenBoltStorage(dbPath, snapDir, cur)
	if err != nil {
		return nil, err
	}
	d := &daemon{st: st, cur: cur, snapDir: snapDir}
	rec := kit.NewRecorder()
	tm := kapacitor.NewTaskMaster(kapacitor.MainTaskMaster, kit.ServerInfo(), rec.Diag())
	tm.HTTPDService = kit.NopHTTPD{}
	tm.DeadmanService = kit.NopDeadman{}
	tm.InfluxDBService = kit.NewFakeInflux()
	if err := tm.Open(); err != nil {
		st.CloseBolt()
		return nil, err
	}
	d.tm = tm
	lookup := kapacitor.NewTaskMasterLookup()
	lookup.Set(tm)
	h := httpd.NewHandler(false, false, false, false, false, new(expvar.Map).Init(), kit.DiagService().NewHTTPDHandler(), "")
	d.h = h
	conf := task_store.NewConfig()
	conf.Dir = filepath.Join(filepath.Dir(dbPath), "no-old-tasks")
	ts := task_store.NewService(conf, kit.DiagService().NewTaskStoreHandler())
	ts.StorageService = st
	ts.HTTPDService = h
	ts.TaskMasterLookup = lookup
	tm.TaskStore = ts
	d.ts = ts
	if err := ts.Open(); err != nil {
		tm.Close()
		st.CloseBolt()
		return nil, err
	}
	return d, nil
}

// close follows the shutdown sequence of the server: services closed in reverse order.
func (d *daemon) close() {
	d.ts.Close()
	d.tm.Drain()
	d.tm.StopTasks()
	d.tm.Close()
	d.st.CloseBolt()
}

func (d *daemon) do(method, path string, body interface{}) (int, []byte) {
	var rd *bytes.Reader
	if body != nil {
		b, _ := json.Marshal(body)
		rd = bytes.NewReader(b)
	} else {
		rd = bytes.NewReader(nil)
	}
	req := httptest.NewRequest(method, httpd.BasePath+path, rd)
	rec := httptest.NewRecorder()
	d.h.ServeHTTP(rec, req)
	return rec.Code, rec.Body.Bytes()
}

func (d *daemon) catalogue() (catalogue, error) {
	c := catalogue{Tasks: map[string]taskView{}, Templates: map[string]string{}, Assoc: map[string]bool{}}
	code, body := d.do("GET", "/tasks?script-format=raw&limit=100000", nil)
	if code != 200 {
		return c, fmt.Errorf("GET /tasks: %d %s", code, body)
	}
	var tl struct {
		Tasks []struct {
			ID         string          `json:"id"`
			Type       string          `json:"type"`
			Status     string          `json:"status"`
			Script     string          `json:"script"`
			TemplateID string          `json:"template-id"`
			Executing  bool            `json:"executing"`
			DBRPs      json.RawMessage `json:"dbrps"`
			Vars       json.RawMessage `json:"vars"`
		} `json:"tasks"`
	}
	if err := json.Unmarshal(body, &tl); err != nil {
		return c, fmt.Errorf("GET /tasks: %v", err)
	}
	for _, t := range tl.Tasks {
		// the single-task route must agree with the listing
		c.Tasks[t.ID] = taskView{Type: t.Type, Status: t.Status, Script: t.Script, TemplateID: t.TemplateID, Executing: t.Executing, DBRPs: canonJSON(t.DBRPs), Vars: canonVars(t.Vars)}
	}
	code, body = d.do("GET", "/templates?script-format=raw&limit=1000", nil)
	if code != 200 {
		return c, fmt.Errorf("GET /templates: %d %s", code, body)
	}
	var pl struct {
		Templates []struct {
			ID     string `json:"id"`
			Type   string `json:"type"`
			Script string `json:"script"`
		} `json:"templates"`
	}
	if err := json.Unmarshal(body, &pl); err != nil {
		return c, fmt.Errorf("GET /templates: %v", err)
	}
	for _, t := range pl.Templates {
		c.Templates[t.ID] = t.Type + "|" + t.Script
	}
	return c, nil
}

func canonJSON(r json.RawMessage) string {
	var v interface{}
	if json.Unmarshal(r, &v) != nil {
		return string(r)
	}
	b, _ := json.Marshal(v)
	if string(b) == "null" {
		return "[]"
	}
	return string(b)
}

// canonVars keeps type and value of every var (descriptions are not requested state).
func canonVars(r json.RawMessage) string {
	var m map[string]map[string]interface{}
	if json.Unmarshal(r, &m) != nil || len(m) == 0 {
		return "{}"
	}
	ks := make([]string, 0, len(m))
	for k := range m {
		ks = append(ks, k)
	}
	sort.Strings(ks)
	var o []string
	for _, k := range ks {
		o = append(o, fmt.Sprintf("%s=%v:%v", k, m[k]["type"], m[k]["value"]))
	}
	return "{" + strings.Join(o, ",") + "}"
}

// ---- requests -------------------------------------------------------------------------------

type request struct {
	desc   string
	method string
	path   string
	body   map[string]interface{}
	// apply computes the catalogue a successful request leads to; touched = tasks whose
	// executing flag the request may change; class: "valid" (must be accepted), "invalid" (must
	// be rejected with 4xx), "" (either)
	apply   func(c catalogue) (catalogue, map[string]bool)
	class   string
	tmplUpd string // template id when this is a template update (all-or-none rule)
}

func dbrpsOf(s scriptInfo, explicit bool) string {
	if s.hasDBRP || explicit {
		return `[{"db":"db1","rp":"rp1"}]`
	}
	return "[]"
}

func startable(t taskView) bool {
	if t.DBRPs == "[]" {
		return false
	}
	for _, s := range scripts {
		if s.text == t.Script {
			return s.startable
		}
	}
	for _, p := range tmpls {
		if p.text == t.Script {
			for _, rq := range p.required {
				if !strings.Contains(t.Vars, rq+"=") {
					return false
				}
			}
			return !strings.Contains(t.Vars, "m=int")
		}
	}
	return false
}

func genRequest(r *core.Rng, c catalogue) request {
	existing := func() string {
		var ids []string
		for id := range c.Tasks {
			ids = append(ids, id)
		}
		sort.Strings(ids)
		if len(ids) == 0 || r.Chance(0.1) {
			return r.Pick(taskIDs)
		}
		return ids[r.Intn(len(ids))]
	}
	existingT := func() string {
		var ids []string
		for id := range c.Templates {
			ids = append(ids, id)
		}
		sort.Strings(ids)
		if len(ids) == 0 || r.Chance(0.1) {
			return r.Pick(tmplIDs)
		}
		return ids[r.Intn(len(ids))]
	}
	statusOf := func(s string) string {
		if s == "enabled" {
			return "enabled"
		}
		return "disabled"
	}
	switch k := r.Intn(20); {
	case k < 5: // create task from a script
		id := r.Pick(taskIDs)
		if r.Chance(0.08) {
			id = r.Pick(badTaskIDs[:2])
		}
		sk := r.Pick([]string{"S1", "S2", "S3", "B1", "BF", "XS", "XN"})
		s := scripts[sk]
		explicit := r.Chance(0.75)
		status := r.Pick([]string{"", "enabled", "enabled", "disabled"})
		body := map[string]interface{}{"id": id, "type": s.typ, "script": s.text}
		if explicit {
			body["dbrps"] = []map[string]string{{"db": "db1", "rp": "rp1"}}
		}
		if status != "" {
			body["status"] = status
		}
		rq := request{desc: fmt.Sprintf("create task %q script=%s dbrps=%v status=%q", id, sk, explicit, status), method: "POST", path: "/tasks", body: body}
		_, exists := c.Tasks[id]
		badID := strings.ContainsAny(id, "/ ")
		dotID := id == "." || id == ".."
		okDBRP := explicit != s.hasDBRP
		switch {
		case exists || badID || !s.valid || !okDBRP:
			rq.class = "invalid"
		case dotID:
			// "." and ".." are path elements: they can never be listed or addressed
			rq.class = "invalid"
		case s.startable || statusOf(status) != "enabled":
			rq.class = "valid"
		}
		rq.apply = func(c catalogue) (catalogue, map[string]bool) {
			n := c.clone()
			t := taskView{Type: s.typ, Status: statusOf(status), Script: s.text, DBRPs: dbrpsOf(s, explicit), Vars: "{}"}
			t.Executing = t.Status == "enabled"
			n.Tasks[id] = t
			return n, map[string]bool{id: true}
		}
		return rq
	case k < 8: // create task from a template
		id := r.Pick(taskIDs)
		tid := existingT()
		vk := varsKind(r.Intn(4))
		status := r.Pick([]string{"", "enabled", "enabled"})
		body := map[string]interface{}{"id": id, "template-id": tid, "dbrps": []map[string]string{{"db": "db1", "rp": "rp1"}}}
		if v := varsJSON(vk); v != nil {
			body["vars"] = v
		}
		if status != "" {
			body["status"] = status
		}
		rq := request{desc: fmt.Sprintf("create task %q from template %q vars=%d status=%q", id, tid, vk, status), method: "POST", path: "/tasks", body: body}
		_, exists := c.Tasks[id]
		tmpl, hasT := c.Templates[tid]
		if exists || !hasT {
			rq.class = "invalid"
		}
		rq.apply = func(c catalogue) (catalogue, map[string]bool) {
			n := c.clone()
			parts := strings.SplitN(tmpl, "|", 2)
			t := taskView{Type: parts[0], Status: statusOf(status), Script: parts[len(parts)-1], TemplateID: tid, DBRPs: `[{"db":"db1","rp":"rp1"}]`, Vars: canonVarsOf(vk)}
			t.Executing = t.Status == "enabled"
			n.Tasks[id] = t
			n.Assoc[tid+"/"+id] = true
			return n, map[string]bool{id: true}
		}
		return rq
	case k < 11: // enable / disable
		id := existing()
		status := r.Pick([]string{"enabled", "disabled"})
		rq := request{desc: fmt.Sprintf("set task %q %s", id, status), method: "PATCH", path: "/tasks/" + id, body: map[string]interface{}{"status": status}}
		old, exists := c.Tasks[id]
		if !exists {
			rq.class = "invalid"
		} else if (status == "disabled" && old.TemplateID == "") || startable(refreshed(c, old)) {
			// (every update validates the definition again; a templated task whose template changed
			// underneath it may no longer be valid with its vars - not judged)
			rq.class = "valid"
		}
		rq.apply = func(c catalogue) (catalogue, map[string]bool) {
			n := c.clone()
			t := n.Tasks[id]
			if t.Status == status {
				// no status change: nothing is started or stopped
				return n, map[string]bool{}
			}
			t.Status = status
			t.Executing = status == "enabled"
			n.Tasks[id] = t
			return n, map[string]bool{id: true}
		}
		return rq
	case k < 13: // update the script / dbrps / vars of a task
		id := existing()
		old, exists := c.Tasks[id]
		rq := request{method: "PATCH", path: "/tasks/" + id, body: map[string]interface{}{}}
		if !exists {
			rq.class = "invalid"
		}
		if old.TemplateID == "" {
			sk := r.Pick([]string{"S1", "S2", "B1", "XS", "XN"})
			s := scripts[sk]
			rq.body["script"] = s.text
			rq.body["type"] = s.typ
			rq.desc = fmt.Sprintf("update task %q script=%s", id, sk)
			if !s.valid {
				rq.class = "invalid"
			}
			rq.apply = func(c catalogue) (catalogue, map[string]bool) {
				n := c.clone()
				t := n.Tasks[id]
				t.Script, t.Type = s.text, s.typ
				if t.DBRPs == "[]" {
					t.DBRPs = "[]"
				}
				n.Tasks[id] = t
				return n, map[string]bool{}
			}
			return rq
		}
		vk := varsKind(1 + r.Intn(3))
		rq.body["vars"] = varsJSON(vk)
		rq.desc = fmt.Sprintf("update task %q vars=%d", id, vk)
		rq.apply = func(c catalogue) (catalogue, map[string]bool) {
			n := c.clone()
			t := n.Tasks[id]
			t.Vars = canonVarsOf(vk)
			n.Tasks[id] = t
			return n, map[string]bool{}
		}
		return rq
	case k < 14: // rename a task
		id := existing()
		nid := r.Pick(taskIDs)
		rq := request{desc: fmt.Sprintf("rename task %q to %q", id, nid), method: "PATCH", path: "/tasks/" + id, body: map[string]interface{}{"id": nid}}
		// one request may rename and change the status at once
		withStatus := ""
		if r.Chance(0.35) {
			withStatus = r.Pick([]string{"enabled", "disabled"})
			rq.body["status"] = withStatus
			rq.desc += " and set it " + withStatus
		}
		old, exists := c.Tasks[id]
		_, clash := c.Tasks[nid]
		if !exists || nid == "." || nid == ".." {
			rq.class = "invalid"
		}
		if exists && clash && nid != id {
			rq.class = "rejected" // any error class, no effect
		}
		if rq.class == "" && exists && withStatus != "" && old.TemplateID == "" && (withStatus == "disabled" || startable(refreshed(c, old))) {
			rq.class = "valid"
		}
		rq.apply = func(c catalogue) (catalogue, map[string]bool) {
			n := c.clone()
			t := n.Tasks[id]
			restarted := map[string]bool{}
			if withStatus != "" && t.Status != withStatus {
				t.Status = withStatus
				t.Executing = withStatus == "enabled"
				restarted[nid] = true
				n.Tasks[id] = t
			}
			if nid == id {
				return n, restarted
			}
			delete(n.Tasks, id)
			n.Tasks[nid] = t
			if _, has := n.Templates[t.TemplateID]; has && nid != id {
				delete(n.Assoc, t.TemplateID+"/"+id)
				n.Assoc[t.TemplateID+"/"+nid] = true
			}
			return n, map[string]bool{nid: true}
		}
		return rq
	case k < 15: // delete a task
		id := existing()
		rq := request{desc: fmt.Sprintf("delete task %q", id), method: "DELETE", path: "/tasks/" + id, class: "valid"}
		if id == "." || id == ".." {
			rq.class = "" // the HTTP layer cleans such a path (redirect)
		}
		rq.apply = func(c catalogue) (catalogue, map[string]bool) {
			n := c.clone()
			if t, ok := n.Tasks[id]; ok {
				delete(n.Assoc, t.TemplateID+"/"+id)
			}
			delete(n.Tasks, id)
			return n, map[string]bool{}
		}
		return rq
	case k < 17: // create a template
		tid := r.Pick(tmplIDs)
		pk := r.Pick([]string{"P1", "P1", "P3", "PX"})
		p := tmpls[pk]
		rq := request{desc: fmt.Sprintf("create template %q script=%s", tid, pk), method: "POST", path: "/templates", body: map[string]interface{}{"id": tid, "type": "stream", "script": p.text}}
		_, exists := c.Templates[tid]
		if exists || pk == "PX" {
			rq.class = "invalid"
		} else {
			rq.class = "valid"
		}
		rq.apply = func(c catalogue) (catalogue, map[string]bool) {
			n := c.clone()
			n.Templates[tid] = "stream|" + p.text
			return n, map[string]bool{}
		}
		return rq
	case k < 19: // update a template (script and/or id)
		tid := existingT()
		pk := r.Pick([]string{"P1", "P2", "P2", "P3", "PX"})
		p := tmpls[pk]
		body := map[string]interface{}{"script": p.text}
		ntid := tid
		if r.Chance(0.2) {
			ntid = r.Pick(tmplIDs)
			body["id"] = ntid
		}
		rq := request{desc: fmt.Sprintf("update template %q script=%s id=%q", tid, pk, ntid), method: "PATCH", path: "/templates/" + tid, body: body, tmplUpd: tid}
		_, exists := c.Templates[tid]
		_, clash := c.Templates[ntid]
		if !exists || pk == "PX" {
			rq.class = "invalid"
		}
		if exists && ntid != tid && clash {
			rq.class = "rejected"
		}
		rq.apply = func(c catalogue) (catalogue, map[string]bool) {
			n := c.clone()
			delete(n.Templates, tid)
			n.Templates[ntid] = "stream|" + p.text
			touched := map[string]bool{}
			for id, t := range n.Tasks {
				if n.Assoc[tid+"/"+id] {
					t.Script, t.TemplateID, t.Type = p.text, ntid, "stream"
					n.Tasks[id] = t
					touched[id] = true
					if ntid != tid {
						delete(n.Assoc, tid+"/"+id)
						n.Assoc[ntid+"/"+id] = true
					}
				}
			}
			return n, touched
		}
		return rq
	default: // delete a template
		tid := existingT()
		rq := request{desc: fmt.Sprintf("delete template %q", tid), method: "DELETE", path: "/templates/" + tid}
		rq.apply = func(c catalogue) (catalogue, map[string]bool) {
			n := c.clone()
			delete(n.Templates, tid)
			for k := range n.Assoc {
				if strings.HasPrefix(k, tid+"/") {
					delete(n.Assoc, k)
				}
			}
			return n, map[string]bool{}
		}
		return rq
	}
}

// refreshed: a templated task re-reads its template's current script whenever it is updated.
func refreshed(c catalogue, t taskView) taskView {
	if tp, has := c.Templates[t.TemplateID]; has && t.TemplateID != "" {
		parts := strings.SplitN(tp, "|", 2)
		t.Type, t.Script = parts[0], parts[1]
	}
	return t
}

func canonVarsOf(k varsKind) string {
	b, _ := json.Marshal(varsJSON(k))
	return canonVars(b)
}

// ---- run ------------------------------------------------------------------------------------

// runMany: 101-260 tasks (more than one page of 100), a third enabled, then clean restarts: the
// listing must be complete and every enabled task must execute again.
func runMany(x *core.Ctx) {
	r := core.NewRng(x.Case.Seed, 41)
	scratch, err := os.MkdirTemp(x.Scratch, "c14m")
	if err != nil {
		x.Inconclusive(err.Error())
		return
	}
	defer os.RemoveAll(scratch)
	n := r.Range(101, 260)
	sub := fmt.Sprintf("catalogue of %d tasks, restart", n)
	if !x.Announce(sub) {
		return
	}
	x.Count("evaluations", 1)
	dbPath := filepath.Join(scratch, "kapacitor.db")
	var cur int32
	d, err := openDaemon(dbPath, "", &cur)
	if err != nil {
		x.Inconclusive(err.Error())
		return
	}
	defer func() { d.close() }()
	enabled := map[string]bool{}
	for i := 0; i < n; i++ {
		id := fmt.Sprintf("%s%03d", r.Pick([]string{"a", "m", "z"}), i)
		status := "disabled"
		if r.Chance(0.35) || i == n-1 {
			status = "enabled"
		}
		code, body := d.do("POST", "/tasks", map[string]interface{}{"id": id, "type": "stream", "script": scripts["S1"].text, "status": status, "dbrps": []map[string]string{{"db": "db1", "rp": "rp1"}}})
		if code != 200 {
			x.Violatef("valid-request-rejected", "a valid request was rejected: create task", sub, "create %s -> %d %s", id, code, body)
			return
		}
		enabled[id] = status == "enabled"
	}
	for round := 0; round < 2; round++ {
		d.close()
		d, err = openDaemon(dbPath, "", &cur)
		if err != nil {
			x.Violatef("restart-failed", "the daemon does not come up on its own storage file", sub, "%v", err)
			return
		}
		c, err := d.catalogue()
		if err != nil {
			x.Violatef("api-error", "listing failed after restart", sub, "%v", err)
			return
		}
		if len(c.Tasks) != n {
			x.Violatef("catalogue-after-restart", "after a clean restart the catalogue / running state differs: tasks missing from a large catalogue", sub, "%d of %d tasks listed", len(c.Tasks), n)
			return
		}
		for id, en := range enabled {
			t := c.Tasks[id]
			x.Count("executing_flags_checked", 1)
			if (t.Status == "enabled") != en || t.Executing != en || d.tm.IsExecuting(id) != en {
				x.Violatef("enabled-not-executing", "an enabled task whose start succeeds is not executing (after restart)", sub, "task %q of %d after restart %d: status %s executing=%v (task master %v), expected enabled=%v", id, n, round+1, t.Status, t.Executing, d.tm.IsExecuting(id), en)
				return
			}
		}
	}
	x.Nontrivial(fmt.Sprintf("many|%d", n/40))
}

func (prop) Run(x *core.Ctx) {
	if x.Case.Kind == "many" {
		runMany(x)
		return
	}
	r := core.NewRng(x.Case.Seed, 14)
	scratch, err := os.MkdirTemp(x.Scratch, "c14")
	if err != nil {
		x.Inconclusive(err.Error())
		return
	}
	defer os.RemoveAll(scratch)
	withCrash := x.Case.PBool("crash")
	sub := fmt.Sprintf("history seed=%d crash=%v", x.Case.Seed, withCrash)
	if !x.Announce(sub) {
		return
	}
	x.Count("evaluations", 1)
	dbPath := filepath.Join(scratch, "kapacitor.db")
	snapDir := filepath.Join(scratch, "snaps")
	os.MkdirAll(snapDir, 0755)
	var cur int32 = -1
	d, err := openDaemon(dbPath, snapDir, &cur)
	if err != nil {
		x.Inconclusive(err.Error())
		return
	}
	defer func() { d.close() }()
	var hist []string
	fail := func(kind, key, format string, a ...interface{}) {
		x.Violatef(kind, key, sub, "%s\nhistory:\n  %s", fmt.Sprintf(format, a...), strings.Join(hist, "\n  "))
	}
	model, err := d.catalogue()
	if err != nil {
		x.Inconclusive(err.Error())
		return
	}
	nops := r.Range(25, 60)
	accepted, rejected, restarts, bigUpdates := 0, 0, 0, 0
	crashBudget := 0
	if withCrash {
		crashBudget = 3
	}
	checkRunning := func(c catalogue, where string, mustRun map[string]bool) bool {
		for id, t := range c.Tasks {
			x.Count("executing_flags_checked", 1)
			if t.Executing && t.Status != "enabled" {
				fail("executing-but-disabled", "a disabled task is executing", "%s: task %q %s", where, id, tv(t))
				return false
			}
			if (mustRun == nil || mustRun[id]) && t.Status == "enabled" && startable(t) && !t.Executing {
				fail("enabled-not-executing", "an enabled task whose start succeeds is not executing ("+where2(where)+")", "%s: task %q %s", where, id, tv(t))
				return false
			}
			if d.tm.IsExecuting(id) != t.Executing {
				fail("executing-flag-wrong", "the API's executing flag disagrees with the task master", "%s: task %q: API %v, task master %v", where, id, t.Executing, d.tm.IsExecuting(id))
				return false
			}
		}
		// nothing may execute that the catalogue does not list
		for _, id := range taskIDs {
			if _, ok := c.Tasks[id]; !ok && d.tm.IsExecuting(id) {
				fail("executing-but-undefined", "a task that is not in the catalogue is executing", "%s: task %q is executing in the task master but is not defined", where, id)
				return false
			}
		}
		return true
	}
	for op := 0; op < nops; op++ {
		if x.NumViolations() > 20 {
			return
		}
		// clean restart
		if r.Chance(0.08) {
			hist = append(hist, "RESTART (clean shutdown, same file)")
			d.close()
			d, err = openDaemon(dbPath, snapDir, &cur)
			if err != nil {
				fail("restart-failed", "the daemon does not come up on its own storage file", "%v", err)
				return
			}
			restarts++
			got, err := d.catalogue()
			if err != nil {
				fail("api-error", "listing failed after restart", "%v", err)
				return
			}
			want := model.clone()
			for id, t := range want.Tasks {
				t.Executing = t.Status == "enabled" && startable(t)
				want.Tasks[id] = t
			}
			if df := diffCat(want, got, nil); df != "" {
				fail("catalogue-after-restart", "after a clean restart the catalogue / running state differs: "+firstDiff(df), "%s", df)
				return
			}
			got.Assoc = model.Assoc
			model = got
			continue
		}
		rq := genRequest(r, model)
		cur = int32(op)
		commitsBefore := d.st.Commits()
		code, body := d.do(rq.method, rq.path, rq.body)
		hist = append(hist, fmt.Sprintf("%s -> %d %s", rq.desc, code, errOf(body)))
		x.Count("requests", 1)
		x.Count("requests_"+strings.Fields(rq.desc)[0]+"_"+strings.Fields(rq.desc)[1], 1)
		got, err := d.catalogue()
		if err != nil {
			fail("api-error", "listing failed", "%v", err)
			return
		}
		success, touched := rq.apply(model)
		for id := range touched {
			if t, ok := success.Tasks[id]; ok {
				t.Executing = t.Status == "enabled" && startable(t)
				success.Tasks[id] = t
			}
		}
		if rq.method == "PATCH" && strings.HasPrefix(rq.path, "/tasks/") {
			// a task whose template has been deleted is decoupled from it by its next update
			for id := range success.Tasks {
				t := success.Tasks[id]
				_, old := model.Tasks[id]
				changedOrNew := !old || model.Tasks[id] != t || "/tasks/"+id == rq.path
				if tp, has := model.Templates[t.TemplateID]; t.TemplateID != "" && !has && changedOrNew {
					t.TemplateID = ""
					success.Tasks[id] = t
				} else if has && changedOrNew {
					// every update of a templated task re-reads the template's current script
					parts := strings.SplitN(tp, "|", 2)
					t.Type, t.Script = parts[0], parts[1]
					if touched[id] {
						t.Executing = t.Status == "enabled" && startable(t)
					}
					success.Tasks[id] = t
				}
			}
		}
		switch {
		case code/100 == 2:
			accepted++
			if rq.class == "invalid" || rq.class == "rejected" {
				fail("invalid-request-accepted", "a request that must be rejected was accepted: "+opKind(rq.desc), "%s -> %d", rq.desc, code)
				return
			}
			if df := diffCat(success, got, nil); df != "" {
				fail("catalogue-after-accepted-request", opKind(rq.desc)+": the catalogue is not the previous one plus the requested change: "+firstDiff(df), "%s -> %d\n%s", rq.desc, code, df)
				return
			}
			if rq.tmplUpd != "" && len(touched) >= 2 {
				bigUpdates++
			}
			if strings.HasPrefix(rq.desc, "rename") {
				bigUpdates++
			}
		case code/100 == 4:
			rejected++
			if rq.class == "valid" {
				fail("valid-request-rejected", "a valid request was rejected: "+opKind(rq.desc), "%s -> %d %s", rq.desc, code, body)
				return
			}
			if df := diffCat(model, got, nil); df != "" {
				fail("catalogue-after-rejected-request", opKind(rq.desc)+": a rejected request changed the catalogue: "+firstDiff(df), "%s -> %d\n%s", rq.desc, code, df)
				return
			}
		default:
			rejected++
			if rq.class == "valid" {
				fail("valid-request-rejected", "a valid request failed: "+opKind(rq.desc), "%s -> %d %s", rq.desc, code, body)
				return
			}
			// unchanged, or the change with the touched tasks possibly not executing
			dfOld := diffCat(model, got, nil)
			dfNew := diffCat(success, got, touched)
			if dfOld != "" && dfNew != "" {
				fail("catalogue-after-failed-request", opKind(rq.desc)+": after a failed request the catalogue is neither the old one nor the requested one: "+firstDiff(dfOld), "%s -> %d\nvs old: %s\nvs requested: %s", rq.desc, code, dfOld, dfNew)
				return
			}
		}
		mustRun := map[string]bool{}
		if code/100 == 2 {
			mustRun = touched
		}
		if !checkRunning(got, rq.desc, mustRun) {
			return
		}
		// crash inside this request: restart on the file as of every commit it made
		if crashBudget > 0 && d.st.Commits()-commitsBefore >= 2 && (rq.tmplUpd != "" || strings.HasPrefix(rq.desc, "rename") || r.Chance(0.3)) {
			crashBudget--
			for _, sn := range d.st.Snaps() {
				if sn.K <= commitsBefore || sn.K >= d.st.Commits() {
					continue
				}
				x.Count("crash_boundaries", 1)
				work := filepath.Join(scratch, fmt.Sprintf("crash-%d.db", sn.K))
				b, err := os.ReadFile(sn.Path)
				if err != nil {
					continue
				}
				os.WriteFile(work, b, 0600)
				var c2 int32
				d2, err := openDaemon(work, "", &c2)
				if err != nil {
					fail("restart-failed", "the daemon does not come up on the storage as of a commit inside a request", "%s, commit %d: %v", rq.desc, sn.K, err)
					return
				}
				cg, err := d2.catalogue()
				okRun := true
				if err == nil {
					for id, t := range cg.Tasks {
						if t.Status == "enabled" && startable(t) && !t.Executing {
							okRun = false
							fail("enabled-not-executing", "an enabled task whose start succeeds is not executing (after a crash inside a request)", "%s, commit %d: task %q %s", rq.desc, sn.K, id, tv(t))
						}
					}
				}
				d2.close()
				os.Remove(work)
				if err != nil || !okRun {
					return
				}
				norm := func(c catalogue) catalogue {
					n := c.clone()
					for id, t := range n.Tasks {
						t.Executing = false
						n.Tasks[id] = t
					}
					return n
				}
				dfOld, dfNew := diffCat(norm(model), norm(cg), nil), diffCat(norm(got), norm(cg), nil)
				if dfOld != "" && dfNew != "" {
					fail("catalogue-after-crash", opKind(rq.desc)+": after a crash inside the request the catalogue is neither the one before nor the one after it: "+firstDiff(dfNew), "%s, restart on the file as of commit %d (request made commits %d..%d)\nvs before: %s\nvs after: %s", rq.desc, sn.K, commitsBefore+1, d.st.Commits(), dfOld, dfNew)
					return
				}
			}
		}
		// the association set is model state: it follows the outcome the catalogue shows
		switch {
		case diffCat(success, got, touched) == "":
			got.Assoc = success.Assoc
		default:
			got.Assoc = model.Assoc
		}
		model = got
	}
	if accepted >= 3 && rejected >= 2 && bigUpdates >= 1 && restarts >= 1 {
		x.Nontrivial(sub)
	}
}

// errOf extracts the error text of a response (of an error response or of a task definition).
func errOf(body []byte) string {
	var m struct {
		Error string `json:"error"`
	}
	if json.Unmarshal(body, &m) == nil && m.Error != "" {
		return "error: " + clip(m.Error, 120)
	}
	return ""
}

func where2(w string) string {
	if strings.Contains(w, "RESTART") {
		return "after restart"
	}
	return "after a request"
}

func opKind(desc string) string {
	f := strings.Fields(desc)
	if len(f) >= 2 {
		return f[0] + " " + f[1]
	}
	return desc
}

func firstDiff(d string) string {
	if i := strings.Index(d, ";"); i > 0 {
		d = d[:i]
	}
	// fold ids and scripts
	var b strings.Builder
	inQ := false
	for _, c := range d {
		switch {
		case c == '"':
			inQ = !inQ
			if inQ {
				b.WriteString("\"..\"")
			}
		case inQ:
		default:
			b.WriteRune(c)
		}
	}
	return clip(b.String(), 160)
}

func clip(s string, n int) string {
	if len(s) > n {
		return s[:n] + "…"
	}
	return s
}

var _ = time.Second

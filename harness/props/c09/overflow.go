package c09

import (
	"fmt"
	"time"

	"github.com/influxdata/kapacitor/alert"

	"verifharness/core"
)

// Sub-monitor "overflow": one handler of a topic is stuck and its queue (topic-buffer-length,
// here the minimum of 1000) runs full. Events it cannot take are dropped for THAT handler by
// design; every other handler of the topic, wherever it stands in the registration order, must
// still receive every event exactly once and in order, and the topic state must follow.
func runOverflow(x *core.Ctx, r *core.Rng) {
	nh := r.Range(2, 4)
	stuckAt := r.Intn(nh) // position of the stuck handler in the registration order
	n := 1000 + r.Range(50, 700)
	sub := fmt.Sprintf("overflow: %d handlers, the one registered at position %d is stuck, %d events", nh, stuckAt, n)
	if !x.Announce(sub) {
		return
	}
	x.Count("evaluations", 1)
	tp := alert.NewTopics(1000)
	gate := make(chan struct{})
	hs := make([]*recHandler, nh)
	for i := range hs {
		hs[i] = &recHandler{}
		if i == stuckAt {
			hs[i].gate = gate
		}
		tp.RegisterHandler("t", hs[i])
	}
	ids := []string{"a", "b", "c"}
	last := map[string]alert.Level{}
	refused := 0
	for i := 0; i < n; i++ {
		id := ids[r.Intn(len(ids))]
		l := levels[r.Intn(4)]
		last[id] = l
		if err := tp.Collect(alert.Event{Topic: "t", State: alert.EventState{ID: id, Level: l, Message: fmt.Sprint(i), Time: t0.Add(time.Duration(i) * time.Second)}}); err != nil {
			refused++
		}
		// the producer must not outrun the healthy handlers by more than their queue holds
		// (that overflow would be theirs, and by design)
		if i%200 == 199 {
			lastSum, lastChange := -1, time.Now()
			for {
				behind, sum := false, 0
				for k, h := range hs {
					if k == stuckAt {
						continue
					}
					l := h.len()
					sum += l
					if l < i+1-600 {
						behind = true
					}
				}
				if sum != lastSum {
					lastSum, lastChange = sum, time.Now()
				}
				// (a handler that makes no progress at all for 2 s is not waited for any longer)
				if !behind || time.Since(lastChange) > 2*time.Second {
					break
				}
				time.Sleep(200 * time.Microsecond)
			}
		}
	}
	// state follows every event, also the ones the stuck handler could not take
	for id, l := range last {
		if s, ok := tp.EventState("t", id); !ok || s.Level != l {
			x.Violatef("event-states", "topic state does not follow the events while a handler queue is full", sub, "id %s: state %v (known %v), last collected level %v", id, s.Level, ok, l)
		}
	}
	close(gate)
	tp.DeleteTopic("t") // closes the queues: everything queued is delivered first
	for i, h := range hs {
		got := h.snapshot()
		x.Count("deliveries_compared", int64(len(got)))
		if i == stuckAt {
			// a subsequence in order, at least what its queue holds
			prev := -1
			for _, e := range got {
				var k int
				fmt.Sscan(e.State.Message, &k)
				if k <= prev {
					x.Violatef("handler-delivery", "the slow handler received events out of order or twice", sub, "event %d after %d", k, prev)
					break
				}
				prev = k
			}
			if len(got) < 1000 {
				x.Violatef("handler-delivery", "the slow handler received less than its queue holds", sub, "%d events", len(got))
			}
			continue
		}
		if len(got) != n {
			first := -1
			for k, e := range got {
				if e.State.Message != fmt.Sprint(k) {
					first = k
					break
				}
			}
			if first < 0 {
				first = len(got)
			}
			x.Violatef("handler-delivery", "a healthy handler missed events because another handler of the topic was stuck", sub, "handler registered at position %d (stuck one at %d) received %d of %d events, first missing %d; Collect reported %d overflows", i, stuckAt, len(got), n, first, refused)
			continue
		}
		for k, e := range got {
			if e.State.Message != fmt.Sprint(k) {
				x.Violatef("handler-delivery", "a healthy handler received events out of order", sub, "delivery %d is event %s", k, e.State.Message)
				break
			}
		}
	}
	if refused > 0 {
		x.Count("overflowed_collects", int64(refused))
		x.Nontrivial(fmt.Sprintf("overflow|%d|%d|%d", nh, stuckAt, n/100))
	}
}

// Package c09: topic state and handler delivery agree with the event history.
package c09

import (
	"encoding/json"
	"fmt"
	"os"
	"path/filepath"
	"regexp"
	"sort"
	"strings"
	"sync"
	"time"

	"github.com/anishathalye/porcupine"
	"github.com/influxdata/kapacitor/alert"
	alertservice "github.com/influxdata/kapacitor/services/alert"

	"verifharness/core"
	"verifharness/kit"
)

type prop struct{}

func init() { core.Register(prop{}) }

func (prop) ID() string    { return "C09" }
func (prop) Level() string { return "exploration" }
func (prop) Rule() string {
	return "exhaustive: every sequence of <= 4 Collect calls over 3 event IDs x 4 levels (22 620 histories) on a fresh alert.Topics, all queries after every step; model: seeded histories of 20-60 operations on the real alert service (Collect, UpdateEvent also on unknown topics, Register/Update/Deregister handler specs of kind log/publish/aggregate with generated match expressions over level() changed() name() taskName() alertDuration() and tags, anonymous handlers, DeleteTopic followed by new events, CloseTopic followed by new events: the topic returns from the store) over 3 topics, quiescent after every step; concurrent: 3-8 publishers collecting unique events on one topic with fast, slow and late/leaving handlers, EventState readers, under the race detector; overflow: one handler of 2-4 is stuck with a full queue (1000) while 1050-1700 events are collected. " +
		"Oracles: TopicState level == max level of the reference event map, TopicStates(pattern, min) and EventStates(topic, min) == reference filter, EventState == last state; every handler receives exactly the events its match admits while it is registered, once, in order, with PreviousLevel == level of the preceding event of that ID on that topic; published events reach the target topic's handlers once; aggregate counts sum to the events consumed; nothing reaches handlers of other topics; concurrent: per-publisher FIFO at every handler, exactly-once, previous-state links per ID form one chain, per (topic,id) porcupine register linearizability of Collect (write) / EventState (read), quiescent MaxLevel == max. " +
		"Non-trivial: a history whose events changed the topic level at least twice and were delivered to >= 1 handler / a concurrent run with >= 3 publishers and >= 100 events"
}
func (prop) Assumptions() []string {
	return []string{
		"aggregate handlers are judged on conservation (sum of counts == events consumed) and level == max of the window, as bounded progress (no aggregate event for 60 intervals after the last input ends the wait); window boundaries are timing dependent and not compared",
		"model histories wait for quiescence after every step (expected deliveries are known from the reference), so the order of asynchronous republication is deterministic; asynchronous interleavings are explored by the concurrent kind only",
		"a Collect that returns the documented 'failed to deliver' error is counted as reported, not lost (handler buffers are never filled in these workloads)",
	}
}
func (prop) RaceAnchorFiles() []string {
	return []string{"alert/topics.go", "alert/types.go", "services/alert/service.go", "services/alert/handlers.go", "services/alert/api.go"}
}
func (prop) MinNontrivial(tier string) int {
	if tier == "thorough" {
		return 2000
	}
	return 100
}
func (prop) CaseTimeoutSec(string) int { return 180 }

func (prop) Cases(tier string, seed uint64) []core.Case {
	var cs []core.Case
	// exhaustive: split by first event (12 shards)
	for i := 0; i < 12; i++ {
		n := 4
		if tier == "thorough" {
			n = 5
		}
		cs = append(cs, core.Case{ID: fmt.Sprintf("exh-%d", i), Kind: "exhaustive", Seed: uint64(i), N: n})
	}
	nm, nc := 24, 8
	if tier == "thorough" {
		nm, nc = 400, 120
	}
	for i := 0; i < nm; i++ {
		cs = append(cs, core.Case{ID: fmt.Sprintf("model-%d", i), Kind: "model", Seed: seed*9001 + uint64(i), N: 6})
	}
	for i := 0; i < nc; i++ {
		cs = append(cs, core.Case{ID: fmt.Sprintf("conc-%d", i), Kind: "concurrent", Seed: seed*9007 + uint64(i), N: 3, Race: i%2 == 0})
	}
	no := 4
	if tier == "thorough" {
		no = 40
	}
	for i := 0; i < no; i++ {
		cs = append(cs, core.Case{ID: fmt.Sprintf("overflow-%d", i), Kind: "overflow", Seed: seed*9011 + uint64(i), N: 4})
	}
	return cs
}

func (prop) Run(x *core.Ctx) {
	switch x.Case.Kind {
	case "overflow":
		r := core.NewRng(x.Case.Seed, 999)
		for i := 0; i < x.Case.N; i++ {
			runOverflow(x, r)
		}
	case "exhaustive":
		runExhaustive(x)
	case "model":
		r := core.NewRng(x.Case.Seed, 9)
		for i := 0; i < x.Case.N; i++ {
			runModel(x, r)
			if x.NumViolations() > 60 {
				return
			}
		}
	default:
		r := core.NewRng(x.Case.Seed, 99)
		for i := 0; i < x.Case.N; i++ {
			runConcurrent(x, r)
			if x.NumViolations() > 60 {
				return
			}
		}
	}
}

// ---- recording handler

type recHandler struct {
	mu     sync.Mutex
	events []alert.Event
	delay  time.Duration
	gate   chan struct{}
}

func (h *recHandler) Handle(e alert.Event) {
	if h.gate != nil {
		<-h.gate
	}
	if h.delay > 0 {
		time.Sleep(h.delay)
	}
	h.mu.Lock()
	h.events = append(h.events, e)
	h.mu.Unlock()
}
func (h *recHandler) snapshot() []alert.Event {
	h.mu.Lock()
	defer h.mu.Unlock()
	return append([]alert.Event{}, h.events...)
}
func (h *recHandler) len() int {
	h.mu.Lock()
	defer h.mu.Unlock()
	return len(h.events)
}

var levels = []alert.Level{alert.OK, alert.Info, alert.Warning, alert.Critical}
var t0 = time.Unix(1600000000, 0).UTC()

// ---- exhaustive over alert.Topics ---------------------------------------------------------

func runExhaustive(x *core.Ctx) {
	ids := []string{"a", "b", "c"}
	first := int(x.Case.Seed)
	maxLen := x.Case.N
	type step struct {
		id  string
		lvl alert.Level
	}
	alphabet := []step{}
	for _, id := range ids {
		for _, l := range levels {
			alphabet = append(alphabet, step{id, l})
		}
	}
	seq := []step{alphabet[first]}
	orders := map[string]bool{}
	var rec func()
	check := func() bool {
		sub := fmt.Sprint(seq)
		if !x.Announce(sub) {
			return true
		}
		x.Count("evaluations", 1)
		x.Count("histories", 1)
		tp := alert.NewTopics(0)
		h := &recHandler{}
		tp.RegisterHandler("t", h)
		ref := map[string]alert.Level{}
		var refPrev []alert.Level
		changes := 0
		lastMax := alert.OK
		for i, s := range seq {
			prev, had := ref[s.id]
			if !had {
				prev = alert.OK
			}
			refPrev = append(refPrev, prev)
			ref[s.id] = s.lvl
			if err := tp.Collect(alert.Event{Topic: "t", State: alert.EventState{ID: s.id, Level: s.lvl, Message: fmt.Sprint(i), Time: t0.Add(time.Duration(i) * time.Second)}}); err != nil {
				x.Violatef("collect-error", "Collect returned an error", sub, "history %v step %d: %v", seq, i, err)
				return false
			}
			if !checkQueries(x, tp, "t", ref, sub, fmt.Sprintf("history %v after step %d", seq, i)) {
				return false
			}
			if m := maxOf(ref); m != lastMax {
				changes++
				lastMax = m
			}
		}
		// observable order of the sorted slice
		tpc, _ := tp.Topic("t")
		orders[orderKey(tpc)] = true
		tp.DeleteTopic("t") // closes the handler: everything buffered is delivered first
		got := h.snapshot()
		if len(got) != len(seq) {
			x.Violatef("handler-delivery", "handler did not receive every collected event exactly once", sub, "history %v: handler received %d events, %d collected", seq, len(got), len(seq))
			return false
		}
		for i, e := range got {
			if e.State.ID != seq[i].id || e.State.Level != seq[i].lvl || e.State.Message != fmt.Sprint(i) {
				x.Violatef("handler-delivery", "handler received events out of order or altered", sub, "history %v: delivery %d is %s/%v/%q", seq, i, e.State.ID, e.State.Level, e.State.Message)
				return false
			}
			if e.PreviousState().Level != refPrev[i] {
				x.Violatef("previous-level", "previous level differs from the level of the preceding event with the same ID", sub, "history %v: event %d (%s) carries previous level %v, the preceding event of that ID had %v", seq, i, e.State.ID, e.PreviousState().Level, refPrev[i])
				return false
			}
		}
		if changes >= 2 {
			x.Nontrivial("exh|" + sub)
		}
		return true
	}
	rec = func() {
		if !check() {
			return
		}
		if len(seq) >= maxLen || x.NumViolations() > 40 {
			return
		}
		for _, s := range alphabet {
			seq = append(seq, s)
			rec()
			seq = seq[:len(seq)-1]
		}
	}
	rec()
	x.Count("distinct_event_orders_seen", int64(len(orders)))
}

func orderKey(t *alert.Topic) string {
	if t == nil {
		return ""
	}
	var parts []string
	for _, l := range []alert.Level{alert.Critical, alert.Warning, alert.Info, alert.OK} {
		es := t.EventStates(l)
		var ids []string
		for id := range es {
			ids = append(ids, id)
		}
		sort.Strings(ids)
		parts = append(parts, strings.Join(ids, ""))
	}
	return strings.Join(parts, "|")
}

func maxOf(ref map[string]alert.Level) alert.Level {
	m := alert.OK
	for _, l := range ref {
		if l > m {
			m = l
		}
	}
	return m
}

type topicsAPI interface {
	Topic(id string) (*alert.Topic, bool)
	TopicState(pattern string, minLevel alert.Level) map[string]alert.TopicState
	EventState(topic, event string) (alert.EventState, bool)
}

// checkQueries compares every query on one topic with the reference map id -> level.
func checkQueries(x *core.Ctx, tp topicsAPI, topic string, ref map[string]alert.Level, sub, where string) bool {
	t, ok := tp.Topic(topic)
	if !ok {
		x.Violatef("topic-missing", "topic with collected events is unknown", sub, "%s: topic %q does not exist", where, topic)
		return false
	}
	want := maxOf(ref)
	x.Count("queries_compared", 1)
	if got := t.MaxLevel(); got != want {
		x.Violatef("topic-level", fmt.Sprintf("topic level %v reported, max event level is %v", got, want), sub, "%s: topic level = %v, but the current event levels are %v (max %v)", where, got, ref, want)
		return false
	}
	for _, min := range levels {
		x.Count("queries_compared", 2)
		es := t.EventStates(min)
		var wantIDs, gotIDs []string
		for id, l := range ref {
			if l >= min {
				wantIDs = append(wantIDs, id)
			}
		}
		for id, s := range es {
			gotIDs = append(gotIDs, id)
			if s.Level != ref[id] {
				x.Violatef("event-states", "EventStates returns a stale level", sub, "%s: EventStates(%v)[%s].Level = %v, want %v", where, min, id, s.Level, ref[id])
				return false
			}
		}
		sort.Strings(wantIDs)
		sort.Strings(gotIDs)
		if fmt.Sprint(wantIDs) != fmt.Sprint(gotIDs) {
			x.Violatef("event-states", fmt.Sprintf("EventStates(min) is not the set of events at or above min (%d expected, %d returned)", len(wantIDs), len(gotIDs)), sub, "%s: EventStates(%v) = %v, want %v; event levels %v", where, min, gotIDs, wantIDs, ref)
			return false
		}
		ts := tp.TopicState("", min)
		_, listed := ts[topic]
		if listed != (want >= min) || (listed && ts[topic].Level != want) {
			x.Violatef("topic-states", "TopicStates(pattern, min) lists the wrong topics / levels", sub, "%s: TopicStates(\"\", %v) lists %q: %v (level %v); topic max level is %v", where, min, topic, listed, ts[topic].Level, want)
			return false
		}
	}
	for id, l := range ref {
		s, ok := tp.EventState(topic, id)
		if !ok || s.Level != l {
			x.Violatef("event-state", "EventState differs from the last collected state", sub, "%s: EventState(%s) = %v/%v, want %v", where, id, s.Level, ok, l)
			return false
		}
	}
	return true
}

// ---- model based on the real service ---------------------------------------------------------

type matchSpec struct {
	text string
	f    func(e refEvent) (bool, bool) // (matches, evaluationError)
}

var reTagRef = regexp.MustCompile(`"([a-z]+)"`)

// admits: every tag the expression references must exist on the event (the handler reports an
// error and drops the event otherwise, whatever short-circuiting would do), then the expression decides.
func (ms *matchSpec) admits(e refEvent) bool {
	for _, mm := range reTagRef.FindAllStringSubmatch(ms.text, -1) {
		if _, ok := e.tags[mm[1]]; !ok {
			return false
		}
	}
	ok, evalErr := ms.f(e)
	return ok && !evalErr
}

type refEvent struct {
	topic    string
	id       string
	level    alert.Level
	prev     alert.Level
	msg      string
	name     string
	taskName string
	dur      time.Duration
	tags     map[string]string
}

func genMatch(r *core.Rng, depth int) matchSpec {
	if depth > 0 && r.Chance(0.4) {
		a, b := genMatch(r, depth-1), genMatch(r, depth-1)
		if r.Chance(0.5) {
			return matchSpec{"(" + a.text + ") AND (" + b.text + ")", func(e refEvent) (bool, bool) {
				x, ex := a.f(e)
				if ex {
					return false, true
				}
				if !x {
					return false, false
				}
				return b.f(e)
			}}
		}
		return matchSpec{"(" + a.text + ") OR (" + b.text + ")", func(e refEvent) (bool, bool) {
			x, ex := a.f(e)
			if ex {
				return false, true
			}
			if x {
				return true, false
			}
			return b.f(e)
		}}
	}
	switch r.Intn(9) {
	case 0:
		l := levels[r.Intn(4)]
		return matchSpec{"level() >= " + l.String(), func(e refEvent) (bool, bool) { return e.level >= l, false }}
	case 1:
		l := levels[r.Intn(4)]
		return matchSpec{"level() == " + l.String(), func(e refEvent) (bool, bool) { return e.level == l, false }}
	case 2:
		return matchSpec{"changed() == TRUE", func(e refEvent) (bool, bool) { return e.level != e.prev, false }}
	case 3:
		return matchSpec{"changed() == FALSE", func(e refEvent) (bool, bool) { return e.level == e.prev, false }}
	case 4:
		v := r.Pick([]string{"a", "b"})
		return matchSpec{"\"host\" == '" + v + "'", func(e refEvent) (bool, bool) {
			h, ok := e.tags["host"]
			if !ok {
				return false, true
			}
			return h == v, false
		}}
	case 5:
		v := r.Pick([]string{"cpu", "mem"})
		return matchSpec{"name() == '" + v + "'", func(e refEvent) (bool, bool) { return e.name == v, false }}
	case 6:
		return matchSpec{"taskName() =~ /^t1/", func(e refEvent) (bool, bool) { return strings.HasPrefix(e.taskName, "t1"), false }}
	case 7:
		return matchSpec{"alertDuration() > 10s", func(e refEvent) (bool, bool) { return e.dur > 10*time.Second, false }}
	default:
		return matchSpec{"level() != OK AND \"dc\" != 'x'", func(e refEvent) (bool, bool) {
			if e.level == alert.OK {
				return false, false
			}
			d, ok := e.tags["dc"]
			if !ok {
				return false, true
			}
			return d != "x", false
		}}
	}
}

// refHandler is the reference view of one registered handler.
type refHandler struct {
	id      string
	topic   string
	kind    string // log | publish | aggregate | anon
	match   *matchSpec
	targets []string // publish
	aggID   string   // aggregate
	path    string   // log
	anon    *recHandler
	probe   bool // permanent anonymous recorder used to detect quiescence
	// expected deliveries (log/anon): messages in order
	expect []expDelivery
	// aggregate: number of events consumed
	consumed int
	maxLevel alert.Level
	// this step only (steps are separated by quiescence, which includes the aggregate flush)
	stepConsumed int
	stepMax      alert.Level
	aggSeen      int // aggregate events of this handler already judged
}

type expDelivery struct {
	id    string
	msg   string
	level alert.Level
	prev  alert.Level
}

type modelState struct {
	x      *core.Ctx
	svc    *alertservice.Service
	sub    string
	hist   []string
	events map[string]map[string]alert.Level // topic -> id -> level (nil topic = unknown)
	closed map[string]bool
	// stored mirrors the topic store: what a closed topic comes back with (non-OK collected
	// events and every UpdateEvent; a collected OK removes the entry)
	stored map[string]map[string]alert.Level
	hs     map[string]*refHandler // key topic/id
	order  []string               // registration order per topic matters for nothing observable
	seq    int
	// events consumed by aggregate handlers that no longer exist
	aggGone int
	// deliveries to anon recorders / log files are compared at quiescence
}

func (m *modelState) fail(kind, key, format string, a ...interface{}) {
	m.x.Violatef(kind, key, m.sub, "%s\nhistory:\n  %s", fmt.Sprintf(format, a...), strings.Join(m.hist, "\n  "))
}

// collect applies a collect to the reference: state update + expected deliveries, recursively for publish.
func (m *modelState) refCollect(e refEvent, depth int) {
	if m.closed[e.topic] {
		// the first event after CloseTopic restores the topic from the store
		m.closed[e.topic] = false
		m.events[e.topic] = map[string]alert.Level{}
		for id, l := range m.stored[e.topic] {
			m.events[e.topic][id] = l
		}
	}
	if m.events[e.topic] == nil {
		m.events[e.topic] = map[string]alert.Level{}
	}
	if m.stored[e.topic] == nil {
		m.stored[e.topic] = map[string]alert.Level{}
	}
	if e.level == alert.OK {
		delete(m.stored[e.topic], e.id)
	} else {
		m.stored[e.topic][e.id] = e.level
	}
	prev, had := m.events[e.topic][e.id]
	if !had {
		prev = alert.OK
	}
	e.prev = prev
	m.events[e.topic][e.id] = e.level
	var keys []string
	for k, h := range m.hs {
		if h.topic == e.topic {
			keys = append(keys, k)
		}
	}
	sort.Strings(keys)
	for _, k := range keys {
		h := m.hs[k]
		if h.match != nil {
			if !h.match.admits(e) {
				continue
			}
		}
		switch h.kind {
		case "log", "anon":
			h.expect = append(h.expect, expDelivery{e.id, e.msg, e.level, e.prev})
		case "publish":
			for _, t := range h.targets {
				ne := e
				ne.topic = t
				m.refCollect(ne, depth+1)
			}
		case "aggregate":
			h.consumed++
			if e.level > h.maxLevel {
				h.maxLevel = e.level
			}
			h.stepConsumed++
			if e.level > h.stepMax {
				h.stepMax = e.level
			}
		}
	}
}

var reCount = regexp.MustCompile(`^Received (\d+) events`)

func runModel(x *core.Ctx, r *core.Rng) {
	scratch, err := os.MkdirTemp(x.Scratch, "c09")
	if err != nil {
		x.Inconclusive(err.Error())
		return
	}
	defer os.RemoveAll(scratch)
	env, err := kit.NewEnv(kit.EnvOpts{Scratch: scratch, PersistTopics: true})
	if err != nil {
		x.Inconclusive(err.Error())
		return
	}
	defer env.Close()
	svc := env.Alert
	m := &modelState{x: x, svc: svc, events: map[string]map[string]alert.Level{}, closed: map[string]bool{}, stored: map[string]map[string]alert.Level{}, hs: map[string]*refHandler{}}
	m.sub = fmt.Sprintf("model seed=%d/%d", x.Case.Seed, r.Intn(1<<30))
	if !x.Announce(m.sub) {
		return
	}
	x.Count("evaluations", 1)
	topics := []string{"T1", "T2", "T3"}
	aggTopic := "AGG"
	aggRec := &recHandler{}
	svc.RegisterAnonHandler(aggTopic, aggRec)
	addProbe := func(t string) {
		h := &refHandler{id: "probe", topic: t, kind: "anon", anon: &recHandler{}, probe: true}
		svc.RegisterAnonHandler(t, h.anon)
		m.hs[t+"/probe"] = h
	}
	for _, t := range topics {
		addProbe(t)
	}
	nops := r.Range(20, 60)
	nh := 0
	levelChanges := 0
	lastMax := map[string]alert.Level{}
	delivered := false
	logf := func(format string, a ...interface{}) { m.hist = append(m.hist, fmt.Sprintf(format, a...)) }

	quiesce := func() bool {
		deadline := time.Now().Add(20 * time.Second)
		for {
			pending := ""
			for k, h := range m.hs {
				switch h.kind {
				case "anon":
					if h.anon.len() < len(h.expect) {
						pending = fmt.Sprintf("%s has %d of %d", k, h.anon.len(), len(h.expect))
					}
				case "log":
					if n := countLines(h.path); n < len(h.expect) {
						pending = fmt.Sprintf("%s has %d of %d", k, n, len(h.expect))
					}
				}
			}
			// aggregates have flushed what they consumed
			consumedAll, reported := 0, 0
			for _, h := range m.hs {
				if h.kind == "aggregate" {
					consumedAll += h.consumed
				}
			}
			consumedAll += m.aggGone
			for _, e := range aggRec.snapshot() {
				if mm := reCount.FindStringSubmatch(e.State.Message); mm != nil {
					var n int
					fmt.Sscan(mm[1], &n)
					reported += n
				}
			}
			if reported < consumedAll {
				pending = fmt.Sprintf("aggregates reported %d of %d consumed events", reported, consumedAll)
			}
			// state of republished events
			for t, evs := range m.events {
				if m.closed[t] {
					continue
				}
				for id, l := range evs {
					s, ok, _ := svc.EventState(t, id)
					if !ok || s.Level != l {
						pending = fmt.Sprintf("event %s/%s is %v/%v, expected %v", t, id, s.Level, ok, l)
					}
				}
			}
			if pending == "" {
				return true
			}
			if time.Now().After(deadline) {
				m.fail("handler-delivery", "expected deliveries / republished state did not arrive", "after 20 s still pending: %s", pending)
				return false
			}
			time.Sleep(300 * time.Microsecond)
		}
	}

	for op := 0; op < nops; op++ {
		switch k := r.Intn(21); {
		case k < 9: // collect
			t := topics[r.Intn(2)] // direct collects on T1/T2; T3 only receives publications
			if r.Chance(0.15) {
				t = "T3"
			}
			m.seq++
			e := refEvent{topic: t, id: r.Pick([]string{"a", "b", "c", "d"}), level: levels[r.Intn(4)], msg: fmt.Sprintf("m%d", m.seq),
				name: r.Pick([]string{"cpu", "mem"}), taskName: r.Pick([]string{"t1x", "t2x"}), dur: time.Duration(r.Intn(30)) * time.Second, tags: map[string]string{}}
			if r.Chance(0.85) {
				e.tags["host"] = r.Pick([]string{"a", "b"})
			}
			if r.Chance(0.7) {
				e.tags["dc"] = r.Pick([]string{"x", "y"})
			}
			logf("Collect(%s id=%s level=%v msg=%s name=%s task=%s dur=%v tags=%v)", t, e.id, e.level, e.msg, e.name, e.taskName, e.dur, e.tags)
			m.refCollect(e, 0)
			ev := alert.Event{Topic: t, State: alert.EventState{ID: e.id, Level: e.level, Message: e.msg, Time: t0.Add(time.Duration(m.seq) * time.Second), Duration: e.dur},
				Data: alert.EventData{Name: e.name, TaskName: e.taskName, Tags: e.tags}}
			if err := svc.Collect(ev); err != nil {
				m.fail("collect-error", "Collect returned an error", "%v", err)
				return
			}
		case k < 10: // UpdateEvent (also on an unknown topic)
			t := r.Pick([]string{"T1", "T2", "U1", "U2"})
			id := r.Pick([]string{"a", "b", "u"})
			l := levels[r.Intn(4)]
			logf("UpdateEvent(%s id=%s level=%v)", t, id, l)
			if m.events[t] == nil {
				m.events[t] = map[string]alert.Level{}
			}
			m.events[t][id] = l
			if m.stored[t] == nil {
				m.stored[t] = map[string]alert.Level{}
			}
			m.stored[t][id] = l
			perr := callUpdate(svc, t, alert.EventState{ID: id, Level: l, Message: "upd", Time: t0})
			if perr != "" {
				m.fail("update-event-panic", "UpdateEvent panicked", "UpdateEvent(%s, %s): %s", t, id, perr)
				return
			}
		case k < 14: // register a handler
			if nh >= 10 {
				continue
			}
			nh++
			t := topics[r.Intn(3)]
			h := &refHandler{id: fmt.Sprintf("h%d", nh), topic: t}
			if r.Chance(0.06) {
				// ids made of allowed characters that are also path elements
				h.id = r.Pick([]string{"..", ".", "h.x"})
				if _, dup := m.hs[t+"/"+h.id]; dup {
					h.id = fmt.Sprintf("h%d", nh)
				}
			}
			if r.Chance(0.6) {
				ms := genMatch(r, 2)
				h.match = &ms
			}
			spec := alertservice.HandlerSpec{ID: h.id, Topic: t}
			if h.match != nil {
				spec.Match = h.match.text
			}
			switch kk := r.Intn(10); {
			case kk < 3:
				h.kind = "anon"
				h.match = nil
				h.anon = &recHandler{}
				logf("RegisterAnonHandler(%s, %s)", t, h.id)
				svc.RegisterAnonHandler(t, h.anon)
				m.hs[t+"/"+h.id] = h
				continue
			case kk < 6:
				h.kind = "log"
				h.path = filepath.Join(scratch, fmt.Sprintf("%s-%s-%d.log", t, h.id, nh))
				spec.Kind = "log"
				spec.Options = map[string]interface{}{"path": h.path}
			case kk < 9:
				h.kind = "publish"
				spec.Kind = "publish"
				// only to higher topics: no cycles
				var tg []string
				for _, c := range topics {
					if c > t {
						tg = append(tg, c)
					}
				}
				if len(tg) == 0 {
					nh--
					continue
				}
				if len(tg) > 1 && r.Chance(0.5) {
					tg = tg[r.Intn(len(tg)):][:1]
				}
				h.targets = tg
				spec.Options = map[string]interface{}{"topics": toIface(tg)}
			default:
				h.kind = "aggregate"
				h.aggID = fmt.Sprintf("agg-%s-%d", h.id, nh)
				spec.Kind = "aggregate"
				// durations are given as a number of nanoseconds (the string form is not accepted)
				spec.Options = map[string]interface{}{"interval": float64(20 * time.Millisecond), "topic": aggTopic, "id": h.aggID}
			}
			logf("RegisterHandlerSpec(%s/%s kind=%s match=%q opts=%v)", t, h.id, spec.Kind, spec.Match, spec.Options)
			if err := svc.RegisterHandlerSpec(spec); err != nil {
				m.fail("handler-spec-rejected", "valid handler spec rejected: "+firstWords(err.Error(), 6), "%v", err)
				return
			}
			m.hs[t+"/"+h.id] = h
			// the service lists exactly the defined handlers of the topic
			specs, _ := svc.HandlerSpecs(t, "")
			var ids, want []string
			for _, sp := range specs {
				ids = append(ids, sp.ID)
			}
			for _, hh := range m.hs {
				if hh.topic == t && hh.kind != "anon" {
					want = append(want, hh.id)
				}
			}
			sort.Strings(ids)
			sort.Strings(want)
			if fmt.Sprint(ids) != fmt.Sprint(want) {
				m.fail("handler-specs", "the handlers listed for a topic are not the defined ones", "topic %s lists %v, defined are %v", t, ids, want)
				return
			}
		case k < 16: // deregister / update a spec handler
			var keys []string
			for kx, h := range m.hs {
				if h.kind != "aggregate" && !h.probe {
					keys = append(keys, kx)
				}
			}
			if len(keys) == 0 {
				continue
			}
			sort.Strings(keys)
			key := keys[r.Intn(len(keys))]
			h := m.hs[key]
			if !quiesce() {
				return
			}
			if h.kind == "anon" {
				logf("DeregisterAnonHandler(%s)", key)
				svc.DeregisterAnonHandler(h.topic, h.anon)
				if !m.checkHandler(key, h) {
					return
				}
				delete(m.hs, key)
				continue
			}
			if r.Chance(0.5) {
				logf("DeregisterHandlerSpec(%s)", key)
				if err := svc.DeregisterHandlerSpec(h.topic, h.id); err != nil {
					m.fail("handler-spec-rejected", "deregister failed", "%v", err)
					return
				}
				if !m.checkHandler(key, h) {
					return
				}
				delete(m.hs, key)
			} else {
				// update the match expression (same id)
				old := alertservice.HandlerSpec{ID: h.id, Topic: h.topic}
				ms := genMatch(r, 1)
				ns, found, _ := svc.HandlerSpec(h.topic, h.id)
				if !found {
					m.fail("handler-spec-missing", "registered handler spec not found", "%s", key)
					return
				}
				ns.Match = ms.text
				rename := r.Chance(0.4)
				if rename {
					nh++
					ns.ID = fmt.Sprintf("h%dr", nh)
				}
				logf("UpdateHandlerSpec(%s -> id %s match=%q)", key, ns.ID, ms.text)
				if err := svc.UpdateHandlerSpec(old, ns); err != nil {
					m.fail("handler-spec-rejected", "update failed: "+firstWords(err.Error(), 6), "%v", err)
					return
				}
				h.match = &ms
				if rename {
					delete(m.hs, key)
					h.id = ns.ID
					m.hs[h.topic+"/"+h.id] = h
					// the API lists exactly the defined handlers
					specs, _ := svc.HandlerSpecs(h.topic, "")
					var ids, want []string
					for _, sp := range specs {
						ids = append(ids, sp.ID)
					}
					for _, hh := range m.hs {
						if hh.topic == h.topic && hh.kind != "anon" {
							want = append(want, hh.id)
						}
					}
					sort.Strings(ids)
					sort.Strings(want)
					if fmt.Sprint(ids) != fmt.Sprint(want) {
						m.fail("handler-specs", "the handlers listed for a topic are not the defined ones", "topic %s lists %v, defined are %v", h.topic, ids, want)
						return
					}
				}
			}
		case k < 17: // delete a topic: "deletes all known events and state"; it returns with the next event
			t := topics[r.Intn(3)]
			if !quiesce() {
				return
			}
			logf("DeleteTopic(%s)", t)
			svc.DeleteTopic(t)
			delete(m.events, t)
			delete(m.stored, t)
			m.closed[t] = false
			for kx, h := range m.hs {
				// anonymous handlers belong to the deleted topic object (unspecified afterwards)
				if h.topic == t && h.kind == "anon" {
					if !m.checkHandler(kx, h) {
						return
					}
					delete(m.hs, kx)
				}
			}
			addProbe(t)
		case k < 18: // close a topic (what stopping its task does): it comes back from the store with the next event
			t := topics[r.Intn(3)]
			if !quiesce() {
				return
			}
			if !m.checkState() {
				return
			}
			logf("CloseTopic(%s)", t)
			if err := svc.CloseTopic(t); err != nil {
				m.fail("close-topic-error", "CloseTopic returned an error", "%v", err)
				return
			}
			m.x.Count("topics_closed", 1)
			if m.events[t] != nil {
				m.closed[t] = true
			}
			for kx, h := range m.hs {
				// anonymous handlers belong to the closed topic object
				if h.topic == t && h.kind == "anon" {
					if !m.checkHandler(kx, h) {
						return
					}
					delete(m.hs, kx)
				}
			}
			addProbe(t)
		default: // queries
			if !quiesce() {
				return
			}
			if !m.checkState() {
				return
			}
		}
		if !quiesce() {
			return
		}
		// aggregate events of this step: level == most severe level consumed in this step
		for k, h := range m.hs {
			if h.kind != "aggregate" {
				continue
			}
			var mine []alert.Event
			for _, e := range aggRec.snapshot() {
				if e.State.ID == h.aggID {
					mine = append(mine, e)
				}
			}
			if h.stepConsumed > 0 {
				got := alert.OK
				for _, e := range mine[min(h.aggSeen, len(mine)):] {
					if e.State.Level > got {
						got = e.State.Level
					}
				}
				x.Count("aggregate_levels_compared", 1)
				if got != h.stepMax {
					m.fail("aggregate", "aggregate event level differs from the most severe event of its interval", "handler %s: the events consumed in this step have max level %v, the aggregate event(s) emitted for them carry %v", k, h.stepMax, got)
					return
				}
			}
			h.aggSeen = len(mine)
			h.stepConsumed, h.stepMax = 0, alert.OK
		}
		for t, evs := range m.events {
			if mx := maxOf(evs); mx != lastMax[t] {
				lastMax[t] = mx
				levelChanges++
			}
		}
	}
	if !quiesce() || !m.checkState() {
		return
	}
	// aggregates: bounded progress, then conservation
	totalConsumed := 0
	for _, h := range m.hs {
		if h.kind == "aggregate" {
			totalConsumed += h.consumed
		}
	}
	if totalConsumed > 0 {
		last, lastN := time.Now(), -1
		for time.Since(last) < 60*20*time.Millisecond {
			if n := aggRec.len(); n != lastN {
				lastN, last = n, time.Now()
			}
			time.Sleep(5 * time.Millisecond)
		}
	}
	perAgg := map[string]int{}
	for _, e := range aggRec.snapshot() {
		mm := reCount.FindStringSubmatch(e.State.Message)
		if mm == nil {
			m.fail("aggregate", "aggregate event without a count", "message %q", e.State.Message)
			return
		}
		var n int
		fmt.Sscan(mm[1], &n)
		perAgg[e.State.ID] += n
	}
	for k, h := range m.hs {
		if h.kind != "aggregate" {
			continue
		}
		x.Count("aggregate_events_in", int64(h.consumed))
		if perAgg[h.aggID] != h.consumed {
			m.fail("aggregate", "aggregate handler: sum of counts differs from the events it consumed", "handler %s consumed %d matching events, the aggregate events on %s report %d in total", k, h.consumed, aggTopic, perAgg[h.aggID])
			return
		}
		delivered = delivered || h.consumed > 0
	}
	// final per-handler comparison (after everything is quiescent)
	for k, h := range m.hs {
		if h.kind == "log" || h.kind == "anon" {
			if !m.checkHandler(k, h) {
				return
			}
			delivered = delivered || len(h.expect) > 0
		}
	}
	if levelChanges >= 2 && delivered {
		x.Nontrivial(m.sub)
	}
}

func toIface(s []string) []interface{} {
	var o []interface{}
	for _, v := range s {
		o = append(o, v)
	}
	return o
}

func callUpdate(svc *alertservice.Service, topic string, st alert.EventState) (p string) {
	defer func() {
		if r := recover(); r != nil {
			p = fmt.Sprint(r)
		}
	}()
	if err := svc.UpdateEvent(topic, st); err != nil {
		return "error: " + err.Error()
	}
	return ""
}

func countLines(path string) int {
	b, err := os.ReadFile(path)
	if err != nil {
		return 0
	}
	return strings.Count(string(b), "\n")
}

// checkHandler compares what a log/anon handler received with the expectation, exactly.
func (m *modelState) checkHandler(key string, h *refHandler) bool {
	var got []expDelivery
	switch h.kind {
	case "anon":
		for _, e := range h.anon.snapshot() {
			got = append(got, expDelivery{e.State.ID, e.State.Message, e.State.Level, e.PreviousState().Level})
		}
	case "log":
		b, _ := os.ReadFile(h.path)
		for _, line := range strings.Split(strings.TrimSpace(string(b)), "\n") {
			if line == "" {
				continue
			}
			var d alert.Data
			if err := json.Unmarshal([]byte(line), &d); err != nil {
				m.fail("handler-delivery", "log handler wrote an unparsable line", "%s: %q: %v", key, line, err)
				return false
			}
			got = append(got, expDelivery{d.ID, d.Message, d.Level, d.PreviousLevel})
		}
	default:
		return true
	}
	m.x.Count("deliveries_compared", int64(len(h.expect)))
	// One collect can reach a topic along several publish paths; the copies (same message)
	// arrive in either order. Steps are separated by quiescence, so runs of one message are
	// compared as multisets and the sequence of runs exactly.
	norm := func(ds []expDelivery) []expDelivery {
		o := append([]expDelivery{}, ds...)
		for i := 0; i < len(o); {
			j := i + 1
			for j < len(o) && o[j].msg == o[i].msg {
				j++
			}
			run := o[i:j]
			sort.SliceStable(run, func(a, b int) bool { return fmt.Sprint(run[a]) < fmt.Sprint(run[b]) })
			i = j
		}
		return o
	}
	rawGot := got
	got, exp := norm(got), norm(h.expect)
	for i := 0; i < len(got) || i < len(exp); i++ {
		switch {
		case i >= len(got):
			m.fail("handler-delivery", "an event was not delivered to a matching registered handler", "handler %s (%s, match %s): expected delivery %d = %+v is missing (received %d of %d)", key, h.kind, matchText(h), i, exp[i], len(got), len(exp))
			return false
		case i >= len(exp):
			m.fail("handler-delivery", "a handler received an event it should not have (duplicate, non-matching or foreign)", "handler %s (%s, match %s): unexpected delivery %d = %+v (expected %d in total)", key, h.kind, matchText(h), i, got[i], len(exp))
			return false
		case got[i].id != exp[i].id || got[i].msg != exp[i].msg || got[i].level != exp[i].level:
			m.fail("handler-delivery", "a handler received a wrong / out of order event", "handler %s (%s, match %s): delivery %d is %+v, expected %+v", key, h.kind, matchText(h), i, got[i], exp[i])
			return false
		case got[i].prev != exp[i].prev:
			m.fail("previous-level", "previous level differs from the level of the preceding event with the same ID", "handler %s: delivery %d (%s %s): previous level %v, expected %v; received in this order: %+v", key, i, got[i].id, got[i].msg, got[i].prev, exp[i].prev, rawGot)
			return false
		}
	}
	return true
}

func matchText(h *refHandler) string {
	if h.match == nil {
		return "<none>"
	}
	return h.match.text
}

type svcAPI struct{ s *alertservice.Service }

func (a svcAPI) Topic(id string) (*alert.Topic, bool) { return nil, false }

func (m *modelState) checkState() bool {
	for t, evs := range m.events {
		if m.closed[t] {
			continue
		}
		where := "topic " + t
		ts, ok, _ := m.svc.TopicState(t)
		if !ok {
			m.fail("topic-missing", "topic with events is unknown", "%s", where)
			return false
		}
		want := maxOf(evs)
		m.x.Count("queries_compared", 1)
		if ts.Level != want {
			m.fail("topic-level", fmt.Sprintf("topic level %v reported, max event level is %v", ts.Level, want), "%s: TopicState level = %v, event levels %v", where, ts.Level, evs)
			return false
		}
		for _, min := range levels {
			m.x.Count("queries_compared", 2)
			es, err := m.svc.EventStates(t, min)
			if err != nil {
				m.fail("event-states", "EventStates failed", "%s: %v", where, err)
				return false
			}
			var wantIDs, gotIDs []string
			for id, l := range evs {
				if l >= min {
					wantIDs = append(wantIDs, id)
				}
			}
			for id := range es {
				gotIDs = append(gotIDs, id)
			}
			sort.Strings(wantIDs)
			sort.Strings(gotIDs)
			if fmt.Sprint(wantIDs) != fmt.Sprint(gotIDs) {
				m.fail("event-states", fmt.Sprintf("EventStates(min) is not the set of events at or above min (%d expected, %d returned)", len(wantIDs), len(gotIDs)), "%s: EventStates(%v) = %v, want %v; levels %v", where, min, gotIDs, wantIDs, evs)
				return false
			}
			all, _ := m.svc.TopicStates("T*", min)
			_, listed := all[t]
			if strings.HasPrefix(t, "T") && (listed != (want >= min) || (listed && all[t].Level != want)) {
				m.fail("topic-states", "TopicStates(pattern, min) lists the wrong topics / levels", "%s: TopicStates(T*, %v) lists it: %v (level %v), max level %v", where, min, listed, all[t].Level, want)
				return false
			}
			if !strings.HasPrefix(t, "T") && listed {
				m.fail("topic-states", "TopicStates(pattern) lists a topic that does not match the pattern", "%s listed for pattern T*", where)
				return false
			}
		}
	}
	return true
}

func firstWords(s string, n int) string {
	w := strings.Fields(s)
	if len(w) > n {
		w = w[:n]
	}
	return strings.Join(w, " ")
}

// ---- concurrent ---------------------------------------------------------------------------

type regIn struct {
	write bool
	val   string
}

func runConcurrent(x *core.Ctx, r *core.Rng) {
	np := r.Range(3, 8)
	per := r.Range(30, 80)
	ids := []string{"a", "b", "c"}[:r.Range(1, 3)]
	sub := fmt.Sprintf("concurrent publishers=%d per=%d ids=%d seed=%d", np, per, len(ids), r.Intn(1<<30))
	if !x.Announce(sub) {
		return
	}
	x.Count("evaluations", 1)
	tp := alert.NewTopics(0)
	fast := &recHandler{}
	slow := &recHandler{delay: 50 * time.Microsecond}
	tp.RegisterHandler("t", fast)
	tp.RegisterHandler("t", slow)
	other := &recHandler{}
	tp.RegisterHandler("other", other)
	late := &recHandler{}
	var mu sync.Mutex
	var ops []porcupine.Operation
	clock := func() int64 { return time.Now().UnixNano() }
	var wg sync.WaitGroup
	// per publisher: seq at which the late handler was certainly registered / deregistered
	var lateRegistered, lateGone int64 // clock values
	seeds := make([]uint64, np)
	for p := range seeds {
		seeds[p] = r.Uint64()
	}
	type sent struct {
		p, seq     int
		id         string
		call, done int64
	}
	sentBy := make([][]sent, np)
	start := make(chan struct{})
	for p := 0; p < np; p++ {
		wg.Add(1)
		go func(p int) {
			defer wg.Done()
			pr := core.NewRng(seeds[p], uint64(p))
			<-start
			for s := 0; s < per; s++ {
				id := ids[pr.Intn(len(ids))]
				msg := fmt.Sprintf("%d.%d", p, s)
				ev := alert.Event{Topic: "t", State: alert.EventState{ID: id, Level: levels[pr.Intn(4)], Message: msg, Time: t0}}
				c := clock()
				err := tp.Collect(ev)
				d := clock()
				if err != nil {
					x.Count("collect_errors_reported", 1)
				}
				mu.Lock()
				ops = append(ops, porcupine.Operation{ClientId: p, Input: regIn{true, id + "=" + msg}, Call: c, Output: "", Return: d})
				sentBy[p] = append(sentBy[p], sent{p, s, id, c, d})
				mu.Unlock()
				if pr.Chance(0.1) {
					time.Sleep(time.Duration(pr.Intn(200)) * time.Microsecond)
				}
			}
		}(p)
	}
	// readers
	stopR := make(chan struct{})
	var rwg sync.WaitGroup
	for q := 0; q < 2; q++ {
		rwg.Add(1)
		go func(q int) {
			defer rwg.Done()
			<-start
			i := 0
			for {
				select {
				case <-stopR:
					return
				default:
				}
				id := ids[i%len(ids)]
				i++
				c := clock()
				s, ok := tp.EventState("t", id)
				d := clock()
				out := ""
				if ok {
					out = s.Message
				}
				mu.Lock()
				ops = append(ops, porcupine.Operation{ClientId: np + q, Input: regIn{false, id}, Call: c, Output: out, Return: d})
				mu.Unlock()
				time.Sleep(20 * time.Microsecond)
			}
		}(q)
	}
	// late handler joins and leaves
	rwg.Add(1)
	go func() {
		defer rwg.Done()
		<-start
		time.Sleep(300 * time.Microsecond)
		tp.RegisterHandler("t", late)
		mu.Lock()
		lateRegistered = clock()
		mu.Unlock()
		time.Sleep(700 * time.Microsecond)
		mu.Lock()
		lateGone = clock()
		mu.Unlock()
		tp.DeregisterHandler("t", late)
	}()
	close(start)
	wg.Wait()
	close(stopR)
	rwg.Wait()
	total := np * per
	// quiescent state
	final := map[string]alert.Level{}
	tpc, _ := tp.Topic("t")
	for id, s := range tpc.EventStates(alert.OK) {
		final[id] = s.Level
	}
	if got, want := tpc.MaxLevel(), maxOf(final); got != want {
		x.Violatef("topic-level", fmt.Sprintf("topic level %v reported, max event level is %v", got, want), sub, "after %d concurrent collects: MaxLevel = %v, event levels %v", total, got, final)
	}
	for _, min := range levels {
		es := tpc.EventStates(min)
		n := 0
		for _, l := range final {
			if l >= min {
				n++
			}
		}
		if len(es) != n {
			x.Violatef("event-states", fmt.Sprintf("EventStates(min) is not the set of events at or above min (%d expected, %d returned)", n, len(es)), sub, "quiescent EventStates(%v) returned %d events, levels %v", min, len(es), final)
		}
	}
	tp.DeleteTopic("t") // drains and closes the handlers
	tp.DeleteTopic("other")
	if other.len() != 0 {
		x.Violatef("handler-delivery", "a handler of another topic received events", sub, "%d events", other.len())
	}
	for name, h := range map[string]*recHandler{"fast": fast, "slow": slow} {
		got := h.snapshot()
		x.Count("deliveries_compared", int64(len(got)))
		if len(got) != total {
			x.Violatef("handler-delivery", "handler did not receive every collected event exactly once", sub, "%s handler received %d events, %d were collected", name, len(got), total)
			continue
		}
		if d := fifoCheck(got, np, per, true); d != "" {
			x.Violatef("handler-delivery", "per-publisher FIFO / exactly-once violated", sub, "%s handler: %s", name, d)
		}
		// previous-state chain per ID: every event's previous message is the message of exactly
		// one other event of that ID (or empty for the first); no two events share a previous
		prevOf := map[string]string{}
		seenPrev := map[string]string{}
		for _, e := range got {
			key := e.State.ID + "=" + e.PreviousState().Message
			if o, dup := seenPrev[key]; dup {
				x.Violatef("previous-level", "two events of one ID claim the same preceding event", sub, "%s handler: events %q and %q (id %s) both carry previous state %q", name, o, e.State.Message, e.State.ID, e.PreviousState().Message)
				break
			}
			seenPrev[key] = e.State.Message
			prevOf[e.State.Message] = e.PreviousState().Message
		}
		// the previous-state links give the order in which the topic applied the events of an
		// ID; the handler must be handed them in that order (FIFO with respect to the state)
		lastByID := map[string]string{}
		for i, e := range got {
			if last, ok := lastByID[e.State.ID]; ok && prevOf[e.State.Message] != last {
				// e does not directly follow the previously delivered event of its ID: is it older?
				older := false
				for cur, n := last, 0; cur != "" && n < len(got); cur, n = prevOf[cur], n+1 {
					if cur == e.State.Message {
						older = true
						break
					}
				}
				if older {
					x.Violatef("handler-delivery", "events of one ID are handed to a handler in another order than the topic applied them", sub, "%s handler: delivery %d is %q (id %s), handed over after %q although the topic applied it earlier (its state was already overwritten)", name, i, e.State.Message, e.State.ID, last)
					break
				}
			}
			lastByID[e.State.ID] = e.State.Message
		}
	}
	// late handler: no duplicates, per-publisher order, and every event whose Collect began after
	// the registration returned and ended before the deregistration began must be there
	lg := late.snapshot()
	if d := fifoCheck(lg, np, per, false); d != "" {
		x.Violatef("handler-delivery", "per-publisher FIFO / exactly-once violated", sub, "late handler: %s", d)
	}
	have := map[string]bool{}
	for _, e := range lg {
		have[e.State.Message] = true
	}
	must := 0
	for p := range sentBy {
		for _, s := range sentBy[p] {
			if s.call > lateRegistered && lateRegistered != 0 && s.done < lateGone {
				must++
				if !have[fmt.Sprintf("%d.%d", s.p, s.seq)] {
					x.Violatef("handler-delivery", "an event collected while a handler was registered was not delivered to it", sub, "late handler registered at %d, deregistration began at %d; event %d.%d collected in [%d,%d] is missing", lateRegistered, lateGone, s.p, s.seq, s.call, s.done)
					must = -1 << 30
					break
				}
			}
		}
	}
	x.Count("late_handler_obligations", int64(max0(must)))
	// linearizability per id
	model := porcupine.Model{
		Partition: func(history []porcupine.Operation) [][]porcupine.Operation {
			by := map[string][]porcupine.Operation{}
			for _, o := range history {
				in := o.Input.(regIn)
				id := in.val
				if in.write {
					id = strings.SplitN(in.val, "=", 2)[0]
				}
				by[id] = append(by[id], o)
			}
			var out [][]porcupine.Operation
			for _, v := range by {
				out = append(out, v)
			}
			return out
		},
		Init: func() interface{} { return "" },
		Step: func(st, in, out interface{}) (bool, interface{}) {
			i := in.(regIn)
			if i.write {
				return true, strings.SplitN(i.val, "=", 2)[1]
			}
			return out.(string) == st.(string), st
		},
		DescribeOperation: func(in, out interface{}) string { return fmt.Sprintf("%+v -> %v", in, out) },
	}
	x.Count("history_operations", int64(len(ops)))
	res := porcupine.CheckOperationsTimeout(model, ops, 20*time.Second)
	switch res {
	case porcupine.Illegal:
		x.Violatef("not-linearizable", "Collect / EventState history of one event ID is not linearizable", sub, "%d operations (%d collects)", len(ops), total)
	case porcupine.Unknown:
		x.Count("porcupine_timeouts", 1)
	default:
		x.Count("porcupine_partitions_ok", int64(len(ids)))
	}
	if np >= 3 && total >= 100 {
		x.Nontrivial(sub)
	}
}

func max0(n int) int {
	if n < 0 {
		return 0
	}
	return n
}

// fifoCheck: messages "p.seq": no duplicates, per publisher strictly increasing; complete = all present.
func fifoCheck(got []alert.Event, np, per int, complete bool) string {
	last := make([]int, np)
	for i := range last {
		last[i] = -1
	}
	count := make([]int, np)
	for i, e := range got {
		var p, s int
		if _, err := fmt.Sscanf(e.State.Message, "%d.%d", &p, &s); err != nil || p >= np {
			return fmt.Sprintf("delivery %d has a foreign message %q", i, e.State.Message)
		}
		if s <= last[p] {
			return fmt.Sprintf("delivery %d: publisher %d event %d arrived after its event %d (duplicate or reordered)", i, p, s, last[p])
		}
		last[p] = s
		count[p]++
	}
	if complete {
		for p := range count {
			if count[p] != per {
				return fmt.Sprintf("publisher %d: %d of %d events delivered", p, count[p], per)
			}
		}
	}
	return ""
}

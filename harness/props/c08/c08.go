// Package c08: alert state survives restart - no lost or phantom level after recovery.
//
// An uninterrupted run U is driven one point at a time on a real Bolt file whose storage
// service is owned by the harness: after every committed Update a consistent copy of the file is
// taken together with the index of the point in flight. For every such transaction boundary a
// fresh service stack is opened on the copy (= a crash at that boundary followed by a restart),
// the same tasks are started and the remaining points are fed.
package c08

import (
	"bufio"
	"encoding/json"
	"fmt"
	"os"
	"path/filepath"
	"sort"
	"strconv"
	"strings"
	"sync"
	"sync/atomic"
	"time"

	"github.com/influxdata/kapacitor"
	"github.com/influxdata/kapacitor/alert"
	alertservice "github.com/influxdata/kapacitor/services/alert"
	bolt "go.etcd.io/bbolt"

	"verifharness/core"
	"verifharness/kit"
)

type prop struct{}

func init() { core.Register(prop{}) }

func (prop) ID() string    { return "C08" }
func (prop) Level() string { return "exploration" }
func (prop) Rule() string {
	return "histories: 12-30 points over 2-4 alert IDs (levels OK/INFO/WARNING/CRITICAL from thresholds on a field) through a task whose alert node has a named topic, an anonymous topic (.log handler) or both, with/without stateChangesOnly and noRecoveries, topic persistence on, on a real Bolt file; the uninterrupted run U is driven point by point to quiescence (a filler point of a foreign group proves the alert node finished the previous one); a copy of the file is taken after EVERY committed storage transaction; for every boundary: restart a fresh stack on the copy, start the same task, feed the points after the one in flight. " +
		"Oracles: (1) what the restarted service reports for every topic/ID equals what is on disk at that boundary; (2) on disk every ID not in flight has its last non-OK level, or nothing if its last level is OK (in flight: before or after); (3) the final state of every topic after the remaining points equals U's, for every ID that is not the in-flight one or has later points; (4) for every handler and ID: if the final level differs from the last level the handler was told before the crash, its last notification after the restart carries the final level (judged under every legitimate reading of which in-flight notifications were delivered before the crash); an OK is only told to a handler if the ID was non-OK before. " +
		"Non-trivial: a (history, boundary) whose in-flight event changed the level of its ID and where at least one other ID was non-OK on disk"
}
func (prop) Assumptions() []string {
	return []string{
		"a crash is modelled at transaction boundaries of Bolt (its atomic commit is trusted); the in-flight point is lost with the crash, the points after it are delivered after the restart",
		"notifications are asynchronous: for the in-flight point every prefix of its notifications may or may not have reached the handler before the crash; each prefix is judged",
	}
}
func (prop) MinNontrivial(tier string) int {
	if tier == "thorough" {
		return 3000
	}
	return 150
}
func (prop) CaseTimeoutSec(string) int { return 300 }

func (prop) Cases(tier string, seed uint64) []core.Case {
	n := 96
	if tier == "thorough" {
		n = 1500
	}
	var cs []core.Case
	for i := 0; i < n; i++ {
		cs = append(cs, core.Case{ID: fmt.Sprintf("hist-%d", i), Kind: "history", Seed: seed*8009 + uint64(i), N: 1})
	}
	// events collected on the service directly (any level sequence, also OK for IDs that have no
	// stored state, several topics)
	for i := 0; i < n/3; i++ {
		cs = append(cs, core.Case{ID: fmt.Sprintf("svc-%d", i), Kind: "service", Seed: seed*8011 + uint64(i), N: 1})
	}
	return cs
}

var t0 = time.Unix(1600000000, 0).UTC()

// diskStates reads topic -> id -> level straight from a Bolt file.
func diskStates(path string) (map[string]map[string]alert.Level, error) {
	db, err := bolt.Open(path, 0600, &bolt.Options{Timeout: 2 * time.Second, ReadOnly: true})
	if err != nil {
		return nil, err
	}
	defer db.Close()
	out := map[string]map[string]alert.Level{}
	err = db.View(func(tx *bolt.Tx) error {
		root := tx.Bucket([]byte(alertservice.TopicStatesNameSpace))
		if root == nil {
			return nil
		}
		return root.ForEach(func(k, v []byte) error {
			if v != nil {
				return nil
			}
			b := root.Bucket(k)
			m := map[string]alert.Level{}
			out[string(k)] = m
			return b.ForEach(func(id, data []byte) error {
				var es struct {
					Level alert.Level `json:"level"`
				}
				if err := json.Unmarshal(data, &es); err != nil {
					return fmt.Errorf("topic %s id %s: %v (%s)", k, id, err, data)
				}
				m[string(id)] = es.Level
				return nil
			})
		})
	})
	return out, err
}

// ---- scenario -------------------------------------------------------------------------------

type scenario struct {
	named, anon      bool
	stateChangesOnly bool
	noRecoveries     bool
	npoints          int
	ids              []string
	pts              []point
}

type point struct {
	id string
	v  int64
}

func levelOf(v int64) alert.Level {
	switch {
	case v > 2:
		return alert.Critical
	case v > 1:
		return alert.Warning
	case v > 0:
		return alert.Info
	}
	return alert.OK
}

func (sc scenario) script(logPath string) string {
	s := "stream|from().measurement('m').groupBy('g')|alert().id('{{ index .Tags \"g\" }}').message('{{ index .Fields \"n\" }}').info(lambda: \"v\" > 0).warn(lambda: \"v\" > 1).crit(lambda: \"v\" > 2)"
	if sc.stateChangesOnly {
		s += ".stateChangesOnly()"
	}
	if sc.noRecoveries {
		s += ".noRecoveries()"
	}
	if sc.named {
		s += ".topic('T')"
	}
	if sc.anon {
		s += ".log('" + logPath + "')"
	}
	return s
}

func (sc scenario) describe() string {
	var ps []string
	for i, p := range sc.pts {
		ps = append(ps, fmt.Sprintf("%d:%s=%v", i, p.id, levelOf(p.v)))
	}
	return fmt.Sprintf("named=%v anon=%v stateChangesOnly=%v noRecoveries=%v points [%s]", sc.named, sc.anon, sc.stateChangesOnly, sc.noRecoveries, strings.Join(ps, " "))
}

type told struct {
	id    string
	n     int // index of the point that caused it
	level alert.Level
}

type recHandler struct {
	mu sync.Mutex
	ev []told
}

func (h *recHandler) Handle(e alert.Event) {
	n, _ := strconv.Atoi(strings.TrimSpace(e.State.Message))
	h.mu.Lock()
	h.ev = append(h.ev, told{e.State.ID, n, e.State.Level})
	h.mu.Unlock()
}
func (h *recHandler) snapshot() []told {
	h.mu.Lock()
	defer h.mu.Unlock()
	return append([]told{}, h.ev...)
}

func readLog(path string) []told {
	f, err := os.Open(path)
	if err != nil {
		return nil
	}
	defer f.Close()
	var out []told
	sc := bufio.NewScanner(f)
	sc.Buffer(make([]byte, 1<<20), 1<<24)
	for sc.Scan() {
		var d struct {
			ID      string      `json:"id"`
			Message string      `json:"message"`
			Level   alert.Level `json:"level"`
		}
		if json.Unmarshal(sc.Bytes(), &d) == nil {
			n, _ := strconv.Atoi(strings.TrimSpace(d.Message))
			out = append(out, told{d.ID, n, d.Level})
		}
	}
	return out
}

type runResult struct {
	final    map[string]map[string]alert.Level // topic -> id -> level
	toldT    []told                            // recorder on the named topic
	toldAnon []told                            // log handler on the anonymous topic
	restored map[string]map[string]alert.Level
	snaps    []kit.SnapInfo
	anonName string
}

// run drives points[from:] through a fresh stack on the Bolt file at dbPath.
func run(x *core.Ctx, sc scenario, dbPath, snapDir, logPath string, from int) (res runResult, ok bool) {
	var cur int32 = -1
	ss, err := kit.OpenBoltStorage(dbPath, snapDir, &cur)
	if err != nil {
		x.Inconclusive(err.Error())
		return res, false
	}
	env, err := kit.NewEnv(kit.EnvOpts{Scratch: x.Scratch, PersistTopics: true, AlertStorage: ss})
	if err != nil {
		ss.CloseBolt()
		x.Inconclusive(err.Error())
		return res, false
	}
	defer func() {
		env.Close()
		ss.CloseBolt()
	}()
	svc := env.Alert
	// what the restarted service reports before any task runs
	res.restored = map[string]map[string]alert.Level{}
	ts, _ := svc.TopicStates("", alert.OK)
	for t := range ts {
		es, _ := svc.EventStates(t, alert.OK)
		m := map[string]alert.Level{}
		for id, s := range es {
			m[id] = s.Level
		}
		res.restored[t] = m
	}
	rec := &recHandler{}
	if sc.named {
		svc.RegisterAnonHandler("T", rec)
	}
	et, err := env.StartStream("A", sc.script(logPath), nil)
	if err != nil {
		x.Violatef("valid-task-rejected", "valid alert task rejected: "+firstWords(err.Error(), 6), sc.describe(), "%v", err)
		return res, false
	}
	alertNode := ""
	if st, err := et.ExecutionStats(); err == nil {
		for name := range st.NodeStats {
			if strings.HasPrefix(name, "alert") {
				alertNode = name
			}
		}
	}
	written := 0
	for i := from; i < len(sc.pts); i++ {
		atomic.StoreInt32(&cur, int32(i))
		p := sc.pts[i]
		env.Write(kit.Point("m", map[string]string{"g": p.id}, map[string]interface{}{"v": p.v, "n": int64(i)}, t0.Add(time.Duration(i)*time.Second)))
		// filler of a foreign group: once the alert node has READ it, point i is fully processed
		env.Write(kit.Point("m", map[string]string{"g": "zz-filler"}, map[string]interface{}{"v": int64(0), "n": int64(-1)}, t0.Add(time.Duration(i)*time.Second)))
		written += 2
		deadline := time.Now().Add(10 * time.Second)
		for {
			st, err := et.ExecutionStats()
			if err == nil {
				if alertNode == "" {
					for name := range st.NodeStats {
						if strings.HasPrefix(name, "alert") {
							alertNode = name
						}
					}
				}
				if c, _ := st.NodeStats[alertNode]["collected"].(int64); c >= int64(written) {
					break
				}
			}
			if time.Now().After(deadline) {
				x.Inconclusive("alert node did not consume the points within 10 s")
				return res, false
			}
			time.Sleep(50 * time.Microsecond)
		}
	}
	atomic.StoreInt32(&cur, int32(len(sc.pts)))
	res.anonName = "verif:A:" + alertNode
	// final states (before the task stops: stopping closes the anonymous topic)
	res.final = map[string]map[string]alert.Level{}
	for _, t := range []string{"T", res.anonName} {
		es, err := svc.EventStates(t, alert.OK)
		if err != nil {
			continue
		}
		m := map[string]alert.Level{}
		for id, s := range es {
			if id != "zz-filler" {
				m[id] = s.Level
			}
		}
		res.final[t] = m
	}
	// asynchronous notifications: stopping the task closes the anonymous topic and deregistering the
	// recorder closes its queue; both deliver everything that is queued first
	env.TM.StopTask("A")
	if sc.named {
		svc.DeregisterAnonHandler("T", rec)
	}
	res.toldT = rec.snapshot()
	res.toldAnon = readLog(logPath)
	res.snaps = ss.Snaps()
	return res, true
}

// runService: direct Collect histories on the service; crash after every commit; oracles (1) and (2).
func runService(x *core.Ctx) {
	r := core.NewRng(x.Case.Seed, 88)
	scratch, err := os.MkdirTemp(x.Scratch, "c08s")
	if err != nil {
		x.Inconclusive(err.Error())
		return
	}
	defer os.RemoveAll(scratch)
	type ev struct {
		topic, id string
		level     alert.Level
		op        string // "" collect, "close" CloseTopic (what stopping the task does), "delete" DeleteTopic
	}
	topics := []string{"T1", "T2", "T3"}[:r.Range(1, 3)]
	ids := []string{"a", "b", "c", "d"}
	var evs []ev
	for i, n := 0, r.Range(10, 30); i < n; i++ {
		e := ev{topic: r.Pick(topics), id: r.Pick(ids), level: levels4[r.Intn(4)]}
		switch k := r.Intn(100); {
		case k < 10:
			e.op = "close"
		case k < 18:
			e.op = "delete"
		}
		evs = append(evs, e)
	}
	var desc []string
	for i, e := range evs {
		if e.op != "" {
			desc = append(desc, fmt.Sprintf("%d:%s(%s)", i, e.op, e.topic))
			continue
		}
		desc = append(desc, fmt.Sprintf("%d:%s/%s=%v", i, e.topic, e.id, e.level))
	}
	sub := "service events [" + strings.Join(desc, " ") + "]"
	if !x.Announce(sub) {
		return
	}
	x.Count("evaluations", 1)
	snapDir := filepath.Join(scratch, "snaps")
	os.MkdirAll(snapDir, 0755)
	var cur int32 = -1
	ss, err := kit.OpenBoltStorage(filepath.Join(scratch, "u.db"), snapDir, &cur)
	if err != nil {
		x.Inconclusive(err.Error())
		return
	}
	env, err := kit.NewEnv(kit.EnvOpts{Scratch: x.Scratch, PersistTopics: true, AlertStorage: ss})
	if err != nil {
		ss.CloseBolt()
		x.Inconclusive(err.Error())
		return
	}
	for i, e := range evs {
		atomic.StoreInt32(&cur, int32(i))
		switch e.op {
		case "close":
			env.Alert.CloseTopic(e.topic)
			x.Count("topics_closed", 1)
			continue
		case "delete":
			if err := env.Alert.DeleteTopic(e.topic); err != nil {
				x.Violatef("collect-error", "DeleteTopic failed", sub, "op %d: %v", i, err)
			}
			x.Count("topics_deleted", 1)
			continue
		}
		if err := env.Alert.Collect(alert.Event{Topic: e.topic, State: alert.EventState{ID: e.id, Level: e.level, Message: fmt.Sprint(i), Time: t0.Add(time.Duration(i) * time.Second)}}); err != nil {
			x.Violatef("collect-error", "Collect failed", sub, "event %d: %v", i, err)
		}
	}
	snaps := ss.Snaps()
	env.Close()
	ss.CloseBolt()
	x.Count("boundaries", int64(len(snaps)))
	// the file as the clean shutdown left it: every operation has taken effect
	if disk, err := diskStates(filepath.Join(scratch, "u.db")); err == nil {
		for _, t := range topics {
			for _, id := range ids {
				want := alert.OK
				for _, e := range evs {
					switch {
					case e.topic != t || e.op == "close":
					case e.op == "delete":
						want = alert.OK
					case e.id == id:
						want = e.level
					}
				}
				got := alert.OK
				if disk[t] != nil {
					got = disk[t][id]
				}
				x.Count("disk_entries_checked", 1)
				if got != want {
					x.Violatef("disk-state", fmt.Sprintf("after a clean shutdown an ID does not have its last non-OK level on disk (disk %v, last level %v)", got, want), sub, "topic %s id %s on disk %v, expected %v", t, id, got, want)
					return
				}
			}
		}
	}
	for _, sn := range snaps {
		i := int(sn.Point)
		if i < 0 {
			continue
		}
		disk, err := diskStates(sn.Path)
		if err != nil {
			x.Violatef("disk-unreadable", "stored topic state cannot be read back", sub, "commit %d: %v", sn.K, err)
			return
		}
		for _, t := range topics {
			for _, id := range ids {
				before, after := alert.OK, alert.OK
				for j := 0; j <= i; j++ {
					switch {
					case evs[j].topic != t || evs[j].op == "close":
					case evs[j].op == "delete":
						// everything the topic knew is gone, whether it was open or closed
						after = alert.OK
						if j < i {
							before = alert.OK
						}
					case evs[j].id == id:
						after = evs[j].level
						if j < i {
							before = evs[j].level
						}
					}
				}
				got := alert.OK
				if disk[t] != nil {
					got = disk[t][id]
				}
				x.Count("disk_entries_checked", 1)
				inflight := evs[i].topic == t && (evs[i].id == id || evs[i].op == "delete")
				if got != after && !(inflight && got == before) {
					x.Violatef("disk-state", fmt.Sprintf("on disk an ID does not have its last non-OK level (disk %v, last level %v)", got, after), sub, "after commit %d (event %d = %s/%s=%v): topic %s id %s on disk %v, last collected level %v", sn.K, i, evs[i].topic, evs[i].id, evs[i].level, t, id, got, after)
					return
				}
			}
		}
		// restart on a copy: reported == disk
		work := filepath.Join(scratch, fmt.Sprintf("r-%d.db", sn.K))
		if copyFile(sn.Path, work) != nil {
			continue
		}
		s2, err := kit.OpenBoltStorage(work, "", nil)
		if err != nil {
			continue
		}
		e2, err := kit.NewEnv(kit.EnvOpts{Scratch: x.Scratch, PersistTopics: true, AlertStorage: s2})
		if err != nil {
			s2.CloseBolt()
			x.Violatef("restart-failed", "the alert service does not open on its own storage", sub, "commit %d: %v", sn.K, err)
			return
		}
		x.Count("restarts", 1)
		for t, m := range disk {
			for id, l := range m {
				st, ok, _ := e2.Alert.EventState(t, id)
				if !ok || st.Level != l {
					x.Violatef("restore-fidelity", "the restarted service reports another level than the one on disk", sub, "commit %d: topic %s id %s on disk %v, reported %v (known %v)", sn.K, t, id, l, st.Level, ok)
					e2.Close()
					s2.CloseBolt()
					return
				}
			}
		}
		e2.Close()
		s2.CloseBolt()
		os.Remove(work)
		if len(disk) >= 2 || (len(disk) == 1 && len(firstMap(disk)) >= 2) {
			x.Nontrivial(fmt.Sprintf("svc|%d|%d|%v", len(topics), sn.K%11, evs[i].level))
		}
	}
}

var levels4 = []alert.Level{alert.OK, alert.Info, alert.Warning, alert.Critical}

func firstMap(m map[string]map[string]alert.Level) map[string]alert.Level {
	for _, v := range m {
		return v
	}
	return nil
}

func (prop) Run(x *core.Ctx) {
	if x.Case.Kind == "service" {
		runService(x)
		return
	}
	r := core.NewRng(x.Case.Seed, 8)
	scratch, err := os.MkdirTemp(x.Scratch, "c08")
	if err != nil {
		x.Inconclusive(err.Error())
		return
	}
	defer os.RemoveAll(scratch)
	sc := scenario{}
	switch r.Intn(4) {
	case 0:
		sc.named = true
	case 1:
		sc.anon = true
	default:
		sc.named, sc.anon = true, true
	}
	sc.stateChangesOnly = r.Chance(0.6)
	sc.noRecoveries = r.Chance(0.2)
	sc.ids = []string{"a", "b", "c", "d"}[:r.Range(2, 4)]
	sc.npoints = r.Range(12, 30)
	for i := 0; i < sc.npoints; i++ {
		sc.pts = append(sc.pts, point{id: sc.ids[r.Intn(len(sc.ids))], v: int64(r.Intn(4))})
	}
	sub := sc.describe()
	if !x.Announce(sub) {
		return
	}
	x.Count("evaluations", 1)
	snapDir := filepath.Join(scratch, "snaps")
	os.MkdirAll(snapDir, 0755)
	U, ok := run(x, sc, filepath.Join(scratch, "u.db"), snapDir, filepath.Join(scratch, "u.log"), 0)
	if !ok {
		return
	}
	x.Count("boundaries", int64(len(U.snaps)))
	fail := func(kind, key, format string, a ...interface{}) {
		x.Violatef(kind, key, sub, "%s\nscenario: %s", fmt.Sprintf(format, a...), sub)
	}
	// reference level of every id after point i (inclusive); -1 = before everything
	// levelAfter: the level the topics hold for id after point i. With noRecoveries the OK event is
	// withheld, so a topic keeps the last non-OK level.
	levelAfter := func(id string, i int) alert.Level {
		l := alert.OK
		for j := 0; j <= i && j < len(sc.pts); j++ {
			if sc.pts[j].id == id {
				if nl := levelOf(sc.pts[j].v); nl != alert.OK || !sc.noRecoveries {
					l = nl
				}
			}
		}
		return l
	}
	hasLater := func(id string, i int) bool {
		for j := i + 1; j < len(sc.pts); j++ {
			if sc.pts[j].id == id {
				return true
			}
		}
		return false
	}
	topics := []string{}
	if sc.named {
		topics = append(topics, "T")
	}
	if sc.anon {
		topics = append(topics, U.anonName)
	}
	get := func(m map[string]map[string]alert.Level, t, id string) alert.Level {
		if m[t] == nil {
			return alert.OK
		}
		return m[t][id] // absent == OK
	}
	// crash points: right after commit k while its point is still in flight, and - the file being
	// the same - later, while the point that will cause commit k+1 is in flight (notified, not stored)
	type crash struct {
		sn       kit.SnapInfo
		inflight int
	}
	var crashes []crash
	for idx, sn := range U.snaps {
		crashes = append(crashes, crash{sn, int(sn.Point)})
		if idx+1 < len(U.snaps) && U.snaps[idx+1].Point > sn.Point {
			crashes = append(crashes, crash{sn, int(U.snaps[idx+1].Point)})
		}
	}
	x.Count("crash_points", int64(len(crashes)))
CRASHES:
	for _, cr := range crashes {
		if x.NumViolations() > 60 {
			return
		}
		sn := cr.sn
		i := cr.inflight // point in flight at the crash
		if i < 0 || i >= len(sc.pts) {
			continue
		}
		inflight := sc.pts[i].id
		where := fmt.Sprintf("crash after commit %d (made during point %d) with point %d in flight: %s=%v", sn.K, sn.Point, i, inflight, levelOf(sc.pts[i].v))
		disk, err := diskStates(sn.Path)
		if err != nil {
			fail("disk-unreadable", "stored topic state cannot be read back", "%s: %v", where, err)
			return
		}
		// (2) disk vs reference
		for _, t := range topics {
			for _, id := range sc.ids {
				got := get(disk, t, id)
				want := levelAfter(id, i-1)
				x.Count("disk_entries_checked", 1)
				if id == inflight {
					if got != want && got != levelAfter(id, i) {
						fail("disk-state", "on disk the in-flight ID has neither its level before nor after the point", "%s: topic %s id %s on disk %v, before %v, after %v", where, t, id, got, want, levelAfter(id, i))
						return
					}
					continue
				}
				if got != want {
					fail("disk-state", fmt.Sprintf("on disk an ID does not have its last non-OK level (disk %v, last level %v)", got, want), "%s: topic %s id %s: on disk %v, its last level is %v", where, t, id, got, want)
					return
				}
			}
		}
		if sc.named && sc.anon {
			a, t := get(disk, U.anonName, inflight), get(disk, "T", inflight)
			switch {
			case a != t && a != alert.OK && t != alert.OK:
				x.Count("crashes_between_anon_and_named_commit_both_non_ok", 1)
			case a != t:
				x.Count("crashes_between_anon_and_named_commit_one_ok", 1)
			}
		}
		// restart on a copy
		work := filepath.Join(scratch, fmt.Sprintf("r-%d-%d.db", sn.K, i))
		if err := copyFile(sn.Path, work); err != nil {
			x.Inconclusive(err.Error())
			return
		}
		logPath := filepath.Join(scratch, fmt.Sprintf("r-%d-%d.log", sn.K, i))
		R, ok := run(x, sc, work, "", logPath, i+1)
		os.Remove(work)
		if !ok {
			return
		}
		x.Count("restarts", 1)
		// (1) restored == disk
		for t, ids := range disk {
			for id, l := range ids {
				if get(R.restored, t, id) != l {
					fail("restore-fidelity", "the restarted service reports another level than the one on disk", "%s: topic %s id %s: on disk %v, reported after restart %v", where, t, id, l, get(R.restored, t, id))
					return
				}
			}
		}
		for t, ids := range R.restored {
			for id, l := range ids {
				if l != alert.OK && get(disk, t, id) != l {
					fail("restore-fidelity", "the restarted service reports a level that is not on disk (phantom)", "%s: topic %s id %s: reported %v, on disk %v", where, t, id, l, get(disk, t, id))
					return
				}
			}
		}
		// (3) final state == U
		for _, t := range topics {
			rt := t
			if t == U.anonName {
				rt = R.anonName
			}
			for _, id := range sc.ids {
				x.Count("final_states_compared", 1)
				if id == inflight {
					// the in-flight point is lost with the crash unless its effect was already stored
					with, without := alert.OK, alert.OK
					for j, p := range sc.pts {
						if p.id != id {
							continue
						}
						if nl := levelOf(p.v); nl != alert.OK || !sc.noRecoveries {
							with = nl
							if j != i {
								without = nl
							}
						}
					}
					if g := get(R.final, rt, id); g != with && g != without {
						fail("final-state", fmt.Sprintf("the in-flight ID ends at a level that neither the full history nor the history without the lost point explains (%v)", g), "%s: topic %s id %s: final level after restart %v, with the point %v, without it %v", where, t, id, g, with, without)
						continue CRASHES
					}
					continue
				}
				if g, w := get(R.final, rt, id), get(U.final, t, id); g != w {
					prof := ""
					if sc.named && sc.anon {
						prof = "[named+anonymous] "
					}
					fail("final-state", prof+fmt.Sprintf("after restart and the remaining points an ID ends at another level than in the uninterrupted run (%v instead of %v)", g, w), "%s: topic %s id %s: final level after restart %v, uninterrupted %v (later points for the id: %v)", where, t, id, g, w, hasLater(id, i))
					continue CRASHES
				}
			}
		}
		// (4) handlers
		type hview struct {
			name      string
			before    []told
			after     []told
			finalMap  map[string]alert.Level
			topic     string
			diskTopic string
		}
		var hs []hview
		if sc.named {
			hs = append(hs, hview{"named-topic handler", U.toldT, R.toldT, R.final["T"], "T", "T"})
		}
		if sc.anon {
			hs = append(hs, hview{"anonymous-topic handler (.log)", U.toldAnon, R.toldAnon, R.final[R.anonName], R.anonName, U.anonName})
		}
		for _, h := range hs {
			var certain, maybe []told
			for _, e := range h.before {
				switch {
				case e.n < i:
					certain = append(certain, e)
				case e.n == i:
					maybe = append(maybe, e)
				}
			}
			for cut := 0; cut <= len(maybe); cut++ {
				toldSoFar := append(append([]told{}, certain...), maybe[:cut]...)
				reading := "no in-flight notification had been delivered"
				prof := ""
				if cut > 0 {
					reading = fmt.Sprintf("%d in-flight notification(s) had been delivered before the crash", cut)
					prof = "[in-flight notification delivered, state not yet stored] "
				}
				if sc.named && sc.anon {
					prof += "[named+anonymous] "
				}
				for _, id := range sc.ids {
					lastTold := alert.OK
					for _, e := range toldSoFar {
						if e.id == id {
							lastTold = e.level
						}
					}
					final := h.finalMap[id]
					if id == inflight && !hasLater(id, i) {
						continue
					}
					x.Count("handler_obligations_checked", 1)
					lastAfter, any := alert.OK, false
					for _, e := range h.after {
						if e.id == id {
							lastAfter, any = e.level, true
						}
					}
					if sc.noRecoveries && final == alert.OK {
						continue // recoveries are withheld by configuration
					}
					if final != lastTold && !(any && lastAfter == final) {
						// classify the two consequences of notify-then-store not being atomic
						if id == inflight {
							stored := get(disk, h.diskTopic, id) == levelAfter(id, i)
							deliveredInflight := false
							for _, e := range maybe[:cut] {
								if e.id == id {
									deliveredInflight = true
								}
							}
							hadInflight := false
							for _, e := range maybe {
								if e.id == id {
									hadInflight = true
								}
							}
							switch {
							case stored && hadInflight && !deliveredInflight:
								prof = "[in-flight state stored, its notification not yet delivered] " + strings.TrimPrefix(prof, "[in-flight notification delivered, state not yet stored] ")
							case !stored && deliveredInflight:
								// prof already says so
							default:
								prof = strings.TrimPrefix(prof, "[in-flight notification delivered, state not yet stored] ")
							}
						} else {
							prof = strings.TrimPrefix(prof, "[in-flight notification delivered, state not yet stored] ")
						}
						fail("handler-not-told", prof+fmt.Sprintf("%s: an ID ends at a level its handler was never told after the restart (stateChangesOnly=%v)", h.name, sc.stateChangesOnly), "%s, reading: %s: id %s: last told before the crash %v, final level %v, notifications after the restart for the id: %v; all notifications of the uninterrupted run for the id: %v", where, reading, id, lastTold, final, toldFor(h.after, id), toldFor(h.before, id))
						continue CRASHES
					}
				}
				// an OK is only told if the ID was non-OK before
				for idx, e := range h.after {
					if e.level != alert.OK {
						continue
					}
					prev := levelAfter(e.id, e.n-1)
					for j := idx - 1; j >= 0; j-- {
						if h.after[j].id == e.id {
							prev = h.after[j].level
							break
						}
					}
					if prev == alert.OK && levelAfter(e.id, i) == alert.OK && levelAfter(e.id, i-1) == alert.OK {
						fail("phantom-recovery", h.name+": a recovery was told for an ID that was not in a non-OK level", "%s: after the restart OK was told for id %s at point %d, its level before that point was OK", where, e.id, e.n)
						continue CRASHES
					}
				}
			}
		}
		changed := levelAfter(inflight, i) != levelAfter(inflight, i-1)
		otherNonOK := false
		for _, t := range topics {
			for _, id := range sc.ids {
				if id != inflight && get(disk, t, id) != alert.OK {
					otherNonOK = true
				}
			}
		}
		if changed && otherNonOK {
			x.Nontrivial(fmt.Sprintf("%v|%v|%v|%v|%d|%s", sc.named, sc.anon, sc.stateChangesOnly, sc.noRecoveries, sn.K%7, sigOf(sc, i)))
		}
	}
}

func sigOf(sc scenario, i int) string {
	prev := alert.OK
	for j := 0; j < i; j++ {
		if sc.pts[j].id == sc.pts[i].id {
			prev = levelOf(sc.pts[j].v)
		}
	}
	next := "-"
	for j := i + 1; j < len(sc.pts); j++ {
		if sc.pts[j].id == sc.pts[i].id {
			next = levelOf(sc.pts[j].v).String()
			break
		}
	}
	return fmt.Sprintf("%v>%v>%s", prev, levelOf(sc.pts[i].v), next)
}

func toldFor(ts []told, id string) []string {
	var o []string
	for _, e := range ts {
		if e.id == id {
			o = append(o, fmt.Sprintf("%v@%d", e.level, e.n))
		}
	}
	return o
}

func copyFile(src, dst string) error {
	b, err := os.ReadFile(src)
	if err != nil {
		return err
	}
	return os.WriteFile(dst, b, 0600)
}

func firstWords(s string, n int) string {
	w := strings.Fields(s)
	if len(w) > n {
		w = w[:n]
	}
	return strings.Join(w, " ")
}

var _ = sort.Strings
var _ kapacitor.DBRP

// Package c01: alert events follow the documented level / recovery state machine.
package c01

import (
	"fmt"
	"math"
	"sort"
	"strings"
	"sync"
	"time"

	"github.com/influxdata/kapacitor/alert"
	"github.com/influxdata/kapacitor/edge"
	"github.com/influxdata/kapacitor/models"

	"verifharness/core"
	"verifharness/kit"
)

type prop struct{}

func init() { core.Register(prop{}) }

func (prop) ID() string    { return "C01" }
func (prop) Level() string { return "exploration" }
func (prop) Rule() string {
	return "one task run carries thousands of independent alert IDs (groupBy('k'), id = tag value); per configuration (subset of info/warn/crit x resets x stateChangesOnly none/plain/interval x noRecoveries x all() x history x flapping off/(lo,1.0)/general, stream and batch) ALL value-class sequences up to the bound are multiplexed (4^5 without resets, 7^4 / 7^5 with resets, which contains the documented example 61 73 64 85 62 56 47), plus seeded longer sequences, bad points (missing / wrong-typed field) and batches of 1-4 points. " +
		"Events are observed by a recording alert.Handler on the topic AND by a sink below the node (levelField/idField/durationField); both must equal, per ID, the reference state machine's event sequence (level, time, duration). A case is non-trivial (distinct config+sequence hash) when its history had >=2 level changes and >=1 event reached the handler"
}
func (prop) Assumptions() []string {
	return []string{
		"data-time gaps never equal the stateChangesOnly interval exactly (doc: 'more than', code: >=)",
		"under general flapping(lo,hi) only the events that ARE emitted are judged (level, time, duration, not forbidden by stateChangesOnly); the Nagios weighting is not part of the statement",
		"in a batch several points may share the highest level; the event time may be the time of any of them",
		"bad points (condition evaluation errors) are generated only in configurations without reset expressions",
		"message/details templates, handler kinds other than the recording handler and the log sink are out of scope",
	}
}
func (prop) MinNontrivial(tier string) int {
	if tier == "thorough" {
		return 100000
	}
	return 5000
}
func (prop) CaseTimeoutSec(string) int { return 300 }

type config struct {
	Info, Warn, Crit bool
	Resets           bool
	SCO              int // 0 none, 1 plain, 2 interval 4.5s
	NoRec            bool
	All              bool
	History          int // 0 default
	Flap             int // 0 off, 1 (lo,1.0), 2 general (0.25,0.5)
	Batch            bool
	TagID            bool
	// Crit2: the crit condition reads its own field "c" (a mirror of v) that some points lack:
	// its condition cannot be evaluated for them while the lower levels can
	Crit2 bool
}

func (c config) String() string {
	return fmt.Sprintf("i%v w%v c%v resets=%v sco=%d norec=%v all=%v hist=%d flap=%d batch=%v crit2=%v", b2i(c.Info), b2i(c.Warn), b2i(c.Crit), c.Resets, c.SCO, c.NoRec, c.All, c.History, c.Flap, c.Batch, c.Crit2)
}
func b2i(b bool) int {
	if b {
		return 1
	}
	return 0
}

func cfgParams(c config) map[string]interface{} {
	return map[string]interface{}{"info": c.Info, "warn": c.Warn, "crit": c.Crit, "resets": c.Resets, "sco": c.SCO, "norec": c.NoRec, "all": c.All, "hist": c.History, "flap": c.Flap, "batch": c.Batch, "crit2": c.Crit2}
}
func cfgOf(c core.Case) config {
	return config{Info: c.PBool("info"), Warn: c.PBool("warn"), Crit: c.PBool("crit"), Resets: c.PBool("resets"), SCO: c.PInt("sco", 0), NoRec: c.PBool("norec"),
		All: c.PBool("all"), History: c.PInt("hist", 0), Flap: c.PInt("flap", 0), Batch: c.PBool("batch"), Crit2: c.PBool("crit2")}
}

func (prop) Cases(tier string, seed uint64) []core.Case {
	var cs []core.Case
	r := core.NewRng(seed, 1)
	add := func(c config, seqLen int, s uint64) {
		p := cfgParams(c)
		p["len"] = seqLen
		cs = append(cs, core.Case{ID: fmt.Sprintf("cfg%d", len(cs)), Kind: "alert", Seed: s, Params: p})
	}
	nrandom := 14
	if tier == "thorough" {
		nrandom = 150
	}
	// fixed backbone: all three levels, every SCO / noRecoveries combination, stream + batch
	for _, batch := range []bool{false, true} {
		for sco := 0; sco < 3; sco++ {
			for _, norec := range []bool{false, true} {
				add(config{Info: true, Warn: true, Crit: true, SCO: sco, NoRec: norec, Batch: batch}, 5, seed+uint64(len(cs)))
			}
		}
		add(config{Info: true, Warn: true, Crit: true, Resets: true, Batch: batch}, pick(tier, 4, 5), seed+uint64(len(cs)))
		add(config{Info: true, Warn: true, Crit: true, Resets: true, SCO: 2, Batch: batch}, pick(tier, 4, 5), seed+uint64(len(cs)))
	}
	for _, batch := range []bool{false, true} {
		add(config{Info: true, Warn: true, Crit: true, Crit2: true, Batch: batch}, 4, seed+90)
		add(config{Info: true, Warn: true, Crit: true, Crit2: true, SCO: 1, NoRec: batch, Batch: batch}, 4, seed+91)
		add(config{Warn: true, Crit: true, Crit2: true, Resets: true, Batch: batch}, 3, seed+92)
	}
	add(config{Info: true, Warn: true, Crit: true, All: true, Batch: true}, 5, seed+77)
	add(config{Info: true, Warn: true, Crit: true, All: true, SCO: 1, Batch: true}, 5, seed+78)
	// seeded configurations
	for i := 0; i < nrandom; i++ {
		c := config{Info: r.Bool(), Warn: r.Bool(), Crit: r.Bool(), Resets: r.Chance(0.3), SCO: r.Intn(3), NoRec: r.Chance(0.3), Batch: r.Chance(0.4),
			History: []int{0, 2, 3, 5}[r.Intn(4)], Flap: []int{0, 0, 1, 2}[r.Intn(4)]}
		if !c.Info && !c.Warn && !c.Crit {
			c.Crit = true
		}
		if c.Batch {
			c.All = r.Chance(0.3)
		}
		l := 5
		if c.Resets {
			l = pick(tier, 4, 5)
		}
		if i%5 == 4 {
			l = -r.Range(12, 40) // negative: seeded long sequences instead of exhaustive short ones
		}
		add(c, l, seed*31+uint64(i))
	}
	return cs
}

func pick(tier string, q, t int) int {
	if tier == "thorough" {
		return t
	}
	return q
}

// value classes: thresholds info>10 warn>20 crit>30, resets info<5 warn<15 crit<25
var classesNoReset = []float64{5, 15, 25, 35}
var classesReset = []float64{2, 7, 12, 17, 22, 27, 32}

const badMissing = -1000.0
const badType = -2000.0

type lvl = alert.Level

// A value with a fractional part (x.25) stands for a point that carries v = r = x but lacks the
// field "c" of the Crit2 crit condition.
func noC(v float64) bool      { return v > 0 && v != math.Floor(v) }
func plain(v float64) float64 { return math.Floor(v) }

func (c config) cond(l lvl, v float64) bool {
	if l == alert.Critical && c.Crit2 && noC(v) {
		return false // cannot be evaluated: does not hold
	}
	v = plain(v)
	switch l {
	case alert.Info:
		return c.Info && v > 10
	case alert.Warning:
		return c.Warn && v > 20
	case alert.Critical:
		return c.Crit && v > 30
	}
	return false
}
func (c config) hasReset(l lvl) bool {
	if !c.Resets {
		return false
	}
	switch l {
	case alert.Info:
		return c.Info
	case alert.Warning:
		return c.Warn
	case alert.Critical:
		return c.Crit
	}
	return false
}
func (c config) resetHolds(l lvl, v float64) bool {
	v = plain(v)
	switch l {
	case alert.Info:
		return v < 5
	case alert.Warning:
		return v < 15
	case alert.Critical:
		return v < 25
	}
	return false
}

// determine is the documented level function: highest level whose condition holds among the
// levels >= current; else stay if the current level's reset does not hold; else the highest
// holding level below; else OK. A bad point satisfies no condition.
func (c config) determine(cur lvl, v float64) lvl {
	bad := v == badMissing || v == badType
	for l := alert.Critical; l >= cur && l > alert.OK; l-- {
		if !bad && c.cond(l, v) {
			return l
		}
	}
	if cur > alert.OK && c.hasReset(cur) && !bad && !c.resetHolds(cur, v) {
		return cur
	}
	for l := cur; l > alert.OK; l-- {
		if !bad && c.cond(l, v) {
			return l
		}
	}
	return alert.OK
}

type refEvent struct {
	Level    lvl
	Time     time.Time
	AltTimes []time.Time // batch: admissible event times
	Duration time.Duration
	mustHave bool
}

type refState struct {
	cur           lvl
	leftOK        time.Time
	lastTriggered time.Time
	changes       int
}

const scoInterval = 4500 * time.Millisecond

// step advances the reference by one point / batch. levels are the per-point levels (stream:
// one). Returns the event that must be emitted, or nil.
func (c config) step(s *refState, l lvl, t time.Time, alt []time.Time) *refEvent {
	changed := l != s.cur
	if changed {
		s.changes++
	}
	expired := !changed && c.SCO == 2 && t.Sub(s.lastTriggered) >= scoInterval
	if s.cur == alert.OK && l != alert.OK {
		s.leftOK = t
	}
	suppressed := c.SCO > 0 && !changed && !expired
	s.cur = l
	var emit bool
	if c.Batch {
		emit = changed && l == alert.OK || (l != alert.OK && !suppressed)
	} else {
		emit = !suppressed && (l != alert.OK || changed)
	}
	if !emit {
		return nil
	}
	s.lastTriggered = t
	if c.NoRec && l == alert.OK {
		return nil
	}
	return &refEvent{Level: l, Time: t, AltTimes: alt, Duration: t.Sub(s.leftOK)}
}

type recHandler struct {
	mu     sync.Mutex
	events map[string][]alert.Event
	n      int
}

func (h *recHandler) Handle(e alert.Event) {
	h.mu.Lock()
	h.events[e.State.ID] = append(h.events[e.State.ID], e)
	h.n++
	h.mu.Unlock()
}

var base = time.Unix(1500000000, 0).UTC()

func script(c config) string {
	var sb strings.Builder
	if c.Batch {
		sb.WriteString("batch|query('SELECT v FROM \"db\".\"rp\".\"m\"').period(10s).every(10s).groupBy('k')")
	} else {
		sb.WriteString("stream|from().measurement('m').groupBy('k')")
	}
	sb.WriteString("|alert().id('{{ index .Tags \"k\" }}')")
	if c.Info {
		sb.WriteString(".info(lambda: \"v\" > 10.0)")
		if c.Resets {
			sb.WriteString(".infoReset(lambda: \"r\" < 5.0)") // r mirrors v: a reset may use other fields than its level
		}
	}
	if c.Warn {
		sb.WriteString(".warn(lambda: \"v\" > 20.0)")
		if c.Resets {
			sb.WriteString(".warnReset(lambda: \"r\" < 15.0)")
		}
	}
	if c.Crit {
		if c.Crit2 {
			sb.WriteString(".crit(lambda: \"c\" > 30.0)")
		} else {
			sb.WriteString(".crit(lambda: \"v\" > 30.0)")
		}
		if c.Resets {
			sb.WriteString(".critReset(lambda: \"v\" < 25.0)")
		}
	}
	switch c.SCO {
	case 1:
		sb.WriteString(".stateChangesOnly()")
	case 2:
		sb.WriteString(".stateChangesOnly(4500ms)")
	}
	if c.NoRec {
		sb.WriteString(".noRecoveries()")
	}
	if c.All {
		sb.WriteString(".all()")
	}
	if c.History > 0 {
		fmt.Fprintf(&sb, ".history(%d)", c.History)
	}
	switch c.Flap {
	case 1:
		sb.WriteString(".flapping(0.25, 1.0)")
	case 2:
		sb.WriteString(".flapping(0.25, 0.5)")
	}
	sb.WriteString(".topic('t').levelField('lvl').idField('aid').durationField('dur')|log().prefix('out')")
	return sb.String()
}

func (prop) Run(x *core.Ctx) {
	c := cfgOf(x.Case)
	r := core.NewRng(x.Case.Seed, 11)
	L := x.Case.PInt("len", 5)
	if !x.Announce(c.String()) {
		return
	}
	classes := classesNoReset
	if c.Resets {
		classes = classesReset
	}
	if c.Crit2 {
		// the same classes, each also as a point without the crit field (exhaustive lengths are
		// chosen shorter for these configurations)
		classes = append([]float64{}, classes...)
		for _, v := range classes[:len(classes):len(classes)] {
			if v > 10 {
				classes = append(classes, v+0.25)
			}
		}
	}
	// ---- sequences (per ID): values per step; batch: 1-4 values per step
	type seq struct {
		id   string
		vals [][]float64
	}
	var seqs []seq
	if L > 0 {
		total := 1
		for i := 0; i < L; i++ {
			total *= len(classes)
		}
		for n := 0; n < total; n++ {
			s := seq{id: fmt.Sprintf("s%d", n)}
			m := n
			for i := 0; i < L; i++ {
				v := classes[m%len(classes)]
				m /= len(classes)
				s.vals = append(s.vals, []float64{v})
			}
			seqs = append(seqs, s)
		}
	} else {
		L = -L
		for n := 0; n < 400; n++ {
			s := seq{id: fmt.Sprintf("r%d", n)}
			sticky := classes[r.Intn(len(classes))]
			for i := 0; i < L; i++ {
				if r.Chance(0.4) {
					sticky = classes[r.Intn(len(classes))]
				}
				v := sticky
				if !c.Resets && r.Chance(0.05) {
					v = []float64{badMissing, badType}[r.Intn(2)]
				}
				s.vals = append(s.vals, []float64{v})
			}
			seqs = append(seqs, s)
		}
	}
	if c.Batch {
		// widen some steps into batches of 2-4 points with mixed levels
		for si := range seqs {
			for i := range seqs[si].vals {
				if r.Chance(0.35) {
					k := r.Range(1, 3)
					for j := 0; j < k; j++ {
						seqs[si].vals[i] = append(seqs[si].vals[i], classes[r.Intn(len(classes))])
					}
				}
			}
		}
	}
	// step times: shared by all IDs; gaps cross the stateChangesOnly interval sometimes
	stepT := make([]time.Time, L)
	t := base
	for i := 0; i < L; i++ {
		stepT[i] = t
		t = t.Add([]time.Duration{time.Second, time.Second, 2 * time.Second, 3 * time.Second, 6 * time.Second}[r.Intn(5)])
	}

	env, err := kit.NewEnv(kit.EnvOpts{Scratch: x.Scratch, TopicBuffer: 2000000})
	if err != nil {
		x.Inconclusive("env: " + err.Error())
		return
	}
	closed := false
	defer func() {
		if !closed {
			env.Close()
		}
	}()
	h := &recHandler{events: map[string][]alert.Event{}}
	env.Alert.RegisterAnonHandler("t", h)
	src := script(c)
	fieldsOf := func(v float64, seqNo int) models.Fields {
		switch v {
		case badMissing:
			return models.Fields{"other": 1.0, "n": int64(seqNo)}
		case badType:
			return models.Fields{"v": "high", "n": int64(seqNo)}
		}
		if noC(v) {
			return models.Fields{"v": plain(v), "r": plain(v), "n": int64(seqNo)}
		}
		return models.Fields{"v": v, "r": v, "c": v, "n": int64(seqNo)}
	}
	if c.Batch {
		et, err := env.StartBatch("a", src, nil)
		if err != nil {
			x.Inconclusive("start: " + err.Error() + " " + src)
			return
		}
		col := env.TM.BatchCollectors("a")
		if len(col) != 1 {
			x.Inconclusive("no batch collector")
			return
		}
		for i := 0; i < L; i++ {
			for _, s := range seqs {
				vals := s.vals[i]
				tmax := stepT[i].Add(900 * time.Millisecond)
				var pts []edge.BatchPointMessage
				for j, v := range vals {
					pts = append(pts, edge.NewBatchPointMessage(fieldsOf(v, i*10+j), models.Tags{"k": s.id}, stepT[i].Add(time.Duration(j)*100*time.Millisecond)))
				}
				b := edge.NewBufferedBatchMessage(edge.NewBeginBatchMessage("m", models.Tags{"k": s.id}, false, tmax, len(pts)), pts, edge.NewEndBatchMessage())
				if err := col[0].CollectBatch(b); err != nil {
					x.Inconclusive("collect: " + err.Error())
					return
				}
			}
		}
		col[0].Close()
		if err := et.Wait(); err != nil {
			x.Violatef("task-error", "alert task ended with error: "+err.Error(), c.String(), "%v", err)
			return
		}
	} else {
		et, err := env.StartStream("a", src, nil)
		if err != nil {
			x.Inconclusive("start: " + err.Error() + " " + src)
			return
		}
		for i := 0; i < L; i++ {
			for _, s := range seqs {
				if err := env.Write(edge.NewPointMessage("m", "db", "rp", models.Dimensions{}, fieldsOf(s.vals[i][0], i), models.Tags{"k": s.id}, stepT[i])); err != nil {
					x.Inconclusive("write: " + err.Error())
					return
				}
			}
		}
		if err := env.DrainWait(et); err != nil {
			x.Violatef("task-error", "alert task ended with error: "+err.Error(), c.String(), "%v", err)
			return
		}
	}
	sinkItems := env.Rec.Sink("out").Items()
	errs := env.Rec.Errors()
	env.Close() // closes the alert service: handler buffers are drained
	closed = true
	for _, e := range errs {
		if strings.Contains(e.Err, "failed to deliver") {
			x.Inconclusive("handler buffer overflow: " + e.Err)
			return
		}
	}

	// sink view: per ID list of (level, time, dur)
	type obs struct {
		Level    string
		Time     time.Time
		Duration time.Duration
	}
	sink := map[string][]obs{}
	for _, it := range sinkItems {
		if it.P != nil {
			id, _ := it.P.Fields["aid"].(string)
			ls, _ := it.P.Fields["lvl"].(string)
			d, _ := it.P.Fields["dur"].(int64)
			sink[id] = append(sink[id], obs{ls, it.P.Time, time.Duration(d)})
		} else if it.B != nil && len(it.B.Points) > 0 {
			id, _ := it.B.Points[0].Fields["aid"].(string)
			ls, _ := it.B.Points[0].Fields["lvl"].(string)
			d, _ := it.B.Points[0].Fields["dur"].(int64)
			sink[id] = append(sink[id], obs{ls, time.Time{}, time.Duration(d)})
		}
	}

	// ---- compare per ID
	totalEvents := 0
	for _, s := range seqs {
		st := &refState{}
		var want []*refEvent
		var perStep []string
		stepTimes := make([]time.Time, L)
		stepAlts := make([][]time.Time, L)
		for i := 0; i < L; i++ {
			var l lvl
			var tt time.Time
			var alt []time.Time
			if c.Batch {
				hi, lo := alert.OK, alert.Critical
				for _, v := range s.vals[i] {
					pl := c.determine(st.cur, v)
					if pl > hi {
						hi = pl
					}
					if pl < lo {
						lo = pl
					}
				}
				l = hi
				if c.All {
					l = lo
				}
				tmax := stepT[i].Add(900 * time.Millisecond)
				if c.All || l == alert.OK {
					tt = tmax
				} else {
					first := true
					for j, v := range s.vals[i] {
						if c.determine(st.cur, v) == hi {
							pt := stepT[i].Add(time.Duration(j) * 100 * time.Millisecond)
							if first {
								tt = pt
								first = false
							}
							alt = append(alt, pt)
						}
					}
				}
			} else {
				l = c.determine(st.cur, s.vals[i][0])
				tt = stepT[i]
			}
			perStep = append(perStep, l.String())
			stepTimes[i], stepAlts[i] = tt, alt
			if ev := c.step(st, l, tt, alt); ev != nil {
				want = append(want, ev)
			}
		}
		got := h.events[s.id]
		totalEvents += len(got)
		x.Count("id_histories", 1)
		x.Count("events_compared", int64(len(got)))
		sub := fmt.Sprintf("%s id=%s vals=%v", c.String(), s.id, s.vals)
		fail := func(kind, format string, a ...interface{}) {
			x.Violatef(kind, kind+" "+c.String(), sub, "script: %s\nvalues per step: %v\nstep times: %v\nreference levels: %v\n"+format, append([]interface{}{src, s.vals, relTimes(stepT), perStep}, a...)...)
		}
		if c.Flap == 2 {
			// general flapping: judge only the events that were emitted. The reference is
			// re-run with lastTriggered driven by what was actually emitted (an event that
			// flap detection suppressed does not count as "the last alert").
			// What flap detection suppressed is not observable. That matters for lastTriggered:
			// a recovery withheld by noRecoveries counts as "the last alert", one suppressed by
			// flap detection does not - both are silent. The reference therefore carries every
			// state that is consistent with what was observed so far.
			cands := []refState{{}}
			gi := 0
			for i := 0; i < L && gi <= len(got) && len(cands) > 0; i++ {
				l := lvlOf(perStep[i])
				var g *alert.Event
				if gi < len(got) && (got[gi].State.Time.Equal(stepTimes[i]) || inTimes(stepAlts[i], got[gi].State.Time)) {
					g = &got[gi]
					gi++
				}
				var next []refState
				mismatch := ""
				add := func(st refState) {
					for _, o := range next {
						if o.cur == st.cur && o.leftOK.Equal(st.leftOK) && o.lastTriggered.Equal(st.lastTriggered) {
							return
						}
					}
					next = append(next, st)
				}
				for _, prev := range cands {
					st2 := prev
					ev := c.step(&st2, l, stepTimes[i], stepAlts[i])
					switch {
					case g != nil && ev == nil:
						// this candidate forbids the event
					case g != nil && ev != nil:
						if g.State.Level != ev.Level || g.State.Duration != ev.Duration {
							mismatch = fmt.Sprintf("event at %v has level %v duration %v, reference level %v duration %v", g.State.Time.Sub(base), g.State.Level, g.State.Duration, ev.Level, ev.Duration)
						} else {
							add(st2)
						}
					case g == nil && ev != nil:
						// suppressed by flap detection (cannot be judged): it did not count as an alert
						st2.lastTriggered = prev.lastTriggered
						add(st2)
					default:
						add(st2)
						if !st2.lastTriggered.Equal(prev.lastTriggered) {
							// a withheld recovery: flap detection may have suppressed it instead
							alt := st2
							alt.lastTriggered = prev.lastTriggered
							add(alt)
						}
					}
				}
				if len(next) == 0 {
					if mismatch != "" {
						fail("alert-event-mismatch", "under flapping: %s", mismatch)
					} else if g != nil {
						fail("alert-extra-event", "under flapping: event %v at %v, but the state machine forbids an event at this step (level %v, previous %v, last alert at %v)", g.State.Level, g.State.Time.Sub(base), l, cands[0].cur, cands[0].lastTriggered.Sub(base))
					}
				}
				cands = next
			}
			if gi < len(got) {
				fail("alert-extra-event", "under flapping: event %v at %v does not correspond to any step", got[gi].State.Level, got[gi].State.Time.Sub(base))
			}
		} else {
			if len(got) != len(want) {
				fail("alert-event-count", "handler got %d events %s, reference has %d %s", len(got), evStr(got), len(want), refStr(want))
			} else {
				for i := range want {
					g, w := got[i], want[i]
					if g.State.Level != w.Level || !timeMatch(w, g.State.Time) || g.State.Duration != w.Duration {
						fail("alert-event-mismatch", "event %d: got level=%v time=%v duration=%v, reference level=%v time=%v duration=%v\nall got: %s\nall want: %s", i, g.State.Level, g.State.Time.Sub(base), g.State.Duration, w.Level, w.Time.Sub(base), w.Duration, evStr(got), refStr(want))
						break
					}
				}
			}
			// sink below the node must carry exactly the same events
			sg := sink[s.id]
			if len(sg) != len(got) {
				fail("alert-sink-differs", "sink below the alert node saw %d augmented messages, handler saw %d events", len(sg), len(got))
			} else {
				for i := range sg {
					if sg[i].Level != got[i].State.Level.String() || sg[i].Duration != got[i].State.Duration || (!c.Batch && !sg[i].Time.Equal(got[i].State.Time)) {
						fail("alert-sink-differs", "message %d at the sink: level=%s dur=%v time=%v; handler event: level=%v dur=%v time=%v", i, sg[i].Level, sg[i].Duration, sg[i].Time, got[i].State.Level, got[i].State.Duration, got[i].State.Time)
						break
					}
				}
			}
		}
		if st.changes >= 2 && len(got) >= 1 {
			x.Nontrivial(c.String() + fmt.Sprint(s.vals))
		}
		// transition signatures
		if x.NumViolations() > 300 {
			return
		}
	}
	x.Count("events_at_handler", int64(totalEvents))
	x.SetAdd("configurations", c.String())
	x.Sample(map[string]interface{}{"script": src, "ids": len(seqs), "steps": L, "events": totalEvents,
		"example_id": seqs[len(seqs)/2].id, "example_values": seqs[len(seqs)/2].vals, "example_events": evStr(h.events[seqs[len(seqs)/2].id])})
}

func timeMatch(w *refEvent, t time.Time) bool {
	if w.Time.Equal(t) {
		return true
	}
	for _, a := range w.AltTimes {
		if a.Equal(t) {
			return true
		}
	}
	return false
}

func relTimes(l []time.Time) []string {
	var out []string
	for _, t := range l {
		out = append(out, t.Sub(base).String())
	}
	return out
}

func evStr(l []alert.Event) string {
	var p []string
	for _, e := range l {
		p = append(p, fmt.Sprintf("%v@%v(d=%v)", e.State.Level, e.State.Time.Sub(base), e.State.Duration))
	}
	return "[" + strings.Join(p, " ") + "]"
}
func refStr(l []*refEvent) string {
	var p []string
	for _, e := range l {
		p = append(p, fmt.Sprintf("%v@%v(d=%v)", e.Level, e.Time.Sub(base), e.Duration))
	}
	return "[" + strings.Join(p, " ") + "]"
}

var _ = sort.Strings

func lvlOf(s string) lvl {
	switch s {
	case "INFO":
		return alert.Info
	case "WARNING":
		return alert.Warning
	case "CRITICAL":
		return alert.Critical
	}
	return alert.OK
}

func inTimes(l []time.Time, t time.Time) bool {
	for _, a := range l {
		if a.Equal(t) {
			return true
		}
	}
	return false
}

// Package c06: groups are processed independently and identified by their tag values.
//
// Metamorphic monitor over pairs of executions of the REAL task: the full run (all groups
// interleaved) and, for every group, a solo run fed only that group's points. The outputs the
// full run produced for a group (selected by the output's dimension tag VALUES, never by the
// serialised group id) must equal the solo run's outputs. A leak of per-group state, a shared
// compiled expression, or two different groups collapsing onto one group id all show up as a
// difference.
package c06

import (
	"fmt"
	"sort"
	"strings"
	"time"

	"verifharness/core"
	"verifharness/kit"
)

type prop struct{}

func init() { core.Register(prop{}) }

func (prop) ID() string    { return "C06" }
func (prop) Level() string { return "exploration" }
func (prop) Rule() string {
	return "tasks = stream|from().groupBy('t1' | 't1','t2' | *)[.groupByMeasurement()] + chain of 1-3 grouping-aware stateful nodes {where/eval with count()/sigma()/spread(), stateCount, stateDuration, derivative, sample, changeDetect, difference, cumulativeSum, movingAverage, elapsed, window(time|count)+{count,sum,mean,last,max,median}, flatten, combine, alert(crit/warn, stateChangesOnly, history/flapping) with level/duration fields} + sink; inputs = 60-140 points of 3-6 groups whose tag values are drawn from a hostile pool (',' '=' spaces, empty, escapes, unicode, and value pairs built to serialise identically), 1-2 measurements, group interleaving drawn per run (round robin, bursts, random). " +
		"Oracle: for every group g (identified by measurement-if-grouped and the tuple of dimension tag values): outputs(full run) restricted to g == outputs(solo run of g's points), exact in order, name, tags, field names, values with Go types, time, batch boundaries. " +
		"Non-trivial: a (pipeline shape, group) pair whose solo run produced >= 3 outputs, in a run with >= 2 groups producing output"
}
func (prop) Assumptions() []string {
	return []string{
		"a point lacking a group-by tag and a point carrying it with the empty value are treated as the same group (InfluxDB cannot store empty tag values; the statement speaks of tag values only)",
		"only nodes whose emission is triggered by the group's own points are composed (no barrier/idle timeouts, no deadman/stats, no batch regrouping): with those, the solo run is a legitimate projection of the full run",
	}
}
func (prop) MinNontrivial(tier string) int {
	if tier == "thorough" {
		return 3000
	}
	return 200
}

func (prop) Cases(tier string, seed uint64) []core.Case {
	n, per := 48, 12
	if tier == "thorough" {
		n, per = 320, 40
	}
	var cs []core.Case
	for i := 0; i < n; i++ {
		kind := "benign"
		if i%2 == 1 {
			kind = "hostile"
		}
		cs = append(cs, core.Case{ID: fmt.Sprintf("%s-%d", kind, i), Kind: kind, Seed: seed*6007 + uint64(i), N: per})
	}
	return cs
}

var t0 = time.Unix(1600000000, 0).UTC()

type inPoint struct {
	name   string
	tags   map[string]string
	fields map[string]interface{}
	t      time.Time
}

// hostile tag value pool; the pairs marked below serialise to the same "k=v,k=v" string
var hostileVals = []string{"a", "b", "", "a b", "x=y", "a,b", `a\,b`, "é", " a", "a ", ",", "=", "a,t2=b", "b,t2=c"}

type groupKey struct {
	name string
	vals string // canonical, unambiguous rendering of the dimension values
}

func keyOf(name string, tags map[string]string, dims []string, byName bool) groupKey {
	k := groupKey{}
	if byName {
		k.name = name
	}
	var parts []string
	for _, d := range dims {
		// unambiguous: quoted
		parts = append(parts, fmt.Sprintf("%s=%q", d, tags[d]))
	}
	k.vals = strings.Join(parts, ";")
	return k
}

type pipe struct {
	dims    []string // nil = *
	star    bool
	exclude string // with star: one tag that is not a dimension (groupBy(*).exclude())
	byName  bool
	script  string
	alert   bool
	shape   string
	hasName bool // .measurement('m') filter
}

func genPipe(r *core.Rng) pipe {
	p := pipe{}
	src := "stream|from()"
	if r.Chance(0.5) {
		src += ".measurement('m')"
		p.hasName = true
	}
	switch r.Intn(4) {
	case 0:
		p.dims = []string{"t1"}
		src += ".groupBy('t1')"
	case 1:
		p.dims = []string{"t1", "t2"}
		src += ".groupBy('t1', 't2')"
	case 2:
		p.star = true
		src += ".groupBy(*)"
	default:
		// no tags: grouping by measurement only (or one single group)
		p.dims = []string{}
	}
	if r.Chance(0.3) || (len(p.dims) == 0 && !p.star && r.Chance(0.7)) {
		p.byName = true
		src += ".groupByMeasurement()"
	}
	// regroup right below the source: the last grouping is the effective one (grouping by
	// measurement, once requested, stays on)
	if r.Chance(0.3) {
		switch r.Intn(4) {
		case 3:
			p.dims, p.star = nil, true
			p.exclude = r.Pick([]string{"t1", "t2", "t3"})
			src += "|groupBy(*).exclude('" + p.exclude + "')"
		case 0:
			p.dims, p.star = []string{"t1"}, false
			src += "|groupBy('t1')"
		case 1:
			p.dims, p.star = []string{"t2"}, false
			src += "|groupBy('t2')"
		default:
			p.dims, p.star = nil, true
			src += "|groupBy(*)"
		}
		if r.Chance(0.5) {
			p.byName = true
			src += ".byMeasurement()"
		}
	}
	n := r.Range(1, 3)
	var shape []string
	s := src
	windowed := false
	for i := 0; i < n; i++ {
		var opts []string
		if !windowed {
			opts = []string{"where", "eval", "nested", "stateCount", "stateDuration", "derivative", "sample", "changeDetect", "difference", "cumulativeSum", "movingAverage", "elapsed", "flatten", "combine", "window", "window"}
			if i == n-1 {
				opts = append(opts, "alert", "alert")
			}
		} else {
			opts = []string{"agg"}
		}
		k := r.Pick(opts)
		shape = append(shape, k)
		switch k {
		case "where":
			s += "|where(lambda: " + r.Pick([]string{`count() % 2 == 0`, `sigma("f1") > 0.7`, `spread("f1") < 1.5`, `count() > 3 AND "f1" > 0.2`}) + ")"
		case "eval":
			s += "|eval(lambda: count(), lambda: sigma(\"f1\"), lambda: spread(\"f1\")).as('c', 'sg', 'sp')" + r.Pick([]string{"", ".keep()", ".keep('c', 'f1')"})
		case "nested":
			// a lambda variable used inside another lambda keeps its own state
			switch r.Intn(4) {
			case 0:
				s += "|where(lambda: l % 2 == 0)"
			case 1:
				s += "|eval(lambda: l, lambda: sg).as('c', 's').keep()"
			case 2:
				// two levels of references
				s += "|where(lambda: l2 % 20 == 0)"
			default:
				s += "|eval(lambda: l2 + 0, lambda: sg2).as('c', 's').keep()"
			}
		case "stateCount":
			s += "|stateCount(lambda: \"f1\" > 1.0)"
		case "stateDuration":
			s += "|stateDuration(lambda: \"f1\" > 0.5)"
		case "derivative":
			s += "|derivative('f1')" + r.Pick([]string{"", ".nonNegative()", ".unit(10s)"})
		case "sample":
			s += fmt.Sprintf("|sample(%d)", r.Range(2, 4))
		case "changeDetect":
			s += "|changeDetect('s1')"
		case "difference":
			s += "|difference('f1')"
		case "cumulativeSum":
			s += "|cumulativeSum('f1')"
		case "movingAverage":
			s += fmt.Sprintf("|movingAverage('f1', %d)", r.Range(2, 4))
		case "elapsed":
			s += "|elapsed('f1', 1s)"
		case "flatten":
			s += "|flatten().on('t3')" + r.Pick([]string{"", ".tolerance(2s)"})
			i = n // field names are mangled afterwards
		case "combine":
			s += "|combine(lambda: \"t3\" == 'u', lambda: TRUE).as('x', 'y')" + r.Pick([]string{"", ".tolerance(2s)"})
			i = n
		case "window":
			if r.Chance(0.5) {
				d := r.Range(3, 9)
				s += fmt.Sprintf("|window().period(%ds).every(%ds)", d, d)
				if r.Chance(0.4) {
					s += ".align()"
				}
			} else {
				c := r.Range(2, 6)
				s += fmt.Sprintf("|window().periodCount(%d).everyCount(%d)", c+r.Intn(2), c)
			}
			windowed = true
			if i == n-1 {
				n++ // always aggregate a window
			}
		case "agg":
			s += r.Pick([]string{"|count('f1')", "|sum('f1')", "|mean('f1')", "|last('f1')", "|max('f1')", "|median('f1')", "|count('f1')|cumulativeSum('count')"})
			windowed = false
		case "alert":
			p.alert = true
			s += "|alert().crit(lambda: \"f1\" > 1.5).warn(lambda: \"f1\" > 1.0)" + r.Pick([]string{"", ".stateChangesOnly()", ".history(4).flapping(0.2, 0.6)", ".noRecoveries()"}) + ".levelField('lvl').durationField('dur').idField('aid').topic('t')"
		}
	}
	p.script = "var l = lambda: count()\nvar sg = lambda: sigma(\"f1\")\nvar l2 = lambda: l * 10\nvar sg2 = lambda: sg + 1.0\n" + s + "|log().prefix('S')"
	p.shape = strings.Join(shape, ">") + fmt.Sprintf("|dims=%v*%v-%s|byName=%v", p.dims, p.star, p.exclude, p.byName)
	return p
}

func genInput(r *core.Rng, hostile bool) []inPoint {
	ng := r.Range(3, 6)
	type grp struct {
		name string
		tags map[string]string
		ints bool // this group's f1 is an integer field
	}
	pool := []string{"a", "b", "c", "d"}
	if hostile {
		pool = hostileVals
	}
	var gs []grp
	seen := map[string]bool{}
	twoNames := r.Chance(0.4)
	// hostile: seed the collision pairs deliberately in half of the runs
	if hostile && r.Chance(0.6) {
		// each pair serialises identically under one incomplete escaping scheme: none at all;
		// ',' escaped but '\\' not; '\\' doubled but ',' not
		pairs := [][4]string{
			{"a,t2=b", "c", "a", "b,t2=c"},
			{`x\`, "1,t2=2", `x,t2=1\`, "2"},
			{`x\,t2=1`, "2", `x\`, "1,t2=2"},
			{`p\\,t2=q`, "r", `p\\`, "q,t2=r"},
		}
		pr := pairs[r.Intn(len(pairs))]
		gs = append(gs, grp{name: "m", tags: map[string]string{"t1": pr[0], "t2": pr[1]}}, grp{name: "m", tags: map[string]string{"t1": pr[2], "t2": pr[3]}})
		seen["m|"+pr[0]+"|"+pr[1]], seen["m|"+pr[2]+"|"+pr[3]] = true, true
	}
	for len(gs) < ng {
		g := grp{name: "m", tags: map[string]string{"t1": r.Pick(pool)}}
		if twoNames && r.Chance(0.4) {
			g.name = "n"
		}
		if !r.Chance(0.15) {
			g.tags["t2"] = r.Pick(pool)
		}
		k := g.name + "|" + g.tags["t1"] + "|" + g.tags["t2"]
		if seen[k] {
			continue
		}
		seen[k] = true
		gs = append(gs, g)
	}
	if r.Chance(0.4) {
		for i := range gs {
			gs[i].ints = r.Chance(0.5)
		}
	}
	n := r.Range(60, 140)
	mode := r.Intn(3)
	tm := t0
	var pts []inPoint
	cur := 0
	for i := 0; i < n; i++ {
		switch mode {
		case 0:
			cur = i % len(gs)
		case 1:
			if r.Chance(0.25) {
				cur = r.Intn(len(gs))
			}
		default:
			cur = r.Intn(len(gs))
		}
		if r.Chance(0.7) {
			tm = tm.Add(time.Duration(r.Range(1, 3)) * time.Second)
		}
		g := gs[cur]
		tags := map[string]string{}
		for k, v := range g.tags {
			tags[k] = v
		}
		tags["t3"] = r.Pick([]string{"u", "v"})
		f := map[string]interface{}{"f1": float64(r.Intn(9)) / 4, "s1": r.Pick([]string{"x", "x", "y"})}
		if g.ints {
			f["f1"] = int64(r.Intn(9))
		}
		if r.Chance(0.05) {
			delete(f, "f1")
		}
		pts = append(pts, inPoint{name: g.name, tags: tags, fields: f, t: tm})
	}
	return pts
}

type runResult struct {
	items []kit.Item
	err   error
	rej   error
}

func runTask(x *core.Ctx, p pipe, in []inPoint) (res runResult, ok bool) {
	env, err := kit.NewEnv(kit.EnvOpts{Scratch: x.Scratch, NoAlert: !p.alert})
	if err != nil {
		x.Inconclusive(err.Error())
		return res, false
	}
	et, err := env.StartStream("T", p.script, nil)
	if err != nil {
		env.Close()
		res.rej = err
		return res, true
	}
	for _, pt := range in {
		tags := map[string]string{}
		for k, v := range pt.tags {
			tags[k] = v
		}
		fields := map[string]interface{}{}
		for k, v := range pt.fields {
			fields[k] = v
		}
		if err := env.Write(kit.Point(pt.name, tags, fields, pt.t)); err != nil {
			break
		}
	}
	res.err = env.DrainWait(et)
	res.items = env.Rec.Sink("S").Items()
	env.Close()
	return res, true
}

func (prop) Run(x *core.Ctx) {
	r := core.NewRng(x.Case.Seed, 6)
	hostile := x.Case.Kind == "hostile"
	for i := 0; i < x.Case.N; i++ {
		runOne(x, r, hostile)
		if x.NumViolations() > 200 {
			return
		}
	}
}

func inDims(p pipe, pt inPoint) []string {
	if !p.star {
		return p.dims
	}
	ks := make([]string, 0, len(pt.tags))
	for k := range pt.tags {
		if k != p.exclude {
			ks = append(ks, k)
		}
	}
	sort.Strings(ks)
	return ks
}

func outKey(it kit.Item) groupKey {
	if it.P != nil {
		return keyOf(it.P.Name, it.P.Tags, it.P.Dims, it.P.ByName)
	}
	return keyOf(it.B.Name, it.B.Tags, it.B.Dims, it.B.ByName)
}

func runOne(x *core.Ctx, r *core.Rng, hostile bool) {
	p := genPipe(r)
	in := genInput(r, hostile)
	if p.hasName {
		var f []inPoint
		for _, pt := range in {
			if pt.name == "m" {
				f = append(f, pt)
			}
		}
		in = f
	}
	prof := "[benign] "
	if hostile {
		prof = "[hostile-tag-values] "
	}
	if !x.Announce(p.script) {
		return
	}
	x.Count("evaluations", 1)
	full, ok := runTask(x, p, in)
	if !ok {
		return
	}
	if full.rej != nil {
		x.Count("scripts_rejected", 1)
		x.SetAdd("rejections", firstWords(full.rej.Error(), 8))
		return
	}
	if full.err != nil {
		x.Violatef("task-died", prof+normErr(full.err.Error()), p.script, "the task ended with an error: %v\nscript: %s", clip(full.err.Error(), 1200), p.script)
		return
	}
	// partition the input by group (value tuples)
	var order []groupKey
	byGroup := map[groupKey][]inPoint{}
	for _, pt := range in {
		k := keyOf(pt.name, pt.tags, inDims(p, pt), p.byName)
		if _, ok := byGroup[k]; !ok {
			order = append(order, k)
		}
		byGroup[k] = append(byGroup[k], pt)
	}
	x.Count("groups", int64(len(order)))
	// outputs of the full run by group
	fullBy := map[groupKey][]kit.Item{}
	for _, it := range full.items {
		fullBy[outKey(it)] = append(fullBy[outKey(it)], it)
	}
	// every output must belong to an input group
	for k, its := range fullBy {
		if _, ok := byGroup[k]; !ok {
			x.Violatef("group-output-unattributable", prof+"output carries dimension values no input group has", p.script,
				"the full run emitted %d item(s) for group %+v which no input point belongs to; first: %s\ninput groups: %v\nscript: %s", len(its), k, itemStr(its[0]), order, p.script)
			return
		}
	}
	producing := 0
	for _, k := range order {
		if len(fullBy[k]) > 0 {
			producing++
		}
	}
	for _, k := range order {
		solo, ok := runTask(x, p, byGroup[k])
		if !ok {
			return
		}
		if solo.rej != nil || solo.err != nil {
			x.Inconclusive(fmt.Sprintf("solo run failed: %v %v", solo.rej, solo.err))
			return
		}
		x.Count("solo_runs", 1)
		var soloItems []kit.Item
		for _, it := range solo.items {
			if outKey(it) != k {
				x.Violatef("group-output-unattributable", prof+"solo output carries other dimension values than its input", p.script,
					"solo run of group %+v emitted %s\nscript: %s", k, itemStr(it), p.script)
				return
			}
			soloItems = append(soloItems, it)
		}
		x.Count("outputs_compared", int64(len(soloItems)))
		if d := diffItems(fullBy[k], soloItems); d != "" {
			// which other groups share the serialised id?
			coll := ""
			for _, k2 := range order {
				if k2 != k && serial(p, byGroup[k2][0]) == serial(p, byGroup[k][0]) {
					coll = fmt.Sprintf("\nNOTE: group %+v serialises to the same group id %q", k2, serial(p, byGroup[k][0]))
				}
			}
			key := prof + "output of a group depends on the other groups: " + p.shapeHead()
			if coll != "" {
				key = prof + "[group-id-collision] two groups with different tag values share one group id"
			}
			x.Violatef("group-not-independent", key, p.script,
				"group %+v: the full run (%d groups interleaved) and the solo run disagree: %s%s\nfull run items for the group: %d, solo run items: %d\nscript: %s", k, len(order), d, coll, len(fullBy[k]), len(soloItems), p.script)
			return
		}
		if len(soloItems) >= 3 && producing >= 2 {
			x.Nontrivial(p.shape + "|" + fmt.Sprint(bucket(len(soloItems))) + "|" + fmt.Sprint(len(order)))
		}
	}
}

func (p pipe) shapeHead() string {
	if i := strings.Index(p.shape, "|"); i > 0 {
		return p.shape[:i]
	}
	return p.shape
}

// serial: the group id the product computes for a point (documented format name\nk=v,k=v)
func serial(p pipe, pt inPoint) string {
	dims := inDims(p, pt)
	var b strings.Builder
	if p.byName {
		b.WriteString(pt.name)
		if len(dims) > 0 {
			b.WriteByte('\n')
		}
	}
	for i, d := range dims {
		if i > 0 {
			b.WriteByte(',')
		}
		b.WriteString(esc(d, true) + "=" + esc(pt.tags[d], false))
	}
	return b.String()
}

func esc(s string, name bool) string {
	var b strings.Builder
	for _, c := range s {
		if c == ',' || c == '\\' || (name && c == '=') {
			b.WriteByte('\\')
		}
		b.WriteRune(c)
	}
	return b.String()
}

func bucket(n int) int {
	switch {
	case n < 6:
		return 0
	case n < 20:
		return 1
	}
	return 2
}

func fieldsStr(f map[string]interface{}) string {
	ks := make([]string, 0, len(f))
	for k := range f {
		ks = append(ks, k)
	}
	sort.Strings(ks)
	var o []string
	for _, k := range ks {
		o = append(o, fmt.Sprintf("%s=%T:%v", k, f[k], f[k]))
	}
	return strings.Join(o, " ")
}
func tagsStr(t map[string]string) string {
	ks := make([]string, 0, len(t))
	for k := range t {
		ks = append(ks, k)
	}
	sort.Strings(ks)
	var o []string
	for _, k := range ks {
		o = append(o, fmt.Sprintf("%s=%q", k, t[k]))
	}
	return strings.Join(o, ",")
}

func itemStr(it kit.Item) string {
	if it.P != nil {
		p := it.P
		return fmt.Sprintf("point{%s group=%q dims=%v tags[%s] fields[%s] t=%s}", p.Name, p.Group, p.Dims, tagsStr(p.Tags), fieldsStr(p.Fields), p.Time.UTC().Format("15:04:05.000"))
	}
	b := it.B
	var o []string
	for _, p := range b.Points {
		o = append(o, fmt.Sprintf("{tags[%s] fields[%s] t=%s}", tagsStr(p.Tags), fieldsStr(p.Fields), p.Time.UTC().Format("15:04:05.000")))
	}
	return fmt.Sprintf("batch{%s group=%q dims=%v tags[%s] tmax=%s}[%s]", b.Name, b.Group, b.Dims, tagsStr(b.Tags), b.TMax.UTC().Format("15:04:05.000"), strings.Join(o, " "))
}

func diffItems(full, solo []kit.Item) string {
	for i := 0; i < len(full) || i < len(solo); i++ {
		switch {
		case i >= len(full):
			return fmt.Sprintf("item %d exists only in the solo run: %s", i, itemStr(solo[i]))
		case i >= len(solo):
			return fmt.Sprintf("item %d exists only in the full run: %s", i, itemStr(full[i]))
		case itemStr(full[i]) != itemStr(solo[i]):
			return fmt.Sprintf("item %d differs\n  full: %s\n  solo: %s", i, itemStr(full[i]), itemStr(solo[i]))
		}
	}
	return ""
}

func normErr(s string) string {
	if i := strings.Index(s, "Trace:"); i > 0 {
		s = s[:i]
	}
	var b strings.Builder
	for _, c := range s {
		if c >= '0' && c <= '9' {
			b.WriteByte('#')
		} else {
			b.WriteRune(c)
		}
	}
	o := b.String()
	for strings.Contains(o, "##") {
		o = strings.ReplaceAll(o, "##", "#")
	}
	return clip(o, 140)
}

func clip(s string, n int) string {
	if len(s) > n {
		return s[:n] + "…"
	}
	return s
}

func firstWords(s string, n int) string {
	w := strings.Fields(s)
	if len(w) > n {
		w = w[:n]
	}
	return strings.Join(w, " ")
}

// dbg: developer helper. Reads a TICKscript on stdin, prints pipeline JSON, the script rendered
// by pipeline/tick and the JSON round trip. Not used by any check.
package main

import (
	"bytes"
	"encoding/json"
	"fmt"
	"io"
	"os"
	"runtime/debug"

	"github.com/influxdata/kapacitor"
	"github.com/influxdata/kapacitor/pipeline"
	ptick "github.com/influxdata/kapacitor/pipeline/tick"

	"verifharness/kit"
)

func main() {
	src, _ := io.ReadAll(os.Stdin)
	tt := kapacitor.StreamTask
	if len(os.Args) > 1 && os.Args[1] == "batch" {
		tt = kapacitor.BatchTask
	}
	rec := kit.NewRecorder()
	tm := kapacitor.NewTaskMaster("dbg", kit.ServerInfo(), rec.Diag())
	tm.DeadmanService = kit.NopDeadman{}
	tm.TaskStore = kit.NopTaskStore{}
	tm.HTTPDService = kit.NopHTTPD{}
	t, err := tm.NewTask("t", string(src), tt, []kapacitor.DBRP{{Database: "db", RetentionPolicy: "rp"}}, 0, nil)
	if err != nil {
		fmt.Println("DEFINE ERROR:", err)
		return
	}
	j, _ := json.Marshal(t.Pipeline)
	fmt.Println("JSON:", string(j))
	func() {
		defer func() {
			if r := recover(); r != nil {
				fmt.Println("RENDER PANIC:", r)
				fmt.Println(string(debug.Stack()))
			}
		}()
		a := ptick.AST{}
		if err := a.Build(t.Pipeline); err != nil {
			fmt.Println("RENDER ERROR:", err)
			return
		}
		var buf bytes.Buffer
		a.Program.Format(&buf, "", false)
		fmt.Println("RENDERED:\n" + buf.String())
	}()
	func() {
		defer func() {
			if r := recover(); r != nil {
				fmt.Println("UNMARSHAL PANIC:", r)
				fmt.Println(string(debug.Stack()))
			}
		}()
		p2 := &pipeline.Pipeline{}
		if err := p2.Unmarshal(j); err != nil {
			fmt.Println("UNMARSHAL ERROR:", err)
			return
		}
		j2, err := json.Marshal(p2)
		fmt.Println("JSON2:", string(j2), err)
	}()
}

// vh is both the driver and the worker of the monitoring harness (DESIGN §3).
package main

import (
	"fmt"
	"os"
	"strconv"

	"verifharness/core"
	_ "verifharness/props"
)

func main() {
	if len(os.Args) < 2 {
		usage()
	}
	switch os.Args[1] {
	case "driver":
		// vh driver <ID> <tier> [--replay file]
		if len(os.Args) < 4 {
			usage()
		}
		id, tier := os.Args[2], os.Args[3]
		replay := ""
		if len(os.Args) >= 6 && os.Args[4] == "--replay" {
			replay = os.Args[5]
		}
		seed := uint64(1)
		if s := os.Getenv("VERIF_SEED"); s != "" {
			if n, err := strconv.ParseUint(s, 10, 64); err == nil {
				seed = n
			}
		}
		os.Exit(core.Drive(id, tier, seed, replay))
	case "worker":
		if len(os.Args) < 6 {
			usage()
		}
		os.Exit(core.Work(os.Args[2], os.Args[3], os.Args[4], os.Args[5]))
	case "list":
		for _, id := range core.IDs() {
			fmt.Println(id)
		}
	default:
		usage()
	}
}

func usage() {
	fmt.Fprintln(os.Stderr, "usage: vh driver <ID> <quick|thorough> [--replay file] | vh worker <ID> <batch> <out> <scratch> | vh list")
	os.Exit(2)
}
